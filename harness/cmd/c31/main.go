// c31: binding of spec/Calendar.tla to the engine's date and time functions (C31).
//
//	replay -file cases.ndjson          binding A: TLC-enumerated cases {op, e, ok, tag, nt}; every expression
//	                                   is executed through SQL and the canonical result string must be a member
//	                                   of ok (string equality only).
//	gen -seed S -n N -out trace        binding B: seeded random values / formats / intervals, executed and
//	                                   recorded; the recorded lines are judged by spec/Trace_Calendar.tla.
//	exec -in events -out trace         binding B: re-records given input events (confirmation, witnesses).
//
// This program decides nothing about dates: it renders integers as literals, runs SQL, and records
// the engine's canonical strings (the wire rendering of each result column).
package main

import (
	"encoding/json"
	"flag"
	"fmt"
	"math/rand"
	"os"
	"regexp"
	"strconv"
	"strings"
	"time"

	"gmsverif/lib/eng"
	"gmsverif/lib/vio"
)

// ---------------------------------------------------------------- engine access

type sess struct {
	s *eng.Session
}

func newSess() *sess {
	db := eng.New()
	s := db.NewSession()
	s.MustExec("SET time_zone = '+00:00'")
	s.MustExec("CREATE TABLE ti (id INT PRIMARY KEY, d DATE)")
	s.MustExec("CREATE TABLE tv (id INT PRIMARY KEY, d DATE, dt DATETIME(6))")
	return &sess{s: s}
}

// canon returns the engine's canonical strings of the first row of a statement: the wire rendering of
// every column ("NULL" for SQL NULL), or the single outcome "ERROR".
func (x *sess) canon(q string) ([]string, string) {
	r := x.s.Exec(q)
	if r.Kind == "err" || r.Kind == "panic" {
		return nil, r.Kind + ": " + r.Msg
	}
	if r.Kind != "rows" {
		return []string{}, ""
	}
	if len(r.Raw) == 0 {
		return nil, "no row"
	}
	ctx := x.s.Ctx()
	out := make([]string, len(r.Raw[0]))
	for i, v := range r.Raw[0] {
		if v == nil {
			out[i] = "NULL"
			continue
		}
		val, err := r.Schema[i].Type.SQL(ctx, nil, v)
		if err != nil {
			out[i] = "ERROR"
			continue
		}
		out[i] = val.ToString()
	}
	return out, ""
}

// one evaluates a single expression (with an optional FROM clause).
func (x *sess) one(expr, from string) string {
	out, err := x.canon("SELECT " + expr + from)
	if err != "" || len(out) != 1 {
		return "ERROR"
	}
	return out[0]
}

// ---------------------------------------------------------------- binding A

type Case struct {
	Op  string   `json:"op"`
	E   string   `json:"e"`
	OK  []string `json:"ok"`
	Tag string   `json:"tag"`
	NT  bool     `json:"nt"`
	Dev []string `json:"dev"`
}

var (
	reDate = regexp.MustCompile(`^\d{1,4}-\d\d-\d\d$`)
	reDT   = regexp.MustCompile(`^\d{1,4}-\d\d-\d\d \d\d:\d\d:\d\d(\.\d+)?$`)
	reInt  = regexp.MustCompile(`^-?\d+$`)
)

// class is a coarse shape of a canonical string, used only in signatures.
func class(s string) string {
	switch {
	case s == "NULL" || s == "ERROR":
		return s
	case reDate.MatchString(s):
		return "date"
	case reDT.MatchString(s):
		return "datetime"
	case reInt.MatchString(s):
		return "int"
	}
	return "other"
}

func expClass(ok []string) string {
	if len(ok) != 1 {
		return "rejected"
	}
	return class(ok[0])
}

func member(s string, set []string) bool {
	for _, t := range set {
		if s == t {
			return true
		}
	}
	return false
}

func replay(file string, batch, keep int) {
	x := newSess()
	rep := &vio.Report{Extra: map[string]interface{}{}}
	byTag := map[string]int{}
	ntSeen := map[string]bool{}
	bySig := map[string]int{}
	var cases []Case
	err := vio.ReadNDJSON(file, func(i int, line []byte) error {
		var c Case
		if err := json.Unmarshal(line, &c); err != nil {
			return err
		}
		cases = append(cases, c)
		return nil
	})
	if err != nil {
		vio.Fatal("%v", err)
	}
	got := make([]string, len(cases))
	nextID := 0
	var pend []int
	flush := func() {
		if len(pend) == 0 {
			return
		}
		es := make([]string, len(pend))
		for k, i := range pend {
			es[k] = cases[i].E
		}
		out, e := x.canon("SELECT " + strings.Join(es, ", "))
		if e == "" && len(out) == len(pend) {
			for k, i := range pend {
				got[i] = out[k]
			}
		} else {
			for _, i := range pend {
				got[i] = x.one(cases[i].E, "")
			}
		}
		pend = pend[:0]
	}
	for i, c := range cases {
		switch c.Op {
		case "sel":
			pend = append(pend, i)
			if len(pend) >= batch {
				flush()
			}
		case "insert":
			nextID++
			r := x.s.Exec(fmt.Sprintf("INSERT INTO ti VALUES (%d, '%s')", nextID, c.E))
			if r.Kind != "ok" {
				got[i] = "ERROR"
			} else {
				got[i] = x.one("d", fmt.Sprintf(" FROM ti WHERE id = %d", nextID))
			}
		default:
			vio.Fatal("unknown op %q", c.Op)
		}
	}
	flush()
	for i, c := range cases {
		rep.Cases++
		byTag[c.Tag]++
		if c.NT && !ntSeen[c.E] {
			ntSeen[c.E] = true
			rep.Nontrivial++
		}
		if !member(got[i], c.OK) {
			g := class(got[i])
			if member(got[i], c.Dev) { // a rendering the specification lists as a recorded deviation
				g = "dev"
			}
			sig := fmt.Sprintf("A|%s|exp=%s|got=%s", c.Tag, expClass(c.OK), g)
			bySig[sig]++
			if bySig[sig] <= keep { // the first cases of every signature are kept in full
				rep.Mismatches = append(rep.Mismatches, vio.Mismatch{Case: i, Signature: sig, Expected: c.OK, Got: got[i], Input: c})
			}
		}
		if len(rep.Samples) < 4 && c.NT && i%997 == 3 {
			rep.Samples = append(rep.Samples, map[string]interface{}{"sql": c.E, "accepted": c.OK, "engine": got[i]})
		}
	}
	rep.Extra["by_tag"] = byTag
	rep.Extra["by_signature"] = bySig
	rep.Emit()
}

// ---------------------------------------------------------------- binding B

type V struct {
	Y  int `json:"y"`
	M  int `json:"m"`
	D  int `json:"d"`
	H  int `json:"h"`
	I  int `json:"i"`
	S  int `json:"s"`
	US int `json:"us"`
}

type Val struct {
	T string `json:"t"` // i | big | n | e | o
	V int    `json:"v"`
	S string `json:"s,omitempty"`
}

type Ev struct {
	Ev    string   `json:"ev"`
	ID    int      `json:"id"`
	V     V        `json:"v"`
	Kind  string   `json:"kind"` // date | datetime
	Form  string   `json:"form"` // lit | cast | col
	Specs []string `json:"specs,omitempty"`
	N     int      `json:"n"`
	U     string   `json:"u,omitempty"`
	B     *V       `json:"b,omitempty"`
	// recorded
	Vs      string         `json:"vs"`
	F       string         `json:"f"`
	Back    string         `json:"back"`
	BackRaw string         `json:"backraw"`
	Nest    string         `json:"nest"`
	Add     string         `json:"add"`
	AddP    V              `json:"addp"`
	AddOK   bool           `json:"addok"`
	BackP   V              `json:"backp"`
	BackOK  bool           `json:"backok"`
	DD      Val            `json:"dd"`
	TS      map[string]Val `json:"ts,omitempty"`
	SQL     []string       `json:"sql"`
}

func (v V) lit(kind string) string {
	if kind == "date" {
		return fmt.Sprintf("%04d-%02d-%02d", v.Y, v.M, v.D)
	}
	s := fmt.Sprintf("%04d-%02d-%02d %02d:%02d:%02d", v.Y, v.M, v.D, v.H, v.I, v.S)
	if v.US != 0 {
		s += fmt.Sprintf(".%06d", v.US)
	}
	return s
}

var reFields = regexp.MustCompile(`^(\d{1,4})-(\d\d)-(\d\d)(?: (\d\d):(\d\d):(\d\d)(?:\.(\d{1,6}))?)?$`)

// fields splits a canonical date/datetime string into integers (representation only).
func fields(s string) (V, bool) {
	m := reFields.FindStringSubmatch(s)
	if m == nil {
		return V{}, false
	}
	at := func(i int) int {
		if m[i] == "" {
			return 0
		}
		n, _ := strconv.Atoi(m[i])
		return n
	}
	v := V{Y: at(1), M: at(2), D: at(3), H: at(4), I: at(5), S: at(6)}
	if m[7] != "" {
		f := m[7] + strings.Repeat("0", 6-len(m[7]))
		v.US, _ = strconv.Atoi(f)
	}
	return v, true
}

func intVal(s string) Val {
	switch {
	case s == "NULL":
		return Val{T: "n"}
	case s == "ERROR":
		return Val{T: "e"}
	case reInt.MatchString(s):
		n, err := strconv.ParseInt(s, 10, 64)
		if err == nil && n >= -2147483647 && n <= 2147483647 {
			return Val{T: "i", V: int(n)}
		}
		return Val{T: "big", S: s}
	}
	return Val{T: "o", S: s}
}

var allUnits = []string{"SECOND", "MINUTE", "HOUR", "DAY", "WEEK", "MONTH", "QUARTER", "YEAR"}

// operand renders the value in the requested form; for form col the value is first stored in tv.
func (x *sess) operand(e *Ev, v V, kind string) (expr, from string, stored bool) {
	lit := "'" + v.lit(kind) + "'"
	switch e.Form {
	case "cast":
		if kind == "date" {
			return "CAST(" + lit + " AS DATE)", "", true
		}
		return "CAST(" + lit + " AS DATETIME(6))", "", true
	case "col":
		x.s.Exec(fmt.Sprintf("DELETE FROM tv WHERE id = %d", e.ID))
		var q, col string
		if kind == "date" {
			q, col = fmt.Sprintf("INSERT INTO tv VALUES (%d, %s, NULL)", e.ID, lit), "d"
		} else {
			q, col = fmt.Sprintf("INSERT INTO tv VALUES (%d, NULL, %s)", e.ID, lit), "dt"
		}
		e.SQL = append(e.SQL, q)
		r := x.s.Exec(q)
		return col, fmt.Sprintf(" FROM tv WHERE id = %d", e.ID), r.Kind == "ok"
	}
	return lit, "", true
}

func (x *sess) sel(e *Ev, expr, from string) string {
	e.SQL = append(e.SQL, "SELECT "+expr+from)
	return x.one(expr, from)
}

func (x *sess) record(e *Ev) {
	e.SQL = nil
	xv, from, stored := x.operand(e, e.V, e.Kind)
	if !stored {
		// an INSERT the engine refused: every observation is the outcome ERROR
		e.Vs, e.F, e.Back, e.BackRaw, e.Nest, e.Add = "ERROR", "ERROR", "ERROR", "ERROR", "ERROR", "ERROR"
		e.DD = Val{T: "e"}
		e.TS = map[string]Val{}
		for _, u := range allUnits {
			e.TS[u] = Val{T: "e"}
		}
		return
	}
	switch e.Ev {
	case "fmt":
		f := strings.Join(e.Specs, "")
		e.Vs = x.sel(e, "CAST("+xv+" AS DATETIME(6))", from)
		e.F = x.sel(e, "DATE_FORMAT("+xv+", '"+f+"')", from)
		if e.F == "NULL" || e.F == "ERROR" {
			e.Back, e.BackRaw = e.F, e.F
		} else {
			e.Back = x.sel(e, "CAST(STR_TO_DATE('"+e.F+"', '"+f+"') AS DATETIME(6))", "")
			e.BackRaw = x.sel(e, "STR_TO_DATE('"+e.F+"', '"+f+"')", "")
		}
		e.Nest = x.sel(e, "CAST(STR_TO_DATE(DATE_FORMAT("+xv+", '"+f+"'), '"+f+"') AS DATETIME(6))", from)
	case "addsub":
		iv := fmt.Sprintf("INTERVAL %d %s", e.N, e.U)
		e.Vs = x.sel(e, "CAST("+xv+" AS DATETIME(6))", from)
		e.Add = x.sel(e, "CAST(DATE_ADD("+xv+", "+iv+") AS DATETIME(6))", from)
		e.Back = x.sel(e, "CAST(DATE_SUB(DATE_ADD("+xv+", "+iv+"), "+iv+") AS DATETIME(6))", from)
		e.AddP, e.AddOK = fields(e.Add)
		e.BackP, e.BackOK = fields(e.Back)
	case "diff":
		yb := "'" + e.B.lit("datetime") + "'"
		if e.B.H == 0 && e.B.I == 0 && e.B.S == 0 && e.B.US == 0 && e.ID%2 == 0 {
			yb = "'" + e.B.lit("date") + "'"
		}
		e.DD = intVal(x.sel(e, "DATEDIFF("+xv+", "+yb+")", from))
		e.TS = map[string]Val{}
		for _, u := range allUnits {
			e.TS[u] = intVal(x.sel(e, "TIMESTAMPDIFF("+u+", "+xv+", "+yb+")", from))
		}
	default:
		vio.Fatal("unknown event %q", e.Ev)
	}
}

// ---- generator (no calendar knowledge: day numbers up to 31 are drawn blindly, the specification
// decides which values are valid)

var seps = []string{"-", "/", ":", ".", ",", " ", "_", "|"}

func pick(r *rand.Rand, xs ...string) string { return xs[r.Intn(len(xs))] }

func genV(r *rand.Rand, kind string, window bool) V {
	var v V
	switch k := r.Intn(10); {
	case window || k < 4:
		v.Y = 1970 + r.Intn(62)
	case k < 8:
		v.Y = 1000 + r.Intn(9000)
	case k == 8:
		v.Y = 1 + r.Intn(999)
	default:
		v.Y = []int{1, 1000, 1900, 2000, 2024, 2100, 9999}[r.Intn(7)]
	}
	v.M = 1 + r.Intn(12)
	if r.Intn(10) < 6 {
		v.D = 1 + r.Intn(28)
	} else {
		v.D = 28 + r.Intn(4)
	}
	if kind == "datetime" {
		switch r.Intn(6) {
		case 0:
			v.H, v.I, v.S = 23, 59, 59
		case 1: // midnight
		default:
			v.H, v.I, v.S = r.Intn(24), r.Intn(60), r.Intn(60)
		}
		if r.Intn(3) == 0 {
			v.US = []int{1, 500000, 999999, 123456, 100}[r.Intn(5)]
		}
	}
	return v
}

func genSpecs(r *rand.Rand, kind string) []string {
	var date []string
	year := pick(r, "%Y", "%Y", "%Y", "%Y", "%y")
	if r.Intn(5) == 0 {
		date = []string{year, "%j"}
	} else {
		date = []string{year, pick(r, "%m", "%m", "%c"), pick(r, "%d", "%d", "%e")}
	}
	r.Shuffle(len(date), func(i, j int) { date[i], date[j] = date[j], date[i] })
	var tm []string
	if kind == "datetime" {
		if r.Intn(6) == 0 {
			tm = []string{"%T"}
		} else {
			tm = []string{pick(r, "%H", "%H", "%k"), "%i", pick(r, "%s", "%S")}
		}
		if r.Intn(2) == 0 {
			tm = append(tm, "%f")
		}
	}
	all := append(date, tm...)
	if r.Intn(12) == 0 && len(all) > 2 { // an incomplete format: the law does not apply, decided by the specification
		k := r.Intn(len(all))
		all = append(all[:k:k], all[k+1:]...)
	}
	adjacent := r.Intn(7) == 0
	var out []string
	for k, s := range all {
		if k > 0 && !(adjacent && r.Intn(3) > 0) {
			out = append(out, pick(r, seps...))
		}
		out = append(out, s)
	}
	return out
}

func genEvent(seed int64, id int) *Ev {
	r := rand.New(rand.NewSource(seed*1000003 + int64(id)*7919))
	e := &Ev{ID: id}
	e.Kind = pick(r, "date", "datetime", "datetime")
	e.Form = pick(r, "lit", "lit", "cast", "col")
	switch id % 3 {
	case 0:
		e.Ev = "fmt"
		e.V = genV(r, e.Kind, false)
		e.Specs = genSpecs(r, e.Kind)
	case 1:
		e.Ev = "addsub"
		e.U = pick(r, "DAY", "WEEK", "MONTH", "MONTH", "QUARTER", "YEAR", "SECOND", "MINUTE", "HOUR")
		e.V = genV(r, e.Kind, false)
		switch k := r.Intn(10); {
		case k < 6:
			e.N = 1 + r.Intn(50)
		case k < 8:
			e.N = []int{1, 11, 12, 13, 24, 36, 48, 59, 60, 61, 365, 366}[r.Intn(12)]
		default:
			e.N = 100 + r.Intn(1100)
		}
		if r.Intn(2) == 0 {
			e.N = -e.N
		}
	default:
		e.Ev = "diff"
		if e.Form == "col" {
			e.Form = "cast"
		}
		win := r.Intn(2) == 0
		e.V = genV(r, e.Kind, win)
		b := genV(r, pick(r, "date", "datetime"), win)
		if r.Intn(4) == 0 { // near pairs: same year, neighbouring months
			b.Y = e.V.Y
			b.M = 1 + (e.V.M+r.Intn(3)+10)%12
		}
		if r.Intn(5) == 0 { // the time of day decides whether the last unit is complete
			b.D = e.V.D
			b.H, b.I, b.S = e.V.H, e.V.I, e.V.S
			switch r.Intn(4) {
			case 0:
				b.I = r.Intn(60)
			case 1:
				b.S = r.Intn(60)
			case 2:
				b.H = r.Intn(24)
			}
		}
		e.V.US, b.US = 0, 0
		e.B = &b
	}
	return e
}

func main() {
	os.Setenv("TZ", "UTC")
	time.Local = time.UTC
	if len(os.Args) < 2 {
		vio.Fatal("usage: c31 replay|gen|exec ...")
	}
	mode := os.Args[1]
	fs := flag.NewFlagSet(mode, flag.ExitOnError)
	file := fs.String("file", "", "cases (replay)")
	batch := fs.Int("batch", 25, "expressions per SELECT (replay)")
	keep := fs.Int("keep", 3, "mismatches kept in full per signature (replay)")
	seed := fs.Int64("seed", 1, "")
	n := fs.Int("n", 300, "events (gen)")
	only := fs.String("only", "", "comma-separated ids (gen)")
	in := fs.String("in", "", "input events (exec)")
	out := fs.String("out", "", "recorded trace")
	fs.Parse(os.Args[2:])
	switch mode {
	case "replay":
		replay(*file, *batch, *keep)
	case "gen", "exec":
		var evs []*Ev
		if mode == "gen" {
			want := map[int]bool{}
			for _, s := range strings.Split(*only, ",") {
				if s != "" {
					k, _ := strconv.Atoi(s)
					want[k] = true
				}
			}
			for id := 1; id <= *n; id++ {
				if len(want) == 0 || want[id] {
					evs = append(evs, genEvent(*seed, id))
				}
			}
		} else {
			err := vio.ReadNDJSON(*in, func(i int, line []byte) error {
				var e Ev
				if err := json.Unmarshal(line, &e); err != nil {
					return err
				}
				if e.Ev != "" {
					evs = append(evs, &e)
				}
				return nil
			})
			if err != nil {
				vio.Fatal("%v", err)
			}
		}
		x := newSess()
		w, err := vio.NewWriter(*out)
		if err != nil {
			vio.Fatal("%v", err)
		}
		rep := &vio.Report{Extra: map[string]interface{}{}}
		byEv := map[string]int{}
		for _, e := range evs {
			x.record(e)
			if e.Specs == nil {
				e.Specs = []string{}
			}
			if e.TS == nil {
				e.TS = map[string]Val{}
			}
			w.Write(e)
			rep.Cases++
			byEv[e.Ev]++
			if len(rep.Samples) < 3 && e.ID%101 < 3 {
				rep.Samples = append(rep.Samples, e)
			}
		}
		w.Close()
		rep.Extra["by_event"] = byEv
		rep.Emit()
	default:
		vio.Fatal("unknown mode %q", mode)
	}
}
