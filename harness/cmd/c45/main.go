// c45: records traces of the real sql/sqlredact for validation against spec/Redact.tla
// (binding B of C45).  The generator knows the class of every input token by construction; this
// program never decides a verdict - it writes what went in and what came out (as interned ids,
// because TLA+ strings are atomic) and TLC evaluates spec/Trace_Redact.tla over the file.
package main

import (
	"flag"
	"fmt"
	"math/rand"
	"os"
	"sort"
	"strings"
	"sync"
	"sync/atomic"

	"gmsverif/lib/vio"

	"github.com/dolthub/go-mysql-server/sql/sqlredact"
	"github.com/dolthub/vitess/go/vt/sqlparser"
)

type InTok struct {
	C    string `json:"c"`
	X    int    `json:"x"`
	Lo   int    `json:"lo"`
	Alt  int    `json:"alt"`
	K    int    `json:"k"`
	R    int    `json:"r"`
	F    []int  `json:"f"`
	Sub  string `json:"sub"`
	NR   bool   `json:"nr"`
	Role string `json:"role"`
	S    string `json:"s"`
}

type OutTok struct {
	T  int    `json:"t"`
	Lo int    `json:"lo"`
	H  []int  `json:"h"`
	S  string `json:"s"`
}

type Pair struct {
	R int    `json:"r"`
	T int    `json:"t"`
	S string `json:"s"`
}

type Snap struct {
	N  []Pair `json:"n"`
	V  []Pair `json:"v"`
	NC int    `json:"nc"`
	VC int    `json:"vc"`
}

type Event struct {
	E     string   `json:"e"`
	Tr    int      `json:"tr"`
	I     int      `json:"i"`
	Unp   bool     `json:"unp"`
	Seq   bool     `json:"seq"`
	HasMa bool     `json:"hasma"`
	In    []InTok  `json:"in"`
	Out   []OutTok `json:"out"`
	Ma    Snap     `json:"ma"`
	St    int      `json:"st"`
	En    int      `json:"en"`
	G     int      `json:"g"`
	Tpl   string   `json:"tpl"`
	SQL   string   `json:"sql"`
	O     string   `json:"o"`
	Sub   bool     `json:"substring_leak"` // the recorded output contains an input lexeme (len >= 2) as a substring ...
	Off   string   `json:"offending"`      // ... this one (the verdict is the spec's NoLeak, from the `h` fields)
}

// interner: one table per trace, shared by input lexemes and output tokens
type interner struct {
	ids   map[string]int
	scan  []string // forms that take part in the substring scan
	scanS map[string]bool
}

func newInterner() *interner { return &interner{ids: map[string]int{}, scanS: map[string]bool{}} }

func (in *interner) id(s string) int {
	if v, ok := in.ids[s]; ok {
		return v
	}
	v := len(in.ids) + 1
	in.ids[s] = v
	return v
}

// a form takes part in the substring scan when it has >= 2 characters and at least one character
// outside the alphabet every placeholder is written in
func (in *interner) addScan(s string) {
	if len(s) >= 2 && !onlyPlaceholderAlphabet(s) && !in.scanS[s] {
		in.scanS[s] = true
		in.scan = append(in.scan, s)
	}
}

func forms(t Tok) []string {
	var fs []string
	add := func(s string) {
		if s == "" {
			return
		}
		for _, x := range fs {
			if x == s {
				return
			}
		}
		fs = append(fs, s)
	}
	switch t.C {
	case "ident":
		add(t.Lex)
		add(strings.ToLower(t.Lex))
		add(t.Src)
	case "strlit", "numlit", "hexlit", "bitlit":
		add(t.Lex)
		add(t.Src)
	case "comment":
		add(t.Src)
		add(strings.TrimSpace(t.Src))
		for _, s := range t.Sec {
			add(s)
		}
	}
	return fs
}

func (in *interner) inTok(t Tok) InTok {
	it := InTok{C: t.C, X: in.id(t.Src), Lo: in.id(strings.ToLower(t.Src)), Alt: in.id(t.Alt), Sub: t.Sub, NR: t.NR, Role: t.Role, S: t.Src, F: []int{}}
	it.K, it.R = it.X, it.X
	switch t.C {
	case "ident", "strlit", "numlit", "hexlit", "bitlit":
		it.K = in.id("\x00K|" + t.C + "|" + t.Sub + "|" + t.Lex)
		it.R = in.id(t.Lex)
	}
	for _, f := range forms(t) {
		it.F = append(it.F, in.id(f))
		in.addScan(f)
	}
	return it
}

// outToks splits the redactor's output the way it was joined: tokens separated by one space
func (in *interner) outToks(out string) ([]OutTok, bool, string) {
	res := []OutTok{}
	if out == "" {
		return res, false, ""
	}
	sub, off := false, ""
	for _, s := range strings.Split(out, " ") {
		ot := OutTok{T: in.id(s), Lo: in.id(strings.ToLower(s)), S: s, H: []int{}}
		for _, f := range in.scan {
			if strings.Contains(s, f) {
				ot.H = append(ot.H, in.id(f))
			}
		}
		res = append(res, ot)
	}
	for _, f := range in.scan {
		if strings.Contains(out, f) {
			sub, off = true, f
			break
		}
	}
	return res, sub, off
}

func (in *interner) snap(m *sqlredact.Mapping) Snap {
	s := Snap{N: []Pair{}, V: []Pair{}}
	conv := func(mp map[string]string) []Pair {
		ps := []Pair{}
		for k, v := range mp {
			ps = append(ps, Pair{R: in.id(k), T: in.id("\x00T|" + v), S: v})
		}
		sort.Slice(ps, func(i, j int) bool { return ps[i].R < ps[j].R })
		return ps
	}
	s.N, s.V = conv(m.Idents()), conv(m.Values())
	if _, err := fmt.Sscanf(m.String(), "sqlredact.Mapping{idents:%d values:%d}", &s.NC, &s.VC); err != nil {
		vio.Fatal("cannot read the counters from Mapping.String(): %q", m.String())
	}
	return s
}

func redact(sql string, m *sqlredact.Mapping) (out string) {
	defer func() {
		if r := recover(); r != nil {
			out = fmt.Sprintf("<panic: %v>", r)
		}
	}()
	out, _ = sqlredact.RedactSQLForTraceInto(sql, m)
	return out
}

func checkGround(toks []Tok, sql string) {
	for _, t := range toks {
		if t.C == "ident" && structuralWords[strings.ToLower(t.Lex)] {
			vio.Fatal("generator: identifier %q is also a structural word of the templates: %s", t.Lex, sql)
		}
	}
}

func fixBinds(toks []Tok) {
	n := 0
	for i := range toks {
		if toks[i].C == "bind" && toks[i].Src == "?" {
			n++
			toks[i].Alt = fmt.Sprintf(":v%d", n)
		}
	}
}

type stats struct {
	cases, nontrivial, unparseable, discarded, discardedUnp, substr, bindCollide, kwIdentStmts int
	byTpl                                                                                      map[string]int
	byClass                                                                                    map[string]int
	distinctNT                                                                                 map[string]bool
	samples                                                                                    []interface{}
}

func newStats() *stats {
	return &stats{byTpl: map[string]int{}, byClass: map[string]int{}, distinctNT: map[string]bool{}}
}

// nontrivial: >= 2 identifiers and >= 1 literal, or a lexeme that repeats (in the statement or
// already present in the shared mapping)
func (st *stats) account(toks []Tok, tpl, sql, out string, seen map[string]bool) {
	st.cases++
	st.byTpl[tpl]++
	ids, lits, rep, kwid, binds := 0, 0, false, false, map[string]bool{}
	local := map[string]bool{}
	for _, t := range toks {
		st.byClass[t.C]++
		switch t.C {
		case "ident", "strlit", "numlit", "hexlit", "bitlit":
			if t.C == "ident" {
				ids++
				if t.NR {
					kwid = true
				}
			} else {
				lits++
			}
			key := t.C + "|" + t.Sub + "|" + t.Lex
			if local[key] || seen[key] {
				rep = true
			}
			local[key] = true
		case "bind":
			binds[t.Alt] = true
		}
	}
	for k := range local {
		seen[k] = true
	}
	if kwid {
		st.kwIdentStmts++
	}
	// observation only: a bind placeholder spelled like a value placeholder of the same output
	if len(binds) > 0 {
		cnt := map[string]int{}
		for _, s := range strings.Split(out, " ") {
			cnt[s]++
		}
		nb := map[string]int{}
		for _, t := range toks {
			if t.C == "bind" {
				nb[t.Alt]++
			}
		}
		for b, n := range nb {
			if cnt[b] > n {
				st.bindCollide++
				break
			}
		}
	}
	if (ids >= 2 && lits >= 1) || rep {
		st.nontrivial++
		st.distinctNT[sql] = true
		if len(st.samples) < 4 && st.cases%7 == 3 {
			st.samples = append(st.samples, map[string]string{"sql": sql, "redacted": out, "template": tpl})
		}
	}
}

// one session trace: statements redacted in order into one shared Mapping
func sessionTrace(w *vio.Writer, seed int64, tr, nstmts int, st *stats) {
	g := &gen{r: rand.New(rand.NewSource(seed*1000003 + int64(tr)*7919 + 17))}
	g.p = newPools(g, false)
	in := newInterner()
	m := sqlredact.NewMapping()
	seen := map[string]bool{}
	w.Write(Event{E: "reset", Tr: tr, In: []InTok{}, Out: []OutTok{}, Ma: Snap{N: []Pair{}, V: []Pair{}}})
	emit := func(i int, toks []Tok, tpl, sql string, unp bool) {
		ev := Event{E: "stmt", Tr: tr, I: i, Unp: unp, Seq: true, HasMa: true, Tpl: tpl, SQL: sql, In: []InTok{}}
		for _, t := range toks {
			ev.In = append(ev.In, in.inTok(t))
		}
		out := redact(sql, m)
		ev.O = out
		ev.Out, ev.Sub, ev.Off = in.outToks(out)
		if ev.Sub {
			st.substr++
		}
		ev.Ma = in.snap(m)
		w.Write(ev)
		if unp {
			st.cases++
			st.unparseable++
			st.byTpl["unparseable"]++
		} else {
			st.account(toks, tpl, sql, out, seen)
		}
	}
	i := 0
	if tr == 0 {
		for _, ws := range witnesses(g) {
			sql := render(ws.toks, g.r)
			emit(i, ws.toks, ws.tpl, sql, false)
			i++
		}
		return
	}
	for i < nstmts {
		if g.chance(0.1) {
			toks := g.unparseable()
			fixBinds(toks)
			sql := render(toks, g.r)
			if g.chance(0.2) {
				sql += " 'unterminated"
				toks = append(toks, Tok{C: "strlit", Src: "'unterminated", Lex: "unterminated", Alt: "'unterminated"})
			}
			if _, err := sqlparser.Parse(sql); err == nil {
				st.discardedUnp++ // the soup happens to be a statement: not an unparseable input
				continue
			}
			emit(i, toks, "unparseable", sql, true)
			i++
			continue
		}
		toks, tpl := g.statement()
		fixBinds(toks)
		sql := render(toks, g.r)
		checkGround(toks, sql)
		if _, err := sqlparser.Parse(sql); err != nil {
			st.discarded++ // outside the parser's language: not an input of the property's parseable case
			if os.Getenv("C45_DEBUG") != "" {
				fmt.Fprintf(os.Stderr, "DISCARD %s: %q: %v\n", tpl, sql, err)
			}
			continue
		}
		emit(i, toks, tpl, sql, false)
		i++
	}
}

type witness struct {
	toks []Tok
	tpl  string
}

// fixed statements replayed every run (trace 0): the known finding's witness and the documented examples
func witnesses(g *gen) []witness {
	var ws []witness
	build := func(tpl string, f func()) {
		g.toks = nil
		g.kwCase = 0
		f()
		var out []Tok
		glue := false
		for _, x := range g.toks {
			if x.C == "_glue" {
				glue = true
				continue
			}
			if glue {
				x.Glue = true
			}
			glue = false
			out = append(out, x)
		}
		fixBinds(out)
		ws = append(ws, witness{out, tpl})
	}
	bare := func(name, role string) {
		g.add(Tok{C: "ident", Src: name, Lex: name, Role: role, NR: allKeywords[strings.ToLower(name)]})
	}
	// CREATE TABLE orders ( id INT , status INT , secret_col TEXT )
	build("ddl_create_table", func() {
		g.kw("CREATE", "TABLE")
		bare("orders", "table")
		g.op("(")
		bare("id", "ddlcol")
		g.kw("INT")
		g.op(",")
		bare("status", "ddlcol")
		g.kw("INT")
		g.op(",")
		bare("secret_col", "ddlcol")
		g.kw("TEXT")
		g.op(")")
	})
	// SELECT status , u.data FROM users AS u WHERE u.status = 'it''s' AND x = 0xCAFE AND y = ? AND z = 5
	build("select", func() {
		g.kw("SELECT")
		bare("status", "column")
		g.op(",")
		bare("u", "qualifier")
		g.dot()
		bare("data", "column")
		g.kw("FROM")
		bare("users", "table")
		g.kw("AS")
		bare("u", "alias")
		g.kw("WHERE")
		bare("u", "qualifier")
		g.dot()
		bare("status", "column")
		g.op("=")
		g.add(Tok{C: "strlit", Src: "'it''s'", Lex: "it's"})
		g.kw("AND")
		bare("x", "column")
		g.op("=")
		g.add(Tok{C: "hexlit", Sub: "num", Src: "0xCAFE", Lex: "0xCAFE"})
		g.kw("AND")
		bare("y", "column")
		g.op("=")
		g.add(Tok{C: "bind", Src: "?"})
		g.kw("AND")
		bare("z", "column")
		g.op("=")
		g.numlit("5")
	})
	// /* user_id='alice@example.com' */ SELECT 1 FROM t -- alice line comment
	build("select", func() {
		g.add(Tok{C: "comment", Src: "/* user_id='alice@example.com' */", Sec: []string{"alice@example.com", "user_id"}})
		g.kw("SELECT")
		g.numlit("1")
		g.kw("FROM")
		bare("t", "table")
		g.add(Tok{C: "comment", Src: "-- alice_77 line comment", Sec: []string{"alice_77"}})
	})
	return ws
}

// ---------------------------------------------------------------- concurrent bursts

type call struct {
	g      int
	st, en int64
	sql    string
	out    string
	toks   []Tok
	tpl    string
}

// one burst: G goroutines released together redact statements drawn from one small pool into one
// fresh Mapping. Events are written in the order of the end stamps.
func burst(w *vio.Writer, seed int64, tr, rep, G, perG int, st *stats) {
	g := &gen{r: rand.New(rand.NewSource(seed*1000003 + int64(tr)*104729 + 5)), simple: true}
	g.p = newPools(g, true)
	type stmt struct {
		toks []Tok
		sql  string
		tpl  string
	}
	var pool []stmt
	for len(pool) < 3 {
		toks, tpl := g.statement()
		fixBinds(toks)
		sql := render(toks, g.r)
		checkGround(toks, sql)
		if _, err := sqlparser.Parse(sql); err != nil {
			st.discarded++
			continue
		}
		pool = append(pool, stmt{toks, sql, tpl})
	}
	plan := make([][]stmt, G)
	for i := range plan {
		for j := 0; j < perG; j++ {
			// the first call of every goroutine is the same statement: all miss on the fast path together
			if j == 0 {
				plan[i] = append(plan[i], pool[0])
			} else {
				plan[i] = append(plan[i], pool[g.r.Intn(len(pool))])
			}
		}
	}
	m := sqlredact.NewMapping()
	var ctr int64
	var start int32
	var ready, done sync.WaitGroup
	calls := make([][]call, G)
	ready.Add(G)
	done.Add(G)
	for i := 0; i < G; i++ {
		go func(i int) {
			defer done.Done()
			ready.Done()
			for atomic.LoadInt32(&start) == 0 {
			}
			for _, s := range plan[i] {
				c := call{g: i, sql: s.sql, toks: s.toks, tpl: s.tpl}
				c.st = atomic.AddInt64(&ctr, 1)
				c.out = redact(s.sql, m)
				c.en = atomic.AddInt64(&ctr, 1)
				calls[i] = append(calls[i], c)
			}
		}(i)
	}
	ready.Wait()
	atomic.StoreInt32(&start, 1)
	done.Wait()
	var all []call
	for _, cs := range calls {
		all = append(all, cs...)
	}
	sort.Slice(all, func(i, j int) bool { return all[i].en < all[j].en })
	in := newInterner()
	seen := map[string]bool{}
	w.Write(Event{E: "reset", Tr: tr, I: rep, In: []InTok{}, Out: []OutTok{}, Ma: Snap{N: []Pair{}, V: []Pair{}}})
	for i, c := range all {
		ev := Event{E: "stmt", Tr: tr, I: i, Seq: false, HasMa: false, Tpl: "conc:" + c.tpl, SQL: c.sql, O: c.out, St: int(c.st), En: int(c.en), G: c.g,
			In: []InTok{}, Ma: Snap{N: []Pair{}, V: []Pair{}}}
		for _, t := range c.toks {
			ev.In = append(ev.In, in.inTok(t))
		}
		ev.Out, ev.Sub, ev.Off = in.outToks(c.out)
		w.Write(ev)
		st.account(c.toks, "conc:"+c.tpl, c.sql, c.out, seen)
	}
	w.Write(Event{E: "end", Tr: tr, I: rep, In: []InTok{}, Out: []OutTok{}, Ma: in.snap(m)})
}

func main() {
	if len(os.Args) > 1 && os.Args[1] == "probe" {
		probe()
		return
	}
	if len(os.Args) > 1 && os.Args[1] == "kwscan" {
		kwscan()
		return
	}
	mode := flag.String("mode", "session", "session | conc")
	seed := flag.Int64("seed", 1, "")
	traces := flag.Int("traces", 30, "session traces (trace 0 = the fixed witnesses) / bursts")
	stmts := flag.Int("stmts", 10, "statements per session trace / calls per goroutine")
	only := flag.Int("only", -1, "generate only this trace / burst")
	reps := flag.Int("reps", 1, "conc: run every selected burst this many times")
	G := flag.Int("g", 6, "conc: goroutines per burst")
	out := flag.String("out", "", "trace file (ndjson)")
	flag.Parse()
	for _, k := range kwIdents {
		if structuralWords[k] {
			vio.Fatal("generator: %q is both in the keyword-identifier pool and structural", k)
		}
		if !allKeywords[k] {
			vio.Fatal("generator: %q is not a keyword of the lexer", k)
		}
	}
	w, err := vio.NewWriter(*out)
	if err != nil {
		vio.Fatal("%v", err)
	}
	st := newStats()
	ntr := 0
	switch *mode {
	case "session":
		for tr := 0; tr < *traces; tr++ {
			if *only >= 0 && tr != *only {
				continue
			}
			sessionTrace(w, *seed, tr, *stmts, st)
			ntr++
		}
	case "conc":
		for tr := 0; tr < *traces; tr++ {
			if *only >= 0 && tr != *only {
				continue
			}
			for rep := 0; rep < *reps; rep++ {
				burst(w, *seed, tr, rep, 2+(tr%(*G-1)), *stmts, st)
				ntr++
			}
		}
	default:
		vio.Fatal("unknown mode %s", *mode)
	}
	if err := w.Close(); err != nil {
		vio.Fatal("%v", err)
	}
	rep := &vio.Report{Cases: st.cases, Nontrivial: st.nontrivial, Samples: st.samples, Extra: map[string]interface{}{
		"traces": ntr, "by_template": st.byTpl, "by_class": st.byClass, "unparseable": st.unparseable,
		"discarded_not_parseable": st.discarded, "discarded_soup_parseable": st.discardedUnp,
		"distinct_nontrivial": len(st.distinctNT), "substring_scan_hits": st.substr,
		"bind_spelled_like_value_placeholder": st.bindCollide, "stmts_with_keyword_identifier": st.kwIdentStmts,
	}}
	rep.Emit()
}
