package main

import (
	"bufio"
	"fmt"
	"os"
	"strings"

	"github.com/dolthub/go-mysql-server/sql/sqlredact"
	"github.com/dolthub/vitess/go/vt/sqlparser"
)

// probe prints, for every SQL line on stdin, the parse result, the lexer's tokens and the
// redaction (development aid; not used by the check).
func probe() {
	sc := bufio.NewScanner(os.Stdin)
	sc.Buffer(make([]byte, 1<<20), 1<<24)
	for sc.Scan() {
		q := sc.Text()
		if strings.TrimSpace(q) == "" {
			continue
		}
		_, perr := sqlparser.Parse(q)
		out, m, rerr := sqlredact.RedactSQLForTrace(q)
		fmt.Printf("SQL   %s\n  parse_err=%v redact_err=%v\n  OUT   %s\n  MAP   n=%v v=%v\n  TOKS ", q, perr, rerr, out, m.Idents(), m.Values())
		tk := sqlparser.NewStringTokenizer(q)
		for {
			typ, val := tk.Scan()
			if typ == 0 {
				break
			}
			name := fmt.Sprint(typ)
			switch typ {
			case sqlparser.ID:
				name = "ID"
			case sqlparser.STRING:
				name = "STRING"
			case sqlparser.INTEGRAL:
				name = "INTEGRAL"
			case sqlparser.FLOAT:
				name = "FLOAT"
			case sqlparser.HEXNUM:
				name = "HEXNUM"
			case sqlparser.HEX:
				name = "HEX"
			case sqlparser.BIT_LITERAL:
				name = "BIT"
			case sqlparser.VALUE_ARG:
				name = "VALUE_ARG"
			case sqlparser.LIST_ARG:
				name = "LIST_ARG"
			case sqlparser.COMMENT:
				name = "COMMENT"
			case sqlparser.LEX_ERROR:
				name = "LEX_ERROR"
			default:
				if typ < 256 {
					name = fmt.Sprintf("'%c'", typ)
				} else if s := sqlparser.KeywordString(typ); s != "" {
					name = "KW"
				}
			}
			fmt.Printf(" %s[%s]", name, val)
			if typ == sqlparser.LEX_ERROR {
				break
			}
		}
		fmt.Println()
	}
}

// kwscan: for every keyword of the lexer, try it bare at identifier positions of a few statement
// shapes and print which shapes parse and whether the redaction contains it verbatim.
func kwscan() {
	shapes := os.Args[2:]
	var kws []string
	for id := 57346; id < 60000; id++ {
		if s := sqlparser.KeywordString(id); s != "" {
			kws = append(kws, s)
		}
	}
	fmt.Printf("keywords: %d\n", len(kws))
	for _, shape := range shapes {
		var ok, leak []string
		for _, k := range kws {
			q := strings.ReplaceAll(shape, "@", k)
			if _, err := sqlparser.Parse(q); err != nil {
				continue
			}
			ok = append(ok, k)
			out, _, _ := sqlredact.RedactSQLForTrace(q)
			for _, t := range strings.Split(out, " ") {
				if t == k {
					leak = append(leak, k)
					break
				}
			}
		}
		fmt.Printf("SHAPE %s\n  parses(%d): %s\n  VERBATIM(%d): %s\n", shape, len(ok), strings.Join(ok, " "), len(leak), strings.Join(leak, " "))
	}
}
