package main

import (
	"fmt"
	"math/rand"
	"strings"

	"github.com/dolthub/vitess/go/vt/sqlparser"
)

// Tok is one input token with its ground-truth classification (known by construction: the
// generator decides what every token IS before it spells it).
type Tok struct {
	C    string // kw op bind comment | ident strlit numlit hexlit bitlit
	Src  string // the source spelling
	Lex  string // ident: the name; literal: the value as the lexer delivers it; else Src
	Alt  string // the lexer's canonical spelling of the same token (`?` -> :vN, `<>` -> !=)
	Sub  string // hexlit: "num" (0xFF) | "str" (X'AB')
	NR   bool   // identifier spelled (bare) as a non-reserved keyword of the grammar
	Role string // identifier role (table, column, alias, db, func, cte, ddlcol, ...)
	Glue bool   // no white space before this token
	Sec  []string
}

// Words every template may use structurally. No identifier of any pool equals one of them
// (case-insensitively): a word used both as keyword and as identifier in one statement is
// redacted at both places by design (identifier-set lookup), which is outside the crisp input set.
var structuralWords = map[string]bool{}

func init() {
	for _, w := range strings.Fields(`select distinct from as join inner left right cross on using where group by
 having order asc desc limit offset and or not in like between is null true false exists case when then else end
 insert into values duplicate key update set delete with union all create table alter add column rename to index
 view call show tables drop partition int text varchar modify primary default regexp div mod xor interval`) {
		structuralWords[w] = true
	}
}

// Non-reserved keywords of the vitess grammar that the parser accepts bare at every identifier
// position the templates use (determined by experiment with `c45 kwscan`; the parser, not the
// redactor, is the authority). The lexer returns a keyword token type for each of them.
var kwIdents = strings.Fields(`status date value data time user version source role action mode point log filter
 engine error json enum bit bool timestamp datetime sequence subject handler channel stream share last start stop
 open close work random proxy master replica client general snapshot schedule security privileges warnings
 variables triggers events errors logs hosts grants temporary unknown never optional national serial fixed`)

var idLexedFuncs = []string{"concat", "lower", "upper", "abs", "length", "my_func", "calc_fee", "hash_pw"}

type pools struct {
	tables, cols, dbs, aliases, funcs, ctes []string
	strs, nums                               []string
	misc                                     []string // index / view / proc / partition names
}

type gen struct {
	r       *rand.Rand
	p       pools
	toks    []Tok
	kwCase  int
	nbind   int
	simple  bool
	// the SELECT being generated is the last operand of a UNION
	unionTail bool
}

var allKeywords = func() map[string]bool {
	m := map[string]bool{}
	for id := 57346; id < 60000; id++ {
		if s := sqlparser.KeywordString(id); s != "" {
			m[strings.ToLower(s)] = true
		}
	}
	return m
}()

func (g *gen) pick(xs []string) string { return xs[g.r.Intn(len(xs))] }
func (g *gen) chance(p float64) bool   { return g.r.Float64() < p }

const lower = "abcdefghijklmnopqrstuvwxyz"
const alnum = "abcdefghijklmnopqrstuvwxyz0123456789"

// randName: never a keyword, never shaped like a placeholder (always contains '_' and >= 4 chars).
func (g *gen) randName() string {
	for {
		var b strings.Builder
		n := 2 + g.r.Intn(4)
		for i := 0; i < n; i++ {
			b.WriteByte(lower[g.r.Intn(26)])
		}
		b.WriteByte('_')
		n = 1 + g.r.Intn(3)
		for i := 0; i < n; i++ {
			b.WriteByte(alnum[g.r.Intn(36)])
		}
		s := b.String()
		if g.chance(0.15) {
			s = strings.ToUpper(s[:1]) + s[1:]
		}
		if !allKeywords[strings.ToLower(s)] {
			return s
		}
	}
}

func (g *gen) namePool(n int, kwShare float64, exotic bool) []string {
	seen := map[string]bool{}
	var out []string
	for len(out) < n {
		var s string
		switch {
		case g.chance(kwShare):
			s = g.pick(kwIdents)
			if g.chance(0.2) {
				s = strings.ToUpper(s[:1]) + s[1:]
			} else if g.chance(0.1) {
				s = strings.ToUpper(s)
			}
		case exotic && g.chance(0.08):
			s = g.randName() + " " + g.randName() // needs back quotes
		case exotic && g.chance(0.05):
			s = g.randName() + "`" + g.randName()
		default:
			s = g.randName()
		}
		if !seen[s] {
			seen[s] = true
			out = append(out, s)
		}
		// a case variant of an existing name is a different lexeme
		if len(out) < n && g.chance(0.1) && !strings.ContainsAny(s, " `") {
			v := strings.ToUpper(s)
			if v != s && !seen[v] {
				seen[v] = true
				out = append(out, v)
			}
		}
	}
	return out
}

const strChars = "abcdefghijklmnopqrstuvwxyzABCDEFGHIJKLMNOPQRSTUVWXYZ0123456789@.%_-$^ "

func onlyPlaceholderAlphabet(s string) bool {
	for i := 0; i < len(s); i++ {
		if !strings.ContainsRune("`':XxBbnv0123456789", rune(s[i])) {
			return false
		}
	}
	return true
}

// randStr: a string VALUE; sometimes with characters that need escaping.
func (g *gen) randStr() string {
	for {
		var b strings.Builder
		n := 1 + g.r.Intn(10)
		for i := 0; i < n; i++ {
			switch {
			case g.chance(0.06):
				b.WriteByte('\'')
			case g.chance(0.04):
				b.WriteByte('"')
			case g.chance(0.03):
				b.WriteByte('\\')
			case g.chance(0.02):
				b.WriteByte('\n')
			case g.chance(0.02):
				b.WriteByte('\t')
			default:
				b.WriteByte(strChars[g.r.Intn(len(strChars))])
			}
		}
		s := b.String()
		if g.chance(0.03) {
			s = ""
		}
		if s == "" || !onlyPlaceholderAlphabet(s) || !strings.ContainsAny(s, "nvXB") {
			return s
		}
	}
}

func (g *gen) randNum() string {
	switch g.r.Intn(10) {
	case 0, 1, 2, 3:
		return fmt.Sprint(g.r.Intn(100))
	case 4, 5:
		return fmt.Sprint(1000 + g.r.Intn(9000000))
	case 6:
		return fmt.Sprintf("%d.%d", g.r.Intn(1000), g.r.Intn(100))
	case 7:
		return fmt.Sprintf(".%d", 1+g.r.Intn(99))
	case 8:
		return fmt.Sprintf("%de%d", 1+g.r.Intn(9), g.r.Intn(12))
	default:
		return fmt.Sprintf("%d.%dE-%d", g.r.Intn(10), g.r.Intn(10), 1+g.r.Intn(5))
	}
}

func newPools(g *gen, small bool) pools {
	if small {
		return pools{
			tables: g.namePool(2, 0.3, false), cols: g.namePool(3, 0.3, false), dbs: g.namePool(1, 0, false),
			aliases: g.namePool(1, 0.3, false), funcs: []string{"concat", "my_func"}, ctes: g.namePool(1, 0, false),
			strs: []string{g.randStr(), g.randStr()}, nums: []string{g.randNum(), g.randNum()}, misc: g.namePool(2, 0.5, false),
		}
	}
	p := pools{
		tables: g.namePool(4, 0.25, true), cols: g.namePool(8, 0.3, true), dbs: g.namePool(2, 0.25, false),
		aliases: g.namePool(3, 0.3, false), ctes: g.namePool(2, 0.2, false), misc: g.namePool(4, 0.5, false),
	}
	p.funcs = append([]string{}, idLexedFuncs[:3+g.r.Intn(len(idLexedFuncs)-3)]...)
	for i := 0; i < 6; i++ {
		p.strs = append(p.strs, g.randStr())
		p.nums = append(p.nums, g.randNum())
	}
	return p
}

// ---------------------------------------------------------------- token emitters

func (g *gen) add(t Tok) {
	if t.Lex == "" && t.C != "strlit" {
		t.Lex = t.Src
	}
	if t.Alt == "" {
		t.Alt = t.Src
	}
	g.toks = append(g.toks, t)
}

func (g *gen) kw(words ...string) {
	for _, w := range words {
		s := w
		switch g.kwCase {
		case 0:
			s = strings.ToUpper(w)
		case 1:
			s = strings.ToLower(w)
		default:
			s = strings.ToUpper(w[:1]) + strings.ToLower(w[1:])
		}
		g.add(Tok{C: "kw", Src: s})
	}
}

func (g *gen) op(s string) {
	t := Tok{C: "op", Src: s}
	if s == "<>" {
		t.Alt = "!="
	}
	g.add(t)
}

// punctuation that may be glued to its neighbours
func (g *gen) open()  { g.add(Tok{C: "op", Src: "(", Glue: g.chance(0.3)}) }
func (g *gen) close() { g.add(Tok{C: "op", Src: ")", Glue: g.chance(0.5)}) }
func (g *gen) comma() { g.add(Tok{C: "op", Src: ",", Glue: g.chance(0.6)}) }
func (g *gen) glueNext() {
	// marks that the NEXT token is glued (used after "(" and ".")
	g.toks = append(g.toks, Tok{C: "_glue"})
}

func isBareOK(name string) bool {
	if name == "" {
		return false
	}
	for i := 0; i < len(name); i++ {
		c := name[i]
		if !(c == '_' || c >= 'a' && c <= 'z' || c >= 'A' && c <= 'Z' || (i > 0 && c >= '0' && c <= '9')) {
			return false
		}
	}
	return true
}

func (g *gen) ident(name, role string) {
	bare := isBareOK(name) && !g.chance(0.15)
	t := Tok{C: "ident", Lex: name, Role: role}
	if bare {
		t.Src = name
		t.NR = allKeywords[strings.ToLower(name)]
	} else {
		t.Src = "`" + strings.ReplaceAll(name, "`", "``") + "`"
	}
	g.add(t)
}

func (g *gen) dot() {
	g.add(Tok{C: "op", Src: ".", Glue: true})
	g.glueNext()
}

func (g *gen) strlit(val string) {
	// choose a spelling of the value: quote style and escape style
	q := byte('\'')
	if g.chance(0.3) {
		q = '"'
	}
	var b strings.Builder
	b.WriteByte(q)
	for i := 0; i < len(val); i++ {
		c := val[i]
		switch {
		case c == q:
			if g.chance(0.5) {
				b.WriteByte('\\')
				b.WriteByte(c)
			} else {
				b.WriteByte(c)
				b.WriteByte(c)
			}
		case c == '\\':
			b.WriteString(`\\`)
		case c == '\n':
			b.WriteString(`\n`)
		case c == '\t':
			b.WriteString(`\t`)
		case (c == '\'' || c == '"') && g.chance(0.3):
			b.WriteByte('\\')
			b.WriteByte(c)
		default:
			b.WriteByte(c)
		}
	}
	b.WriteByte(q)
	g.add(Tok{C: "strlit", Src: b.String(), Lex: val})
}

func (g *gen) numlit(s string) { g.add(Tok{C: "numlit", Src: s, Lex: s}) }

const hexd = "0123456789abcdefABCDEF"

func (g *gen) hexlit() {
	n := 1 + g.r.Intn(4)
	var b strings.Builder
	for i := 0; i < 2*n; i++ {
		b.WriteByte(hexd[g.r.Intn(len(hexd))])
	}
	d := b.String()
	if g.chance(0.5) {
		p := "0x"
		if g.chance(0.2) {
			p = "0X"
		}
		g.add(Tok{C: "hexlit", Sub: "num", Src: p + d, Lex: p + d})
	} else {
		p := "X"
		if g.chance(0.4) {
			p = "x"
		}
		g.add(Tok{C: "hexlit", Sub: "str", Src: p + "'" + d + "'", Lex: d})
	}
}

func (g *gen) bitlit() {
	n := 1 + g.r.Intn(8)
	var b strings.Builder
	for i := 0; i < n; i++ {
		b.WriteByte("01"[g.r.Intn(2)])
	}
	p := "b"
	if g.chance(0.5) {
		p = "B"
	}
	g.add(Tok{C: "bitlit", Src: p + "'" + b.String() + "'", Lex: b.String()})
}

func (g *gen) bind() {
	switch {
	case g.chance(0.7):
		g.nbind++
		g.add(Tok{C: "bind", Src: "?", Alt: fmt.Sprintf(":v%d", g.nbind)})
	default:
		g.add(Tok{C: "bind", Src: fmt.Sprintf(":arg%d", 1+g.r.Intn(4))})
	}
}

var secrets = []string{"alice", "bob", "carol", "dave", "user_id", "tenant", "secret", "ssn", "email"}

func (g *gen) comment(margin bool) {
	w := fmt.Sprintf("%s_%d", g.pick(secrets), 100+g.r.Intn(900))
	w2 := g.randName()
	switch k := g.r.Intn(3); {
	case k == 0 || !margin:
		g.add(Tok{C: "comment", Src: "/* " + w + "='" + w2 + "' */", Sec: []string{w, w2}})
	case k == 1:
		g.add(Tok{C: "comment", Src: "-- " + w + " " + w2 + "\n", Sec: []string{w, w2}})
	default:
		g.add(Tok{C: "comment", Src: "# " + w + " " + w2 + "\n", Sec: []string{w, w2}})
	}
}

// ---------------------------------------------------------------- grammar

func (g *gen) literal() {
	switch k := g.r.Intn(20); {
	case k < 6:
		g.strlit(g.pick(g.p.strs))
	case k < 8:
		g.strlit(g.randStr())
	case k < 13:
		g.numlit(g.pick(g.p.nums))
	case k < 15:
		g.numlit(g.randNum())
	case k < 17:
		g.hexlit()
	case k < 18:
		g.bitlit()
	case k < 19:
		g.kw([]string{"NULL", "TRUE", "FALSE"}[g.r.Intn(3)])
	default:
		g.op("-")
		g.numlit(g.pick(g.p.nums))
	}
}

func (g *gen) value() {
	if g.chance(0.15) {
		g.bind()
	} else {
		g.literal()
	}
}

// colref: col | tbl.col | db.tbl.col
func (g *gen) colref(quals []string) {
	k := g.r.Intn(10)
	if len(quals) > 0 && k < 4 {
		g.ident(g.pick(quals), "qualifier")
		g.dot()
	} else if k == 9 && !g.simple {
		g.ident(g.pick(g.p.dbs), "db")
		g.dot()
		g.ident(g.pick(g.p.tables), "table")
		g.dot()
	}
	g.ident(g.pick(g.p.cols), "column")
}

func (g *gen) funcCall(quals []string, d int) {
	g.ident(g.pick(g.p.funcs), "func")
	g.open()
	n := 1 + g.r.Intn(3)
	for i := 0; i < n; i++ {
		if i > 0 {
			g.comma()
		}
		g.val(quals, d-1)
	}
	g.close()
}

func (g *gen) val(quals []string, d int) {
	k := g.r.Intn(12)
	if d <= 0 && k >= 7 {
		k = g.r.Intn(7)
	}
	switch {
	case k < 4:
		g.colref(quals)
	case k < 7:
		g.value()
	case k < 9:
		g.funcCall(quals, d)
	case k < 10:
		g.colref(quals)
		g.op([]string{"+", "-", "*", "/", "%"}[g.r.Intn(5)])
		g.numlit(g.pick(g.p.nums))
	case k < 11:
		g.kw("CASE", "WHEN")
		g.cond(quals, d-1)
		g.kw("THEN")
		g.value()
		g.kw("ELSE")
		g.value()
		g.kw("END")
	default:
		g.open()
		g.val(quals, d-1)
		g.close()
	}
}

var cmpOps = []string{"=", "<", ">", "<=", ">=", "!=", "<>", "<=>"}

func (g *gen) cond(quals []string, d int) {
	k := g.r.Intn(14)
	if d <= 0 && k >= 8 {
		k = g.r.Intn(8)
	}
	switch {
	case k < 3:
		g.colref(quals)
		g.op(g.pick(cmpOps))
		g.value()
	case k < 4:
		g.colref(quals)
		g.op(g.pick(cmpOps))
		g.colref(quals)
	case k < 5:
		g.colref(quals)
		if g.chance(0.3) {
			g.kw("NOT")
		}
		g.kw("IN")
		g.open()
		n := 1 + g.r.Intn(4)
		for i := 0; i < n; i++ {
			if i > 0 {
				g.comma()
			}
			g.value()
		}
		g.close()
	case k < 6:
		g.colref(quals)
		if g.chance(0.3) {
			g.kw("NOT")
		}
		g.kw([]string{"LIKE", "REGEXP"}[g.r.Intn(2)])
		g.strlit(g.pick(g.p.strs) + "%")
	case k < 7:
		g.colref(quals)
		g.kw("BETWEEN")
		g.value()
		g.kw("AND")
		g.value()
	case k < 8:
		g.colref(quals)
		g.kw("IS")
		if g.chance(0.5) {
			g.kw("NOT")
		}
		g.kw("NULL")
	case k < 11:
		g.open()
		g.cond(quals, d-1)
		if g.chance(0.8) {
			g.kw([]string{"AND", "OR"}[g.r.Intn(2)])
		} else {
			g.op([]string{"&&", "||"}[g.r.Intn(2)])
		}
		g.cond(quals, d-1)
		g.close()
	case k < 12:
		g.kw("NOT")
		g.open()
		g.cond(quals, d-1)
		g.close()
	case k < 13:
		// col IN (subquery)
		g.colref(quals)
		g.kw("IN")
		g.open()
		g.kw("SELECT")
		g.ident(g.pick(g.p.cols), "column")
		g.kw("FROM")
		g.ident(g.pick(g.p.tables), "table")
		if g.chance(0.5) {
			g.kw("WHERE")
			g.cond(nil, 0)
		}
		g.close()
	default:
		g.kw("EXISTS")
		g.open()
		g.kw("SELECT")
		g.numlit("1")
		g.kw("FROM")
		t := g.pick(g.p.tables)
		g.ident(t, "table")
		g.kw("WHERE")
		g.ident(t, "qualifier")
		g.dot()
		g.ident(g.pick(g.p.cols), "column")
		g.op("=")
		g.colref(quals)
		g.close()
	}
}

// tableRef emits a table reference and returns the name usable as qualifier
func (g *gen) tableRef(d int) string {
	k := g.r.Intn(10)
	switch {
	case k < 1 && d > 0 && !g.simple:
		g.open()
		g.selectCore(d-1, false)
		g.close()
		if g.chance(0.7) {
			g.kw("AS")
		}
		a := g.pick(g.p.aliases)
		g.ident(a, "alias")
		return a
	case k < 3 && !g.simple:
		g.ident(g.pick(g.p.dbs), "db")
		g.dot()
		t := g.pick(g.p.tables)
		g.ident(t, "table")
		return ""
	case k < 6:
		t := g.pick(g.p.tables)
		g.ident(t, "table")
		if g.chance(0.6) {
			g.kw("AS")
		}
		a := g.pick(g.p.aliases)
		g.ident(a, "alias")
		return a
	default:
		t := g.pick(g.p.tables)
		g.ident(t, "table")
		return t
	}
}

func (g *gen) selectCore(d int, top bool) {
	g.kw("SELECT")
	if top && g.chance(0.15) {
		g.comment(false)
	}
	if g.chance(0.1) {
		g.kw("DISTINCT")
	}
	// the select list refers to qualifiers chosen below; decide the FROM first, emit later
	save := g.toks
	g.toks = nil
	var quals []string
	g.kw("FROM")
	if q := g.tableRef(d); q != "" {
		quals = append(quals, q)
	}
	if !g.simple && g.chance(0.35) {
		switch g.r.Intn(5) {
		case 0:
			g.kw("INNER")
		case 1:
			g.kw("LEFT")
		case 2:
			g.kw("CROSS")
		}
		g.kw("JOIN")
		cross := len(g.toks) >= 2 && strings.EqualFold(g.toks[len(g.toks)-2].Src, "cross")
		if q := g.tableRef(0); q != "" {
			quals = append(quals, q)
		}
		if !cross {
			if g.chance(0.4) {
				g.kw("USING")
				g.open()
				g.ident(g.pick(g.p.cols), "usingcol")
				if g.chance(0.3) {
					g.comma()
					g.ident(g.pick(g.p.cols), "usingcol")
				}
				g.close()
			} else {
				g.kw("ON")
				g.cond(quals, 0)
			}
		}
	}
	from := g.toks
	g.toks = save
	if g.chance(0.08) {
		g.op("*")
	} else {
		n := 1 + g.r.Intn(4)
		for i := 0; i < n; i++ {
			if i > 0 {
				g.comma()
			}
			if len(quals) > 0 && g.chance(0.08) {
				g.ident(g.pick(quals), "qualifier")
				g.dot()
				g.op("*")
				continue
			}
			g.val(quals, d)
			if g.chance(0.25) {
				if g.chance(0.7) {
					g.kw("AS")
				}
				g.ident(g.pick(g.p.aliases), "colalias")
			}
		}
	}
	g.toks = append(g.toks, from...)
	if g.chance(0.7) {
		g.kw("WHERE")
		g.cond(quals, d)
	}
	if !g.simple && g.chance(0.15) {
		g.kw("GROUP", "BY")
		g.colref(quals)
		if g.chance(0.4) {
			g.kw("HAVING")
			g.funcCall(quals, 0)
			g.op(">")
			g.value()
		}
	}
	if !g.simple && g.chance(0.2) {
		g.kw("ORDER", "BY")
		from := len(g.toks)
		g.colref(quals)
		if g.unionTail {
			// this ORDER BY belongs to the UNION, not to the last SELECT
			for i := from; i < len(g.toks); i++ {
				if g.toks[i].C == "ident" {
					g.toks[i].Role = "unionordercol"
				}
			}
		}
		if g.chance(0.5) {
			g.kw([]string{"ASC", "DESC"}[g.r.Intn(2)])
		}
	}
	if g.chance(0.15) {
		g.kw("LIMIT")
		if g.chance(0.2) {
			g.bind()
		} else {
			g.numlit(fmt.Sprint(1 + g.r.Intn(500)))
		}
		if g.chance(0.3) {
			g.kw("OFFSET")
			g.numlit(fmt.Sprint(g.r.Intn(500)))
		}
	}
}

type template struct {
	name string
	w    int
	f    func(g *gen)
}

var templates = []template{
	{"select", 30, func(g *gen) {
		g.selectCore(2, true)
		if g.chance(0.1) {
			g.kw("UNION")
			if g.chance(0.5) {
				g.kw("ALL")
			}
			g.unionTail = true
			g.selectCore(0, false)
			g.unionTail = false
		}
	}},
	{"insert", 10, func(g *gen) {
		g.kw("INSERT", "INTO")
		g.ident(g.pick(g.p.tables), "table")
		n := 1 + g.r.Intn(4)
		g.open()
		for i := 0; i < n; i++ {
			if i > 0 {
				g.comma()
			}
			g.ident(g.pick(g.p.cols), "column")
		}
		g.close()
		if g.chance(0.15) {
			g.selectCore(0, false)
			return
		}
		g.kw("VALUES")
		rows := 1 + g.r.Intn(3)
		for r := 0; r < rows; r++ {
			if r > 0 {
				g.comma()
			}
			g.open()
			for i := 0; i < n; i++ {
				if i > 0 {
					g.comma()
				}
				g.value()
			}
			g.close()
		}
		if g.chance(0.2) {
			g.kw("ON", "DUPLICATE", "KEY", "UPDATE")
			c := g.pick(g.p.cols)
			g.ident(c, "column")
			g.op("=")
			if g.chance(0.5) {
				g.kw("VALUES")
				g.open()
				g.ident(c, "column")
				g.close()
			} else {
				g.value()
			}
		}
	}},
	{"update", 10, func(g *gen) {
		g.kw("UPDATE")
		t := g.pick(g.p.tables)
		g.ident(t, "table")
		g.kw("SET")
		n := 1 + g.r.Intn(3)
		for i := 0; i < n; i++ {
			if i > 0 {
				g.comma()
			}
			g.ident(g.pick(g.p.cols), "column")
			g.op("=")
			g.val([]string{t}, 1)
		}
		if g.chance(0.8) {
			g.kw("WHERE")
			g.cond([]string{t}, 1)
		}
		if g.chance(0.1) {
			g.kw("LIMIT")
			g.numlit(fmt.Sprint(1 + g.r.Intn(50)))
		}
	}},
	{"delete", 6, func(g *gen) {
		g.kw("DELETE", "FROM")
		t := g.pick(g.p.tables)
		g.ident(t, "table")
		if g.chance(0.9) {
			g.kw("WHERE")
			g.cond([]string{t}, 1)
		}
		if g.chance(0.1) {
			g.kw("LIMIT")
			g.numlit(fmt.Sprint(1 + g.r.Intn(50)))
		}
	}},
	{"cte", 6, func(g *gen) {
		g.kw("WITH")
		c := g.pick(g.p.ctes)
		g.ident(c, "cte")
		ncol := 0
		if g.chance(0.6) {
			g.open()
			ncol = 1 + g.r.Intn(2)
			for i := 0; i < ncol; i++ {
				if i > 0 {
					g.comma()
				}
				g.ident(g.pick(g.p.cols), "ctecol")
			}
			g.close()
		}
		g.kw("AS")
		g.open()
		g.kw("SELECT")
		if ncol == 0 {
			ncol = 1 + g.r.Intn(2)
		}
		for i := 0; i < ncol; i++ {
			if i > 0 {
				g.comma()
			}
			g.val(nil, 0)
		}
		g.kw("FROM")
		g.ident(g.pick(g.p.tables), "table")
		g.close()
		g.kw("SELECT")
		g.op("*")
		g.kw("FROM")
		g.ident(c, "cte")
		if g.chance(0.5) {
			g.kw("WHERE")
			g.cond([]string{c}, 0)
		}
	}},
	// ---- DDL / utility statements: identifier positions the AST keeps outside TableIdent/ColIdent-walk
	{"ddl_create_table", 3, func(g *gen) {
		g.kw("CREATE", "TABLE")
		g.ident(g.pick(g.p.tables), "table")
		g.open()
		n := 1 + g.r.Intn(4)
		var cs []string
		for i := 0; i < n; i++ {
			if i > 0 {
				g.comma()
			}
			c := g.pick(g.p.cols)
			cs = append(cs, c)
			g.ident(c, "ddlcol")
			switch g.r.Intn(3) {
			case 0:
				g.kw("INT")
			case 1:
				g.kw("TEXT")
			default:
				g.kw("VARCHAR")
				g.open()
				g.numlit(fmt.Sprint(10 + g.r.Intn(200)))
				g.close()
			}
			if g.chance(0.2) {
				g.kw("NOT", "NULL", "DEFAULT")
				g.literal()
			}
		}
		if g.chance(0.4) {
			g.comma()
			g.kw("INDEX")
			g.ident(g.pick(g.p.misc), "ddlidx")
			g.open()
			g.ident(g.pick(cs), "ddlidxcol")
			g.close()
		}
		g.close()
	}},
	{"ddl_alter", 3, func(g *gen) {
		g.kw("ALTER", "TABLE")
		g.ident(g.pick(g.p.tables), "table")
		switch g.r.Intn(4) {
		case 0:
			g.kw("ADD", "COLUMN")
			g.ident(g.pick(g.p.cols), "ddlcol")
			g.kw("INT")
		case 1:
			g.kw("DROP", "COLUMN")
			g.ident(g.pick(g.p.cols), "ddlcol")
		case 2:
			g.kw("MODIFY", "COLUMN")
			g.ident(g.pick(g.p.cols), "ddlcol")
			g.kw("TEXT")
		default:
			g.kw("RENAME", "COLUMN")
			g.ident(g.pick(g.p.cols), "ddlcol")
			g.kw("TO")
			g.ident(g.pick(g.p.cols), "ddlcol")
		}
	}},
	{"ddl_create_index", 2, func(g *gen) {
		g.kw("CREATE", "INDEX")
		g.ident(g.pick(g.p.misc), "ddlidx")
		g.kw("ON")
		g.ident(g.pick(g.p.tables), "table")
		g.open()
		g.ident(g.pick(g.p.cols), "column")
		g.close()
	}},
	{"ddl_view", 2, func(g *gen) {
		if g.chance(0.6) {
			g.kw("CREATE", "VIEW")
			g.ident(g.pick(g.p.misc), "view")
			g.kw("AS")
			g.selectCore(0, false)
		} else {
			g.kw("DROP", "VIEW")
			g.ident(g.pick(g.p.misc), "view")
		}
	}},
	{"call_proc", 2, func(g *gen) {
		g.kw("CALL")
		g.ident(g.pick(g.p.misc), "proc")
		g.open()
		n := 1 + g.r.Intn(3)
		for i := 0; i < n; i++ {
			if i > 0 {
				g.comma()
			}
			g.value()
		}
		g.close()
	}},
	{"show_tables_from", 1, func(g *gen) {
		g.kw("SHOW", "TABLES", "FROM")
		g.ident(g.pick(g.p.dbs), "showdb")
	}},
	{"sel_partition", 1, func(g *gen) {
		g.kw("SELECT")
		g.ident(g.pick(g.p.cols), "column")
		g.kw("FROM")
		g.ident(g.pick(g.p.tables), "table")
		g.kw("PARTITION")
		g.open()
		g.ident(g.pick(g.p.misc), "partition")
		g.close()
	}},
}

var simpleTemplates = []string{"select", "insert", "update", "delete"}

func templateByName(n string) template {
	for _, t := range templates {
		if t.name == n {
			return t
		}
	}
	panic("no template " + n)
}

// statement builds one statement; returns its tokens (comments included), the template name.
func (g *gen) statement() ([]Tok, string) {
	g.toks = nil
	g.nbind = 0
	g.kwCase = []int{0, 0, 0, 0, 0, 0, 1, 1, 1, 2}[g.r.Intn(10)]
	var t template
	if g.simple {
		t = templateByName(g.pick(simpleTemplates))
	} else {
		tot := 0
		for _, x := range templates {
			tot += x.w
		}
		k := g.r.Intn(tot)
		for _, x := range templates {
			if k < x.w {
				t = x
				break
			}
			k -= x.w
		}
	}
	margin := !g.simple && g.chance(0.15)
	if margin && g.chance(0.5) {
		g.add(Tok{C: "comment", Src: fmt.Sprintf("/* %s_%d */", g.pick(secrets), 100+g.r.Intn(900)), Sec: nil})
		g.toks[len(g.toks)-1].Sec = []string{strings.Fields(g.toks[len(g.toks)-1].Src)[1]}
	}
	t.f(g)
	if !g.simple && g.chance(0.08) {
		g.add(Tok{C: "op", Src: ";", Glue: g.chance(0.5)})
	}
	if margin {
		g.comment(true)
	}
	// resolve glue markers
	var out []Tok
	glue := false
	for _, x := range g.toks {
		if x.C == "_glue" {
			glue = true
			continue
		}
		if glue {
			x.Glue = true
			glue = false
		}
		out = append(out, x)
	}
	return out, t.name
}

var spaces = []string{" ", " ", " ", " ", " ", " ", "  ", "\n", "\t", " \n "}

func render(toks []Tok, r *rand.Rand) string {
	var b strings.Builder
	for i, t := range toks {
		if i > 0 {
			prev := toks[i-1]
			glue := t.Glue && t.C != "comment" && prev.C != "comment"
			// never glue two word-like / number-like tokens or create `--`, `/*`, `*/`, `||`-style runs
			if glue && !(t.C == "op" || prev.C == "op") {
				glue = false
			}
			if glue && t.C == "op" && prev.C == "op" && !(strings.ContainsAny(t.Src, "(),.") || strings.ContainsAny(prev.Src, "(),.")) {
				glue = false
			}
			if glue && (t.Src == "." || prev.Src == ".") && (t.C == "numlit" || prev.C == "numlit") {
				glue = false
			}
			if !glue {
				b.WriteString(spaces[r.Intn(len(spaces))])
			}
		}
		b.WriteString(t.Src)
	}
	return b.String()
}

// unparseable input by construction (cross-checked with the parser by the caller)
func (g *gen) unparseable() []Tok {
	base, _ := g.statement()
	var toks []Tok
	for _, t := range base {
		if t.C != "comment" {
			t.Glue = false
			toks = append(toks, t)
		}
	}
	switch g.r.Intn(5) {
	case 0: // cut after a token that needs a continuation
		var cuts []int
		for i, t := range toks {
			if t.C == "kw" && i < len(toks)-1 {
				switch strings.ToLower(t.Src) {
				case "where", "from", "and", "or", "set", "into", "by", "join", "on", "in", "values", "select", "table":
					cuts = append(cuts, i)
				}
			}
		}
		if len(cuts) > 0 {
			return toks[:cuts[g.r.Intn(len(cuts))]+1]
		}
		return append([]Tok{{C: "op", Src: ")", Lex: ")", Alt: ")"}}, toks...)
	case 1:
		return append([]Tok{{C: "op", Src: ")", Lex: ")", Alt: ")"}}, toks...)
	case 2: // token soup
		g.r.Shuffle(len(toks), func(i, j int) { toks[i], toks[j] = toks[j], toks[i] })
		for i := range toks {
			if toks[i].Src == "." {
				toks[i].Src, toks[i].Lex, toks[i].Alt = ",", ",", ","
			}
		}
		return toks
	case 3: // doubled keyword
		i := g.r.Intn(len(toks))
		for j := 0; j < len(toks); j++ {
			if toks[(i+j)%len(toks)].C == "kw" {
				i = (i + j) % len(toks)
				break
			}
		}
		out := append([]Tok{}, toks[:i+1]...)
		out = append(out, toks[i])
		return append(out, toks[i+1:]...)
	default: // an operator where an operand must be
		return append(toks, Tok{C: "op", Src: "=", Lex: "=", Alt: "="}, Tok{C: "op", Src: ")", Lex: ")", Alt: ")"})
	}
}
