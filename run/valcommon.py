"""Shared pieces of the value-level checks C25 / C26 / C27: parallel TLC jobs, case collection,
isolation re-runs of binding-A cases, witness bookkeeping."""
import json, os, concurrent.futures as cf
import lib

# The specifications of these checks recurse over digit sequences. lib.tlc passes -Xss through
# JAVA_TOOL_OPTIONS, which sizes TLC's worker threads but not the JVM's main thread (assumptions and
# initial states are evaluated there, on a 1 MB stack: deep evaluations overflow it, depending on JIT
# state). JDK_JAVA_OPTIONS is read by the java launcher itself and sizes the main thread too.
os.environ.setdefault("JDK_JAVA_OPTIONS", "-Xss64m")


def tlc_jobs(jobs, max_parallel=4):
    """jobs: {name: kwargs for lib.tlc (module, cfg, ...)} run concurrently; returns {name: TLCResult}.
    Any TLC error / model-level violation is Inconclusive (never a verdict)."""
    res = {}
    with cf.ThreadPoolExecutor(max_workers=max_parallel) as ex:
        futs = {name: ex.submit(lib.tlc, **kw) for name, kw in jobs.items()}
        for name, f in futs.items():
            res[name] = f.result()
    for name, r in res.items():
        sim = bool(jobs[name].get("simulate"))
        if r.error or r.invariant_violated or r.action_prop_violated or r.deadlock:
            raise lib.Inconclusive("TLC job %s: %s\n%s" % (name, r.error or r.invariant_violated or "violation", r.out[-2500:]))
        if not sim and not r.completed:
            raise lib.Inconclusive("TLC job %s did not complete\n%s" % (name, r.out[-2500:]))
    return res


def workers(share):
    """TLC workers for a job that may use about `share` of the machine (VERIF_TLC_WORKERS caps it)."""
    cap = int(os.environ.get("VERIF_TLC_WORKERS", "0") or 0)
    w = max(1, int(lib.NCPU * share))
    return min(w, cap) if cap else w


def confirm_cases(binp, cases, scd, key_of, tag="confirm"):
    """Re-run the given binding-A cases alone in a FRESH process; returns {key: [signatures]} of the
    mismatches that show again."""
    if not cases:
        return {}
    p = os.path.join(scd, tag + ".ndjson")
    lib.write_ndjson(p, cases)
    rep = lib.run_report([binp, "-file", p])
    again = {}
    for m in rep["mismatches"]:
        again.setdefault(key_of(m["input"]), []).append(m["signature"])
    return again


def load_witnesses(pid):
    """[(finding, [witness records])] for the findings of pid that have a witness_file."""
    out = []
    for f in lib.load_findings(pid):
        wf = f.get("witness_file")
        if wf:
            out.append((f, lib.read_ndjson(os.path.join(lib.VERIF, wf))))
    return out


def keep_replay(pid, name, obj):
    d = os.path.join(lib.VERIF, "replays", pid)
    os.makedirs(d, exist_ok=True)
    p = os.path.join(d, name)
    with open(p, "w") as f:
        json.dump(obj, f)
    return p
