"""Shared machinery of C39 / C41 (spec/Privileges.tla, harness/cmd/priv).

Flow (the Go side never decides a verdict):
  TLC (-simulate behaviours of Privileges.tla, or the exhaustive transition dump of a small
  vocabulary) -> histories -> harness/cmd/priv replays them as real SQL on an engine with the
  privilege database enabled and records steps, stored state, probe matrices, reload comparisons
  -> TLC validates the record with Trace_Privileges.tla ("MM <json>" per disagreement).
Every mismatch is re-run: its history alone in a fresh replayer process, validated again by TLC;
only a mismatch whose signature shows up again counts.
"""
import json, os
import lib

FULL = {"users": "u1,u2", "roles": "r1", "dbs": "d1,d2", "tbls": "t1,t2"}
SMALL = {"users": "u1,u2", "roles": "r1", "dbs": "d1", "tbls": "t1,t2"}
BIG = {"users": "u1,u2,u3", "roles": "r1,r2", "dbs": "d1,d2", "tbls": "t1,t2"}
EXACT = {"users": "u1,u1@%", "roles": "r1", "dbs": "d1", "tbls": "t1"}
TRACE_CFG = "Trace_Privileges.cfg"     # its vocabulary contains FULL and SMALL
DYNAMIC = ("REPLICATION_SLAVE_ADMIN", "CLONE_ADMIN")      # the dynamic privileges of the vocabulary


def vocab_args(v):
    return ["-users", v["users"], "-roles", v["roles"], "-dbs", v["dbs"], "-tbls", v["tbls"]]


def simulate(cfg, n, depth, seed, timeout=1500):
    """TLC -simulate: n behaviours of `depth` steps; returns the printed steps (TR records)."""
    r = lib.tlc("Privileges", cfg, workers=1, timeout=timeout, simulate="num=%d" % n, depth=depth, tlc_seed=seed)
    if r.error:
        raise lib.Inconclusive("simulate %s: %s" % (cfg, r.error))
    if r.invariant_violated or r.action_prop_violated:
        raise lib.Inconclusive("simulate %s: the specification itself violates %s" % (cfg, r.invariant_violated or r.action_prop_violated))
    trs = r.jsons("TR")
    if len(trs) < n * depth // 2:
        raise lib.Inconclusive("simulate %s: only %d steps printed" % (cfg, len(trs)))
    return r, trs


def histories(trs, rmode):
    """Group TR records the way the replayer does."""
    hs = []
    last = 0
    for t in trs:
        if rmode == "transitions" or t["step"] == 1 or t["step"] != last + 1:
            hs.append([])
        hs[-1].append(t)
        last = t["step"]
    return hs


def run_replay(binp, trs, sc, tag, vocab, rmode="behaviours", matrix="every", reload=False, classes=None, timeout=3000):
    inp = os.path.join(sc, tag + ".in.ndjson")
    out = os.path.join(sc, tag + ".trace.ndjson")
    lib.write_ndjson(inp, trs)
    args = [binp, "-mode", "replay", "-file", inp, "-out", out, "-rmode", rmode, "-matrix", matrix] + vocab_args(vocab)
    if reload:
        args.append("-reload")
    if classes:
        args += ["-classes", ",".join(classes)]
    rep = lib.run_report(args, timeout=timeout)
    return rep, lib.read_ndjson(out)


class Batch:
    """Several replays (each its own replayer process) validated by ONE TLC run: the recorded
    traces are concatenated, the history numbers made global."""

    def __init__(self, binp, sc, name):
        self.binp, self.sc, self.name = binp, sc, name
        self.events = []
        self.hist = {}          # global h -> (tag, TR records, rmode, vocab, replay_kw)
        self.reports = {}
        self.n = 0

    def add(self, tag, trs, vocab, rmode="behaviours", **kw):
        rep, evs = run_replay(self.binp, trs, self.sc, "%s-%s-%d" % (self.name, tag, self.n), vocab, rmode=rmode, **kw)
        self.n += 1
        hs = histories(trs, rmode)
        if rep["extra"]["histories"] != len(hs):
            raise lib.Inconclusive("%s: replayer saw %d histories, expected %d" % (tag, rep["extra"]["histories"], len(hs)))
        off = len(self.hist)
        for i, h in enumerate(hs):
            self.hist[off + i + 1] = (tag, h, rmode, vocab, kw)
        for e in evs:
            e["h"] += off
            self.events.append(e)
        self.reports[tag] = rep
        return rep

    def validate(self, timeout=3000):
        """-> (MM records, ST records, UNDEF records) with global history numbers."""
        if not self.events:
            return [], [], []
        path = os.path.join(self.sc, self.name + ".all.trace.ndjson")
        lib.write_ndjson(path, self.events)
        r = lib.tlc("Trace_Privileges", TRACE_CFG, workers=1, timeout=timeout, heap="6g",
                    extra_files=[("priv_trace.ndjson", path)])
        lib.tlc_ok(r, "Trace_Privileges[%s]" % self.name)
        if r.postcondition_failed:
            raise lib.Inconclusive("%s: the trace was not validated to its end (%d lines)\n%s" % (self.name, len(self.events), r.out[-1500:]))
        mm, st, und = r.jsons("MM"), r.jsons("ST"), r.jsons("UNDEF")
        for x in mm + st + und:
            x["src"] = self.hist[x["h"]][0]
        # a step outside the specification's domain can only follow a disagreement in its history
        bad = [u for u in und if not any(m["h"] == u["h"] and m["l"] < u["l"] for m in mm)]
        if bad:
            raise lib.Inconclusive("%s: step outside the specification's domain without a preceding mismatch: %s" % (self.name, bad[:2]))
        # what follows such a step in its history is not judged (the histories were generated for
        # the specification's state, e.g. GRANT role is not re-issued with a different ADMIN OPTION)
        first = {}
        for u in und:
            first[u["h"]] = min(first.get(u["h"], u["l"]), u["l"])
        self.after_undefined = sum(1 for m in mm if m["h"] in first and m["l"] >= first[m["h"]])
        mm = [m for m in mm if not (m["h"] in first and m["l"] >= first[m["h"]])]
        self.tlc_wall = r.wall
        return mm, st, und


def _levels(atoms):
    return ",".join(sorted({"global" if g[0] == "*" else "db" if g[1] == "*" else "tbl" for g in atoms}))


def _atoms(side):
    return {(a["a"], g["db"], g["tbl"], g["p"]) for a in side.get("accts", []) for g in a.get("g", [])}


def _only(a, b):
    """Kinds of SHOW GRANTS lines present for an account in a and not for the same account in b."""
    bg = {x["a"]: set(x["g"]) for x in b}
    kinds = set()
    for x in a:
        for g in set(x["g"]) - bg.get(x["a"], set()):
            if "ADMIN OPTION" in g:
                kinds.add("role-with-admin-option")
            elif " ON " not in g:
                kinds.add("role")
            elif any(d in g for d in DYNAMIC):
                kinds.add("dynamic-privileges")
            else:
                kinds.add("privileges")
    return ",".join(sorted(kinds))


def _sibling(name):
    return name[:name.index("@")] if "@" in name else name + "@%"


def _differing(spec, eng):
    """Accounts whose existence, grants, flags or role edges differ between the two projections."""
    def acc(side):
        return {a["a"]: (a["locked"], a["pw"], frozenset((g["db"], g["tbl"], g["p"]) for g in a["g"]),
                         frozenset((d["p"], d["wgo"]) for d in a.get("d", []))) for a in side["accts"]}
    s, e = acc(spec), acc(eng)
    d = {a for a in set(s) | set(e) if s.get(a) != e.get(a)}
    se = {(x["r"], x["to"], x["adm"]) for x in spec["edges"]}
    ee = {(x["r"], x["to"], x["adm"]) for x in eng["edges"]}
    return d | {x[1] for x in se ^ ee}


def signature(pid, m):
    """Short classification of one MM record; the regexes of known_findings.jsonl match these."""
    k = m["kind"]
    ex = "exact/" if m.get("src") == "exact" else ""      # histories of the account-name vocabulary
    if k == "ret":
        return "%s|%sret|%s|engine=%s(%s)|spec=%s" % (pid, ex, m["act"], m["engine"], m.get("msg", ""), m["spec"])
    if k == "state" and ex:
        a = m.get("actrec", {})
        diff = _differing(m["spec"], m["engine"])
        on = "sibling" if diff and diff <= {_sibling(a.get("a", ""))} else "named" if diff <= {a.get("a", "")} else "other"
        if on != "named":      # (a difference on the named account itself is classified as in every vocabulary)
            return "%s|exact/state|%s|%s|on=%s" % (pid, m["act"], ",".join(sorted(m["what"])), on)
    if k == "matrix-state":       # the probe matrix (statements run as the users) changed the stored state
        s, e = _atoms(m["spec"]), _atoms(m["engine"])
        return "%s|matrix-state|%s|lost=%s|extra=%s" % (pid, ",".join(sorted(m["what"])), _levels([x[1:3] for x in s - e]), _levels([x[1:3] for x in e - s]))
    if k == "state":
        a = m.get("actrec", {})
        lvl = ""
        if "db" in a:
            lvl = "@" + ("global" if a["db"] == "*" else "db" if a.get("tbl") == "*" else "tbl")
        s, e = _atoms(m["spec"]), _atoms(m["engine"])
        return "%s|state|%s%s|%s|lost=%s|extra=%s" % (pid, m["act"], lvl, ",".join(sorted(m["what"])),
                                                      _levels([x[1:3] for x in s - e]), _levels([x[1:3] for x in e - s]))
    if k.endswith("nonactive-role"):
        return "%s|%s|%s|engine=%s|strict=%s|allroles=%s" % (pid, k, m["cls"], m["engine"], m["strict"], m["allroles"])
    if k.endswith("probe"):
        return "%s|%s|%s|engine=%s|allroles=%s|strict=%s|sat=%s" % (pid, k, m["cls"], m["engine"], m["allroles"], m["strict"], ",".join(sorted(m["sat"])))
    if k.endswith("effect"):
        return "%s|%s|%s|engine=%s" % (pid, k, m["cls"], m["engine"])
    if k in ("reload-state", "reload-state-spec"):
        return "%s|%s|%s" % (pid, k, ",".join(sorted(m["what"])))
    if k == "reload-matrix":
        return "%s|reload-matrix|%s|before=%s|after=%s" % (pid, m["cls"], m["before"], m["after"])
    if k in ("showgrants-dyn", "reload-showgrants-dyn"):
        flags = lambda side: {(x["a"], d["p"]) for x in side for d in x["d"]}
        only_flag = flags(m["shown"]) == flags(m["spec"])
        return "%s|%s|%s" % (pid, k, "grant-option" if only_flag else "privileges")
    if k == "reload-showgrants":
        return "%s|reload-showgrants|before-only=%s|after-only=%s" % (pid, _only(m["before"], m["after"]), _only(m["after"], m["before"]))
    return "%s|%s" % (pid, k)


def judge(pid, v, batch, mms, relevant, per_sig=1):
    """Re-run the history of up to per_sig mismatches of every signature alone (fresh replayer
    process each), validate those records with TLC, add the reproduced ones to the verdict.
    Returns {signature: occurrences}."""
    by_sig = {}
    for m in mms:
        if relevant(m):
            by_sig.setdefault(signature(pid, m), []).append(m)
    if not by_sig:
        return {}
    cb = Batch(batch.binp, batch.sc, batch.name + "-confirm")
    want = []           # (signature, original mismatch, confirm-batch history number)
    for sig, ms in by_sig.items():
        tried = []
        for m in ms:
            if m["h"] in tried:
                continue
            if len(tried) >= per_sig:
                break
            tried.append(m["h"])
            tag, one, rmode, vocab, kw = batch.hist[m["h"]]
            cb.add(tag, one, vocab, rmode=rmode, **kw)      # same tag: signatures depend on the vocabulary
            want.append((sig, m, len(cb.hist)))
    mm2, _, _ = cb.validate()
    for sig, m, h2 in want:
        if any(x["h"] == h2 and relevant(x) and signature(pid, x) == sig for x in mm2):
            tag, one, rmode, vocab, kw = batch.hist[m["h"]]
            detail = {k: m[k] for k in m if k not in ("spec", "engine") or not isinstance(m[k], dict)}
            if isinstance(m.get("engine"), dict):
                detail["spec_state"], detail["engine_state"] = m["spec"], m["engine"]
            detail["history"] = [{"step": t["step"], "act": t["act"]} for t in one]
            if rmode == "transitions":
                detail["pre"] = one[0]["pre"]
            detail["vocabulary"] = vocab
            detail["occurrences_this_run"] = len(by_sig[sig])
            v.add(sig, detail)
        else:
            raise lib.Inconclusive("mismatch did not reproduce in isolation: %s (history %d, %s)" % (sig, m["h"], m.get("src")))
    return {s: len(ms) for s, ms in by_sig.items()}


def forged_selftest(batch, mms, kind_of_reload=False):
    """Binding demonstrated, not assumed: copies of one cleanly validated history with (a) one
    recorded field corrupted and (b) one event dropped must be rejected by Trace_Privileges."""
    import copy
    dirty = {m["h"] for m in mms}
    evs_by_h = {}
    for e in batch.events:
        evs_by_h.setdefault(e["h"], []).append(e)
    pick = None
    for h, evs in evs_by_h.items():
        if h in dirty:
            continue
        steps = [i for i, e in enumerate(evs) if e["ev"] == "step" and e["act"]["name"] in ("GrantPriv", "GrantRole") and e["ret"] == "ok"]
        if kind_of_reload:
            ok = steps and any(e["ev"] == "reload" and any(len(x["g"]) > 1 for x in e["ga"]) for e in evs)
        else:
            ok = steps and any(e["ev"] == "matrix" for e in evs)
        if ok:
            pick = (h, evs, steps)
            break
    if pick is None:
        raise lib.Inconclusive("no clean history to forge")
    h, evs, steps = pick
    a = copy.deepcopy(evs)
    if kind_of_reload:
        r = next(e for e in a if e["ev"] == "reload" and any(len(x["g"]) > 1 for x in e["ga"]))
        x = next(x for x in r["ga"] if len(x["g"]) > 1)
        x["g"] = x["g"][:-1]                                   # one SHOW GRANTS line lost "after reload"
    else:
        m = next(e for e in a if e["ev"] == "matrix")
        m["rows"][0]["out"] = "deny" if m["rows"][0]["out"] == "allow" else "allow"   # one probe outcome flipped
    b = copy.deepcopy(evs)
    del b[steps[0]]                                            # one state-changing step dropped
    for e in a:
        e["h"] = 1
    for e in b:
        e["h"] = 2
    path = os.path.join(batch.sc, batch.name + ".forged.ndjson")
    lib.write_ndjson(path, a + b)
    r = lib.tlc("Trace_Privileges", TRACE_CFG, workers=1, timeout=900, heap="4g", extra_files=[("priv_trace.ndjson", path)])
    lib.tlc_ok(r, "Trace_Privileges[forged]")
    hs = {m["h"] for m in r.jsons("MM")}
    if hs != {1, 2}:
        raise lib.Inconclusive("the trace specification accepted a forged trace (rejected: %s of corrupted-field, dropped-event)" % sorted(hs))
    return {"corrupted_field_rejected": True, "dropped_event_rejected": True, "history": h}
