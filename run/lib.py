"""Shared machinery of the /verif checks: build, TLC, evidence, findings, verdicts.

Every check is `python3 run/check.py <ID> quick|thorough` (see check.py). Exit codes:
0 = the property held on everything explored (KNOWN-FINDING lines allowed),
1 = a reproduced disagreement between the specification and the real code (VIOLATION line),
2 = infrastructure / inconclusive (never a verdict).
"""
import json, os, re, shutil, subprocess, sys, tempfile, time, hashlib, glob

VERIF = os.path.dirname(os.path.dirname(os.path.abspath(__file__)))
REPO = os.environ.get("VERIF_REPO", "/repo")
SPEC = os.path.join(VERIF, "spec")
HARNESS = os.path.join(VERIF, "harness")
BUILD = os.path.join(VERIF, ".build")
EMPTIED = "sql/types/spatial_reference_systems.go"
NCPU = os.cpu_count() or 4


class Inconclusive(Exception):
    """Raised for anything that must end in exit 2."""


def log(*a):
    print(*a, file=sys.stderr, flush=True)


def seed():
    try:
        return int(os.environ.get("VERIF_SEED", "1"))
    except ValueError:
        return 1


# ---------------------------------------------------------------- build

def goenv():
    e = dict(os.environ)
    e.update(GOFLAGS="-mod=mod", GOPROXY="off", GOSUMDB="off", GOTOOLCHAIN="local")
    e.pop("GOWORK", None)
    return e


def overlay_path():
    """Write .build/overlay.json. The reconstructed file is supplied only while /repo's copy has no
    package clause. VERIF_EXTRA_OVERLAY=<name>[,<name>] adds selftest mutants (files under
    selftest/mutants/<name>/ mirroring /repo paths)."""
    os.makedirs(BUILD, exist_ok=True)
    rep = {}
    target = os.path.join(REPO, EMPTIED)
    try:
        txt = open(target, encoding="utf-8", errors="replace").read()
    except OSError:
        txt = ""
    if not re.search(r"^\s*package\s+\w+", txt, re.M):
        rep[target] = os.path.join(VERIF, "overlay", "spatial_reference_systems.go")
    extra = os.environ.get("VERIF_EXTRA_OVERLAY", "")
    for name in [x for x in extra.split(",") if x]:
        root = os.path.join(VERIF, "selftest", "mutants", name)
        if not os.path.isdir(root):
            raise Inconclusive("unknown mutant overlay %s" % name)
        for d, _, fs in os.walk(root):
            for f in fs:
                if f.endswith(".go"):
                    p = os.path.join(d, f)
                    rep[os.path.join(REPO, os.path.relpath(p, root))] = p
    tag = hashlib.sha1(json.dumps(rep, sort_keys=True).encode()).hexdigest()[:10]
    path = os.path.join(BUILD, "overlay-%s.json" % tag)
    tmp = path + ".%d" % os.getpid()
    with open(tmp, "w") as f:
        json.dump({"Replace": rep}, f)
    os.replace(tmp, path)
    return path


def ensure_gosum():
    src = os.path.join(REPO, "go.sum")
    dst = os.path.join(HARNESS, "go.sum")
    try:
        if not os.path.exists(dst) or open(src, "rb").read() != open(dst, "rb").read():
            shutil.copyfile(src, dst)
    except OSError as e:
        raise Inconclusive("go.sum: %s" % e)


def build(cmd, race=False, tags="verif"):
    """Build harness/cmd/<cmd> against /repo's working tree (hooks on). Returns the binary path."""
    ensure_gosum()
    ov = overlay_path()
    suffix = ("-race" if race else "") + ("-" + hashlib.sha1(os.environ.get("VERIF_EXTRA_OVERLAY", "").encode()).hexdigest()[:6]
                                          if os.environ.get("VERIF_EXTRA_OVERLAY") else "")
    out = os.path.join(BUILD, "bin", cmd + suffix)
    os.makedirs(os.path.dirname(out), exist_ok=True)
    args = ["go1.26", "build", "-tags", tags, "-overlay", ov, "-o", out]
    if race:
        args.append("-race")
    args.append("./cmd/" + cmd)
    t0 = time.time()
    p = subprocess.run(args, cwd=HARNESS, env=goenv(), capture_output=True, text=True)
    if p.returncode != 0:
        raise Inconclusive("build of %s failed (is /repo compiling?):\n%s" % (cmd, (p.stdout + p.stderr)[-4000:]))
    log("[build] %s %.1fs" % (os.path.basename(out), time.time() - t0))
    return out


def run(args, timeout=None, cwd=None, env=None, stdin=None, check=False):
    p = subprocess.run(args, cwd=cwd, env=env or goenv(), capture_output=True, text=True,
                       timeout=timeout, input=stdin)
    if check and p.returncode != 0:
        raise Inconclusive("%s exited %d:\n%s" % (" ".join(args[:4]), p.returncode, (p.stdout + p.stderr)[-4000:]))
    return p


class Scratch:
    """A per-run scratch directory outside /repo and /verif, removed on exit."""

    def __init__(self, keep=False):
        self.keep = keep or bool(os.environ.get("VERIF_KEEP"))
        self.dir = None

    def __enter__(self):
        self.dir = tempfile.mkdtemp(prefix="verif-")
        return self.dir

    def __exit__(self, *a):
        if not self.keep:
            shutil.rmtree(self.dir, ignore_errors=True)
        else:
            log("[scratch kept] " + self.dir)


# ---------------------------------------------------------------- TLC

class TLCResult:
    def __init__(self, out, rc, wall):
        self.out, self.rc, self.wall = out, rc, wall
        self.generated = self.distinct = 0
        m = None
        for m in re.finditer(r"^(\d+) states generated, (\d+) distinct states found", out, re.M):
            pass
        if m:
            self.generated, self.distinct = int(m.group(1)), int(m.group(2))
        m = re.search(r"The depth of the complete state graph search is (\d+)", out)
        self.depth = int(m.group(1)) if m else 0
        self.prints = []          # decoded PrintT strings
        self.tuples = []          # raw PrintT lines of tuples  <<"MISMATCH", ...>>
        for line in out.splitlines():
            if line.startswith('"'):
                try:
                    self.prints.append(json.loads(line))
                except ValueError:
                    pass
            elif line.startswith("<<"):
                self.tuples.append(line)
        self.invariant_violated = re.findall(r"Invariant (\S+) is violated", out)
        self.action_prop_violated = re.findall(r"Action property (\S+) is violated", out)
        self.temporal_violated = "Temporal properties were violated" in out
        self.deadlock = "Deadlock reached" in out
        self.postcondition_failed = "failed to satisfy" in out or "Postcondition" in out and "violated" in out
        self.error = None
        if "Error:" in out and not (self.invariant_violated or self.action_prop_violated
                                    or self.temporal_violated or self.deadlock):
            m = re.search(r"Error:.*(?:\n.*){0,12}", out)
            self.error = m.group(0) if m else "Error"
        self.completed = "Model checking completed" in out or "Finished in" in out

    def jsons(self, prefix):
        """PrintT lines `prefix <json>` decoded."""
        res = []
        for s in self.prints:
            if s.startswith(prefix + " "):
                res.append(json.loads(s[len(prefix) + 1:]))
        return res

    def coverage_zero(self):
        """Names of actions that -coverage 1 reported with 0 states."""
        return re.findall(r"^<(\w+) line .*>: 0:0$", self.out, re.M)


def tlc(module, cfg=None, workdir=None, workers=None, timeout=600, simulate=None, depth=None,
        tlc_seed=None, dfs=False, coverage=False, extra_files=(), heap="6g", deadlock=None, extra_args=()):
    """Run TLC on spec/<module>.tla with spec/<cfg> in a scratch copy of spec/. extra_files are
    (name, path) pairs copied next to the module (recorded traces, generated constants)."""
    own = None
    if workdir is None:
        own = tempfile.mkdtemp(prefix="verif-tlc-")
        workdir = own
    try:
        for f in glob.glob(os.path.join(SPEC, "*.tla")) + glob.glob(os.path.join(SPEC, "*.cfg")):
            shutil.copy(f, workdir)
        for name, src in extra_files:
            shutil.copy(src, os.path.join(workdir, name))
        meta = os.path.join(workdir, "meta-%d" % int(time.time() * 1000))
        args = ["timeout", str(timeout), "tlc", "-metadir", meta, "-workers", str(workers or "auto"),
                "-config", cfg or (module + ".cfg")]
        if simulate:
            args += ["-simulate", simulate]
        if depth:
            args += ["-depth", str(depth)]
        if tlc_seed is not None:
            args += ["-seed", str(tlc_seed)]
        if coverage:
            args += ["-coverage", "1"]
        if deadlock is False:
            args += ["-deadlock"]
        args += list(extra_args)
        args.append(module)
        env = dict(os.environ)
        jto = "-Xmx%s -Xss64m" % heap
        if dfs:
            jto += " -Dtlc2.tool.queue.IStateQueue=StateDeque"
        env["JAVA_TOOL_OPTIONS"] = jto
        t0 = time.time()
        p = subprocess.run(args, cwd=workdir, env=env, capture_output=True, text=True)
        r = TLCResult(p.stdout + p.stderr, p.returncode, time.time() - t0)
        if p.returncode == 124:
            r.error = "TLC timed out after %ss" % timeout
        return r
    finally:
        if own and not os.environ.get("VERIF_KEEP"):
            shutil.rmtree(own, ignore_errors=True)


def tlc_ok(r, what, allow_violation=False):
    """Raise Inconclusive unless TLC finished cleanly (model-level violations are reported to the
    caller, which must reproduce them on the code before they count)."""
    if r.error:
        raise Inconclusive("%s: TLC error: %s\n%s" % (what, r.error, r.out[-3000:]))
    if not r.completed:
        raise Inconclusive("%s: TLC did not complete\n%s" % (what, r.out[-3000:]))
    if not allow_violation and (r.invariant_violated or r.action_prop_violated or r.temporal_violated or r.deadlock):
        raise Inconclusive("%s: the specification itself violates %s (model-only counterexample, not a verdict)\n%s"
                           % (what, r.invariant_violated or r.action_prop_violated or "a temporal property/deadlock", r.out[-3000:]))
    return r


# ---------------------------------------------------------------- findings / verdicts

def load_findings(pid):
    path = os.path.join(VERIF, "known_findings.jsonl")
    res = []
    if os.path.exists(path):
        for line in open(path):
            line = line.strip()
            if not line or line.startswith("#"):
                continue
            f = json.loads(line)
            if f.get("property") == pid:
                res.append(f)
    return res


class Verdict:
    """Collects reproduced disagreements, separates known findings, prints the verdict lines."""

    def __init__(self, pid):
        self.pid = pid
        self.findings = [f for f in load_findings(pid) if f.get("status", "open") == "open"]
        self.violations = []
        self.known = {}

    def add(self, signature, detail):
        """signature: short string classifying the failing step; matched against the `signature`
        regexes of the open findings of this property."""
        for f in self.findings:
            if re.search(f["signature"], signature):
                self.known.setdefault(f["id"], []).append(detail)
                return "known"
        self.violations.append({"signature": signature, "detail": detail})
        return "violation"

    def finish(self):
        for f in self.findings:
            if f["id"] in self.known:
                print("KNOWN-FINDING: property=%s %s (%d occurrence(s) this run)" % (self.pid, f["what"], len(self.known[f["id"]])))
        if self.violations:
            d = os.path.join(VERIF, "replays", self.pid)
            os.makedirs(d, exist_ok=True)
            seen = {}
            for v in self.violations:
                seen.setdefault(v["signature"], []).append(v)
            for i, (sig, vs) in enumerate(list(seen.items())[:8]):
                p = os.path.join(d, "v%d-%d.json" % (int(time.time()), i))
                with open(p, "w") as fh:
                    json.dump({"property": self.pid, "signature": sig, "occurrences": len(vs), "first": vs[0]}, fh, indent=1, default=str)
                print("VIOLATION property=%s replay=%s" % (self.pid, p))
            return 1
        return 0


def write_evidence(pid, tier, level, coverage, wall, violations=0, assumptions=()):
    os.makedirs(os.path.join(VERIF, "evidence"), exist_ok=True)
    ev = {"property_id": pid, "tier": tier, "seed": seed(), "level": level, "coverage": coverage,
          "assumptions": list(assumptions), "wall_s": round(wall, 2), "violations": violations}
    p = os.path.join(VERIF, "evidence", pid + ".json")
    if os.environ.get("VERIF_EXTRA_OVERLAY"):
        # a self-test run against a mutated build: its evidence describes the mutant, not /repo; keep it apart
        os.makedirs(os.path.join(BUILD, "overlay-evidence"), exist_ok=True)
        p = os.path.join(BUILD, "overlay-evidence", "%s-%s.json" % (pid, os.environ["VERIF_EXTRA_OVERLAY"]))
    with open(p + ".tmp", "w") as f:
        json.dump(ev, f, indent=1, default=str)
    os.replace(p + ".tmp", p)


def read_ndjson(path):
    res = []
    with open(path) as f:
        for line in f:
            line = line.strip()
            if line:
                res.append(json.loads(line))
    return res


def write_ndjson(path, rows):
    with open(path, "w") as f:
        for r in rows:
            f.write(json.dumps(r, separators=(",", ":")) + "\n")


# ---------------------------------------------------------------- harness binaries

def run_report(args, timeout=1800, env=None):
    """Run a harness binary that prints `REPORT <json>` as its last line."""
    e = goenv()
    if env:
        e.update(env)
    try:
        p = subprocess.run(args, capture_output=True, text=True, timeout=timeout, env=e)
    except subprocess.TimeoutExpired:
        raise Inconclusive("%s timed out after %ss" % (os.path.basename(args[0]), timeout))
    rep = None
    for line in p.stdout.splitlines():
        if line.startswith("REPORT "):
            rep = json.loads(line[7:])
    if rep is None:
        raise Inconclusive("%s produced no report (exit %d):\n%s" % (" ".join(args[:3]), p.returncode, (p.stdout[-1500:] + p.stderr[-2500:])))
    rep["_stderr"] = p.stderr[-2000:]
    return rep


def dump_transitions(module, cfg, path, prefix="TR", **kw):
    """Run TLC with the spec's Emit action constraint and write the printed transitions to path."""
    r = tlc(module, cfg, **kw)
    tlc_ok(r, "%s/%s" % (module, cfg))
    trs = r.jsons(prefix)
    write_ndjson(path, trs)
    return r, trs


def sample(items, n, rnd):
    if n is None or len(items) <= n:
        return list(items)
    idx = sorted(rnd.sample(range(len(items)), n))
    return [items[i] for i in idx]
