"""C12 — prepared statements behave like the inlined statement text.
Spec: Execute(prepared, params) == Exec(Inline(text, params)): the meaning of a parameterised
statement is the meaning of its text with the values written as literals (SQLSem!Rows of the AST with
the literals in place).  Binding B: every generated parameterised SELECT (parameters in WHERE, select
list, IN lists, subqueries, LIMIT/OFFSET) is executed inlined, through SQL PREPARE / EXECUTE USING
@vars, and through Engine.QueryWithBindings (the binary-protocol path), re-executed with other values
and after data changes; parameterised INSERT/UPDATE/DELETE run the three ways on twin engines and
their effects are compared (spec/Trace_Laws.tla)."""
import lib, sqlcommon as sc

PID = "C12"
META = {
    "property_id": PID,
    "level": "model_checking",
    "technique": "TLA+ SQLSem meaning of the inlined statement as oracle for all three execution paths; TLC trace validation of recorded plain / PREPARE+EXECUTE / bound-parameter executions across re-executions and data changes; effects of parameterised DML compared as bags",
    "text": "TLC judges each of the three executions of every parameterised query against the meaning of the statement with the values inlined (so a wrong binding, a parameter typed at PREPARE time and reused with another value, or a plan cached across data changes is rejected whichever path is wrong) and demands equal table contents and affected counts of parameterised DML run the three ways.",
    "note": "Parameter values are ints, strings and NULL inside the interpreted fragment; the binary protocol is represented by Engine.QueryWithBindings with vitess bind expressions (what the server handler calls after decoding COM_STMT_EXECUTE); C35 covers the wire itself.",
}


def check(tier):
    nh, steps, nq = (12, 3, 5) if tier == "quick" else (200, 4, 6)
    gen_args = ["-mode", "c12", "-seed", str(lib.seed()), "-histories", str(nh), "-steps", str(steps), "-queries", str(nq)]
    return sc.driver_check(PID, tier, gen_args,
                           "seeded parameterised statements executed inlined / PREPARE+EXECUTE USING / QueryWithBindings, re-executed with new values after each of %d data changes; plus 3 parameterised DML statements per history on twin engines; non-trivial = the inlined execution returned rows" % steps,
                           chunk=25 if tier == "quick" else 80, binary="hist", module="Trace_Laws")


def replay(path):
    return sc.replay_case(PID, path, module="Trace_Laws")
