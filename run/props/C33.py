"""C33 — regular expression functions agree with each other and with the pattern.
Spec: spec/RegexRef.tla (leftmost-first reference matcher over pattern ASTs; search, n-th occurrence,
replace), spec/MC_RegexRef.tla (bounded enumeration of patterns x subjects with the expected value of every
query, the matcher's own laws as invariant), spec/Trace_Regex.tla (mutual-consistency laws on recorded results).
Binding A: TLC-enumerated (pattern, subject, queries) cases are rendered to SQL and executed (equality of
values).  Binding B: seeded random patterns beyond the subset, subjects with multi-byte characters, positions
> 1, occurrences 1..4 and match types are executed and recorded; TLC judges the laws on every line."""
import concurrent.futures as cf
import json, os, time
import lib, fncommon as fc

PID = "C33"
META = {
    "property_id": PID,
    "level": "model_checking",
    "technique": "TLA+ reference matcher RegexRef.tla (ordered-choice semantics over pattern ASTs); TLC enumerates patterns of operator depth <= 2 x subjects, checks the matcher's own laws (ordered ends = declarative language membership, matches leftmost / ordered / non-overlapping, the four functions mutually consistent) as an invariant and emits the expected value of every REGEXP_LIKE / REGEXP_INSTR / REGEXP_SUBSTR / REGEXP_REPLACE query, executed on the engine (binding A); recorded results of random patterns are validated by TLC against the consistency laws (binding B, Trace_Regex.tla)",
    "text": "For the subset {literal, ., [ab], [^a], greedy * + ?, |, grouping, ^, $} the engine's REGEXP_LIKE, REGEXP_INSTR (pos 1..2, occurrence 1..3, return_option 0/1), REGEXP_SUBSTR and REGEXP_REPLACE (occurrence 0 = all, 1, 2) must return exactly what the reference matcher computes for every enumerated pattern x subject over {a, b}. For random patterns beyond the subset ({m,n}, \\d \\w \\s \\b, lazy quantifiers, non-capturing groups, POSIX classes; match_type i, c, m, n) and subjects with multi-byte characters TLC checks on the recorded values: LIKE <=> INSTR > 0 <=> SUBSTR non-NULL; SUBSTR is the subject text at INSTR, INSTR(return_option 1) = start + length; occurrences are ordered and non-overlapping; REPLACE with occurrence k rewrites exactly the k-th reported match and with occurrence 0 exactly all reported matches; match_type i makes the verdict independent of the subject's letter case, c is the default; invalid patterns (unbalanced parentheses, bad class, dangling quantifier, reversed interval, trailing backslash) make all four functions fail.",
    "note": "Partial claim (DESIGN 7 C33): exact match semantics only for the enumerated subset (quantified sub-patterns cannot match the empty string: there RE2, ICU and PCRE differ); pos within 1..CHAR_LENGTH+1 and occurrence >= 1 (outside MySQL raises errors); positions of subjects with astral characters are UTF-16 positions in MySQL itself, so position-cutting laws are not judged there. Trusted: TLC, the AST-to-text renderer and value re-encoding in harness/cmd/c33.",
    "design_ref": "§7 C33",
}

ASSUMPTIONS = [
    "string literals carry the engine's default collation utf8mb4_0900_bin, so matching is case-sensitive unless match_type i is given",
    "the ICU library linked through go-icu-regex (cgo build) is the engine's regex implementation under test",
    "replacement texts contain no $ or backslash (no group references)",
]


def sigs_b(m, row):
    out = []
    tag = m["tag"] + ("+" + row["in"]["edge"] if row["in"].get("edge") else "")
    for law in sorted(m["bad"]):
        s = "B|%s|%s|%s" % (m["ev"], law, tag)
        if law in ("error-all-or-none", "invalid-pattern-errors"):
            grp = {"like": "like", "i0": "instr", "i1": "instr", "sub": "substr", "r": "replace", "rall": "replace"}
            errs = sorted({grp.get(n.split("_")[0], n) for n, v in row["r"].items() if v.get("t") == "e"})
            s += "|errs=" + ",".join(errs)
        out.append((law, s))
    return out


def detail_b(law, row):
    return {"law": law, "pattern": "".join(chr(c) for c in row["in"]["pat"]), "subject": "".join(chr(c) for c in row["in"]["s"]),
            "recorded": {"in": row["in"], "r": row["r"], "sql": row.get("sql")},
            "event": {k: row[k] for k in ("ev", "id", "tag", "in")}}


def run_b(binp, sc, n, nchunks):
    tpath = os.path.join(sc, "b.ndjson")
    grep = lib.run_report([binp, "gen", "-seed", str(lib.seed()), "-n", str(n), "-out", tpath], timeout=3000)
    rows = lib.read_ndjson(tpath)
    mm, st, states = fc.validate_rows(rows, "Trace_Regex", nchunks=nchunks)
    return grep, rows, mm, st, states


def confirm_b(binp, v, rows, mm, sc, n):
    if not mm:
        return 0
    by_sig = {}
    for m in mm:
        for law, sig in sigs_b(m, rows[m["l"] - 1]):
            by_sig.setdefault(sig, []).append((law, m))
    picked = {}
    for sig, ms in by_sig.items():
        for law, m in ms[:2]:
            picked[(m["id"], law)] = sig
    ids = sorted({i for i, _ in picked})
    out = os.path.join(sc, "confirm-b.ndjson")
    lib.run_report([binp, "gen", "-seed", str(lib.seed()), "-n", str(n), "-only", ",".join(map(str, ids)), "-out", out])
    again_rows = lib.read_ndjson(out)
    again, _, _ = fc.validate_rows(again_rows, "Trace_Regex", nchunks=1)
    seen = set()
    for m in again:
        for law, sig in sigs_b(m, again_rows[m["l"] - 1]):
            seen.add((m["id"], law, sig))
    for (i, law), sig in picked.items():
        if (i, law, sig) not in seen:
            raise lib.Inconclusive("recorded mismatch did not reproduce in a fresh process: id %d law %s (%s)" % (i, law, sig))
    for sig, ms in by_sig.items():
        law, m = ms[0]
        d = detail_b(law, rows[m["l"] - 1])
        d["occurrences"] = len(ms)
        d["seed"] = lib.seed()
        v.add("%s|%s" % (PID, sig), d)
    return sum(len(ms) for ms in by_sig.values())


def run_witnesses(binp, sc):
    cases, evs, ids = [], [], []
    for fid, status, lines in fc.witness_files(PID):
        ids.append(fid)
        for x in lines:
            if "re" in x:
                cases.append((fid, x))
            elif "ev" in x:
                evs.append((fid, dict(x, id=len(evs) + 1)))
    out = []
    if cases:
        p = os.path.join(sc, "w-cases.ndjson")
        lib.write_ndjson(p, [c for _, c in cases])
        rep = lib.run_report([binp, "replay", "-file", p, "-keep", "100000"])
        for m in rep["mismatches"]:
            fid = cases[m["case"]][0]
            out.append((fid, "%s|%s" % (PID, m["signature"]),
                        {"witness_of": fid, "sql": m["input"]["sql"], "accepted": m["expected"], "engine": m["got"]}))
    if evs:
        pin, pout = os.path.join(sc, "w-ev.in"), os.path.join(sc, "w-ev.out")
        lib.write_ndjson(pin, [e for _, e in evs])
        lib.run_report([binp, "exec", "-in", pin, "-out", pout])
        rows = lib.read_ndjson(pout)
        mm, _, _ = fc.validate_rows(rows, "Trace_Regex", nchunks=1)
        for m in mm:
            fid = evs[m["l"] - 1][0]
            for law, sig in sigs_b(m, rows[m["l"] - 1]):
                d = detail_b(law, rows[m["l"] - 1])
                d["witness_of"] = fid
                out.append((fid, "%s|%s" % (PID, sig), d))
    return out, ids


def binding_selftest(binp, cases, rows, sc):
    """DESIGN 9: flipped expectations (binding A) and corrupted recorded values (binding B) must be rejected."""
    good = [c for c in cases if c["nt"]][:20]
    flipped = []
    for c in good:
        c2 = json.loads(json.dumps(c))
        c2["qs"] = [dict(c2["qs"][0], exp={"t": "i", "i": 1 - c2["qs"][0]["exp"]["i"]})]
        flipped.append(c2)
    p = os.path.join(sc, "selftest-a.ndjson")
    lib.write_ndjson(p, flipped)
    rep = lib.run_report([binp, "replay", "-file", p, "-keep", "1000"])
    na = sum(rep["extra"]["by_signature"].values())
    if not flipped or na != len(flipped):
        raise lib.Inconclusive("binding self-test A: %d of %d flipped expectations were noticed" % (na, len(flipped)))
    bad = []
    for r in [r for r in rows if r["tag"] == "bmp" and r["r"]["i0_1"].get("i", 0) > 0][:20]:
        r2 = json.loads(json.dumps(r))
        r2["r"]["i1_1"]["i"] += 1
        bad.append(r2)
    mm, _, _ = fc.validate_rows(bad, "Trace_Regex", nchunks=1)
    if not bad or len({m["l"] for m in mm}) != len(bad):
        raise lib.Inconclusive("binding self-test B: %d of %d corrupted lines were rejected" % (len(mm), len(bad)))
    return {"flipped_expectations": len(flipped), "noticed": na, "corrupted_lines": len(bad), "rejected": len(mm)}


def check(tier):
    t0 = time.time()
    binp = lib.build("c33")
    v = lib.Verdict(PID)
    quick = tier == "quick"
    nb = 800 if quick else 16000
    with lib.Scratch() as sc:
        with cf.ThreadPoolExecutor(max_workers=4) as ex:
            f_wit = ex.submit(run_witnesses, binp, sc)
            f_enum = ex.submit(fc.dump_cases, "MC_RegexRef", "MC_RegexRef_quick.cfg" if quick else "MC_RegexRef_full.cfg",
                               os.path.join(sc, "enum.ndjson"), workers=4 if quick else max(4, lib.NCPU - 4), coverage=not quick, heap="6g")
            f_sim = ex.submit(fc.dump_cases, "MC_RegexRef", "MC_RegexRef_sim.cfg", os.path.join(sc, "sim.ndjson"),
                              simulate=20, depth=30) if quick else None
            f_b = ex.submit(run_b, binp, sc, nb, 2 if quick else max(4, lib.NCPU - 4))
            re_, cases = f_enum.result()
            rs, scases = f_sim.result() if f_sim else (None, [])
            grep, rows, mm, st, bstates = f_b.result()
            wit, wit_ids = f_wit.result()
        lib.log("[C33] TLC done %.1fs: %d enumerated cases (%d states), %d sampled depth-2 cases, %d recorded lines (%d with failed laws)"
                % (time.time() - t0, len(cases), re_.distinct, len(scases), len(rows), len(mm)))
        if not quick:
            z = [a for a in re_.coverage_zero() if a not in ("SNext", "SInit")]
            if z:
                raise lib.Inconclusive("vacuous: actions never taken: %s" % z)
        if len(cases) < (1500 if quick else 60000) or (quick and len(scases) < 400):
            raise lib.Inconclusive("too few enumerated cases: %d + %d" % (len(cases), len(scases)))
        rep_c = lib.run_report([binp, "replay", "-file", os.path.join(sc, "enum.ndjson")], timeout=6000)
        rep_s = lib.run_report([binp, "replay", "-file", os.path.join(sc, "sim.ndjson")], timeout=3000) if quick else None
        if rep_c["cases"] != len(cases) or (rep_s and rep_s["cases"] != len(scases)):
            raise lib.Inconclusive("cases dumped and replayed differ")
        nt_b = sum(1 for s in st if s["nt"])
        if len(st) != nb or nt_b < nb // 3:
            raise lib.Inconclusive("recorded lines: %d judged of %d, %d non-trivial" % (len(st), nb, nt_b))
        for fid, sig, d in wit:
            v.add(sig, d)
        for fid in wit_ids:
            if fid not in {x for x, _, _ in wit}:
                lib.log("[C33] NOTE: the witness of finding %s no longer disagrees with the specification" % fid)
        n_a = fc.confirm_cases(binp, PID, v, rep_c, sc, "c")
        if rep_s:
            n_a += fc.confirm_cases(binp, PID, v, rep_s, sc, "s")
        n_b = confirm_b(binp, v, rows, mm, sc, nb)
        selftest = binding_selftest(binp, cases, rows, sc) if not quick else None
        for x in v.violations:
            lib.log("[C33] unlisted disagreement: %s  %s" % (x["signature"], json.dumps(x["detail"], default=str)[:400]))
        rc = v.finish()
        by_sig = dict(rep_c["extra"]["by_signature"])
        for k, n in (rep_s["extra"]["by_signature"] if rep_s else {}).items():
            by_sig[k] = by_sig.get(k, 0) + n
        evals_a = rep_c["extra"]["evaluations"] + (rep_s["extra"]["evaluations"] if rep_s else 0)
        lib.write_evidence(PID, tier, "model_checking", {
            "states": re_.distinct + (rs.generated if rs else 0) + bstates,
            "transitions": len(cases) + len(scases),
            "traces_validated_against_impl": len(cases) + len(scases) + len(st),
            "samples": (rep_c["samples"][:2] + grep["samples"][:1]) or cases[:1],
            "exhaustive": not quick,
            "evaluations": evals_a + len(st),
            "distinct_nontrivial": rep_c["nontrivial"] + (rep_s["nontrivial"] if rep_s else 0) + nt_b,
            "rule": "binding A: every (pattern, subject) pair of %s (patterns: atoms and depth-1 operators%s over {a, b, ., [ab], [^a], ^, $}; subjects: all strings of length <= %d over {a, b}), each with REGEXP_LIKE + REGEXP_INSTR x (pos 1..2, occurrence 1..3, return_option 0/1) + REGEXP_SUBSTR x (pos, occurrence) + REGEXP_REPLACE x (pos, occurrence 0..2)%s; the invariant MC_RegexRef!Sane held on every pair; non-trivial (decided by TLC, field nt) = the pattern has an operator and matches in the subject; distinct by (pattern text, subject). Binding B: %d seeded random lines (4 of 5 valid random patterns, 1 of 5 invalid); non-trivial (decided by TLC, ST lines) = at least one match reported, or an invalid pattern"
                    % ("MC_RegexRef_quick.cfg" if quick else "MC_RegexRef_full.cfg", "" if quick else " and the depth-2 patterns D2E (right operand an atom or a quantified atom)", 3,
                       " plus %d random (depth-2 pattern, subject of length <= 4) pairs drawn by TLC (-simulate)" % len(scases) if quick else "", nb),
            "enumerated": {"cases": len(cases), "sampled_cases": len(scases), "queries_executed": evals_a, "by_function": rep_c["extra"]["by_function"],
                           "tlc_wall_s": round(re_.wall + (rs.wall if rs else 0), 1), "disagreements": n_a, "by_signature": by_sig},
            "recorded": {"lines": len(st), "by_tag": grep["extra"]["by_tag"], "nontrivial": nt_b, "lines_with_failed_laws": len(mm), "failed_laws": n_b},
            "witnesses": {"findings_with_witness": len(wit_ids), "still_disagreeing": len({fid for fid, _, _ in wit})},
            "binding_selftest": selftest,
        }, time.time() - t0, violations=len(v.violations), assumptions=ASSUMPTIONS)
        return rc


def replay(path):
    d = json.load(open(path))
    det = d["first"]["detail"]
    binp = lib.build("c33")
    with lib.Scratch() as sc:
        if "case" in det:
            p = os.path.join(sc, "case.ndjson")
            lib.write_ndjson(p, [det["case"]])
            rep = lib.run_report([binp, "replay", "-file", p])
            print(json.dumps(rep["mismatches"], indent=1))
            bad = bool(rep["mismatches"])
        else:
            pin, pout = os.path.join(sc, "ev.in"), os.path.join(sc, "ev.out")
            lib.write_ndjson(pin, [det["event"]])
            lib.run_report([binp, "exec", "-in", pin, "-out", pout])
            mm, _, _ = fc.validate_rows(lib.read_ndjson(pout), "Trace_Regex", nchunks=1)
            print(json.dumps(mm, indent=1))
            bad = bool(mm)
    print("VIOLATION reproduced" if bad else "not reproduced on this tree")
    return 1 if bad else 0
