"""C52 — geometry values round-trip through WKT / WKB (and storage), and spatial index lookups return
the rows the predicate selects.  PARTIAL: integer coordinates |x| <= 1000, SRIDs 0 / 3857 / 4326,
structure and WKT text only (no IEEE edge values, no WKB byte layout).
Spec: spec/Geometry.tla (tagged geometry values, WKT, Valid, MBR, accessors, Intersects / Within for
points and axis-parallel rectangles), spec/MC_Geometry.tla (predicate laws, exhaustive),
spec/MC_GeometryCases.tla (TLC samples geometries and index tables and prints the expected texts / ids).
Binding A only: harness/cmd/c52 runs the SQL functions and compares texts / id lists with TLC's."""
import json, os, threading, time
import lib

PID = "C52"
META = {
    "property_id": PID,
    "level": "exploration",
    "technique": "TLA+ spec Geometry.tla as oracle: TLC samples geometries of every type (nested collections, three SRIDs) and spatial-index tables, computes the WKT text, accessor answers and predicate row sets; the engine's ST_* functions and index lookups are compared with them (binding A); predicate laws model-checked exhaustively over {0,1,2,5} coordinates",
    "text": "For TLC-drawn points, linestrings, polygons (with holes), multipoints, multilinestrings, multipolygons and geometry collections nested to depth 2 with integer coordinates and SRID 0 / 3857 / 4326: ST_AsText(ST_GeomFromText(wkt, srid)), ST_AsText(ST_GeomFromText(ST_AsText(g), srid)), ST_AsText(ST_GeomFromWKB(ST_AsWKB(g), srid)) and the value read back from a GEOMETRY column equal the specification's WKT(g) and keep the SRID; ST_GeometryType, ST_Dimension, ST_X/Y, ST_Latitude/Longitude, ST_NumPoints, ST_StartPoint/EndPoint/PointN, ST_IsClosed, ST_ExteriorRing/InteriorRingN/NumInteriorRings, ST_NumGeometries/GeometryN answer as the structure says. For tables of points / axis-parallel rectangles with a SPATIAL KEY, ST_Intersects and ST_Within queries (plan recorded: spatial index) return the same ids as the index-free twin and as the specification's closed-set predicates.",
    "note": "PARTIAL claim: no fractional / extreme coordinates, no WKB byte layout, only the three SRIDs of the reconstructed SRID file; predicates only for point x rectangle and rectangle x rectangle; MBRContains does not exist in the engine; trusted: TLC, the query templates and text rendering of harness/cmd/c52.",
    "design_ref": "§7 C52",
}

SIZES = {"quick": 250, "thorough": 6000}


def check(tier):
    t0 = time.time()
    n = SIZES[tier]
    binp = lib.build("c52")
    v = lib.Verdict(PID)
    with lib.Scratch() as scd:
        box = {}

        def mc():
            try:
                box["r"] = lib.tlc("MC_Geometry", "MC_Geometry.cfg", workers=min(4, lib.NCPU), timeout=1500, heap="2g")
            except Exception as e:
                box["e"] = e
        th = threading.Thread(target=mc)
        th.start()
        try:
            rs = lib.tlc("MC_GeometryCases", "MC_GeometryCases.cfg", workers=1, timeout=3000, simulate="num=%d" % n, depth=3,
                         tlc_seed=lib.seed(), heap="3g")
            if rs.error or rs.invariant_violated:
                raise lib.Inconclusive("MC_GeometryCases: %s\n%s" % (rs.error or rs.invariant_violated, rs.out[-2000:]))
            cases = rs.jsons("CASE")
            if len(cases) < n * 0.9:
                raise lib.Inconclusive("MC_GeometryCases emitted only %d cases" % len(cases))
            # the recorded witnesses of the findings run with every check
            owner = {}
            for f in lib.load_findings(PID):
                if f.get("witness_file"):
                    for c in lib.read_ndjson(os.path.join(lib.VERIF, f["witness_file"])):
                        owner[len(cases)] = f
                        cases.append(c)
            cpath = os.path.join(scd, "cases.ndjson")
            lib.write_ndjson(cpath, cases)
            rep = lib.run_report([binp, "-in", cpath], timeout=3000)
            lib.log("[C52] %d cases, %d checks, %d index queries, %d disagreements, %.1fs" % (
                rep["cases"], rep["extra"]["checks"], rep["extra"]["index_queries"], len(rep["mismatches"]), time.time() - t0))
            if rep["mismatches"]:
                idx = sorted({m["case"] for m in rep["mismatches"]})
                again = lib.run_report([binp, "-in", cpath, "-only", ",".join(map(str, idx))], timeout=3000)
                got = {(m["case"], m["signature"], m["input"]["sql"]) for m in again["mismatches"]}
                for m in rep["mismatches"]:
                    if (m["case"], m["signature"], m["input"]["sql"]) not in got:
                        raise lib.Inconclusive("disagreement did not reproduce in a fresh process: %s" % m["input"]["sql"])
                    d = {"sql": m["input"]["sql"], "expected": m["expected"], "got": m["got"], "case": cases[m["case"]], "seed": lib.seed()}
                    if m["case"] in owner:
                        d["witness_of"] = owner[m["case"]]["id"]
                    v.add(m["signature"], d)
            if tier == "thorough":
                # DESIGN 9: one flipped expectation must be reported by the driver
                c = json.loads(json.dumps(cases[0]))
                c["exp"]["rt_text"] = c["exp"]["rt_text"] + " "
                sp = os.path.join(scd, "selftest.ndjson")
                lib.write_ndjson(sp, [c])
                if not any(m["input"].get("check") == "rt_text" for m in lib.run_report([binp, "-in", sp])["mismatches"]):
                    raise lib.Inconclusive("binding self-test: a flipped expectation was not reported by the driver")
            bad = {m["case"] for m in rep["mismatches"]}
            for i, f in owner.items():
                if i not in bad and f.get("status", "open") == "open":
                    lib.log("[C52] NOTE: a witness of finding %s no longer fails (defect repaired?)" % f["id"])
        finally:
            th.join()
        if "e" in box:
            raise box["e"]
        r = lib.tlc_ok(box["r"], "MC_Geometry")
        plans = rep["extra"]["plans"]
        nidx = rep["extra"]["index_queries"]
        through_index = sum(c for k, c in plans.items() if k.startswith("spatial-index"))
        if through_index < nidx * 0.8:
            raise lib.Inconclusive("spatial index not used: plans %s" % plans)
        kinds = rep["extra"]["kinds"]
        if len([k for k, c in kinds.items() if c > 0]) < 7:
            raise lib.Inconclusive("not every geometry type was sampled: %s" % kinds)
        rc = v.finish()
        lib.write_evidence(PID, tier, "exploration", {
            "evaluations": rep["extra"]["checks"] + 2 * nidx,
            "distinct_nontrivial": rep["nontrivial"],
            "rule": "TLC (-simulate, seed = VERIF_SEED) draws %d cases: one geometry (type uniform over the 7 types + nested collection, coordinates from {0,1,2,5,-7,1000} (4326: 80), SRID from {0,3857,4326}) with 11-16 expected function results each, and one spatial-index table (4-8 points, or points and rectangles, over {0,1,2,5}) with 3 ST_Intersects / ST_Within queries run on the indexed table and on the twin; non-trivial / distinct = distinct WKT texts among the sampled geometries (counted by the driver); predicate laws over all points x rectangle pairs of {0,1,2,5} checked by TLC (%d states)" % (rep["cases"], r.distinct),
            "samples": rep["samples"][:4] or ["none"],
            "cases": rep["cases"], "function_checks": rep["extra"]["checks"], "index_queries": nidx, "index_plans": plans,
            "geometry_kinds": kinds, "disagreements": len(rep["mismatches"]), "law_states": r.distinct,
        }, time.time() - t0, violations=len(v.violations),
            assumptions=["partial claim: integer coordinates |x| <= 1000, SRIDs 0/3857/4326 (reconstructed SRID table), WKT text and structure only",
                         "ST_Within(point, rectangle) follows OGC: boundary points are not within"])
        return rc


def replay(path):
    d = json.load(open(path))["first"]["detail"]
    binp = lib.build("c52")
    with lib.Scratch() as scd:
        p = os.path.join(scd, "case.ndjson")
        lib.write_ndjson(p, [d["case"]])
        rep = lib.run_report([binp, "-in", p])
        for m in rep["mismatches"]:
            print("VIOLATION property=%s replay=%s" % (PID, path))
            print(json.dumps({"sql": m["input"]["sql"], "expected": m["expected"], "got": m["got"]})[:2000])
        return 1 if rep["mismatches"] else 0
