"""C01 — query results do not depend on the physical plan chosen.
Every generated join query is executed under many steerings (default cost model, seeded random
cost models installed through the public Analyzer.Coster field, join-order / join-algorithm hints);
TLC validates EVERY execution against the query's meaning (SQLSem), hence against each other."""
import lib, sqlcommon as sc

PID = "C01"
META = {
    "property_id": PID,
    "level": "model_checking",
    "technique": "TLA+ query-meaning spec SQLSem.tla; each query executed under default, hinted and seeded random cost models (distinct physical plans by plan fingerprint); TLC trace validation of every execution against the one meaning",
    "text": "For each generated multi-way join query (inner/left/right/cross, subqueries, filters, aggregates, optional ORDER BY/LIMIT) over generated tables and index layouts, the engine is steered to different physical plans (measured: distinct DebugString fingerprints per query); TLC decides for every execution whether its rows are an acceptable result of the query's meaning, so any plan-dependent result is rejected whichever plan is wrong.",
    "note": "Plans reachable through hints and the pluggable coster only; interpreted fragment of SQLSem (ints/strings, _bin/_ci); trusted: TLC, renderer/normaliser.",
}


def check(tier):
    ndb, nq, var = (18, 16, 3) if tier == "quick" else (150, 20, 10)
    gen_args = ["-mode", "c01", "-seed", str(lib.seed()), "-dbs", str(ndb), "-queries", str(nq), "-depth", "2", "-variants", str(var)]
    return sc.driver_check(PID, tier, gen_args,
                           "seeded random databases (3 tables, <=6 rows, random PK/secondary indexes) x join queries; each executed under default + %d random cost models + up to 10 hint sets; non-trivial = at least 2 distinct plan fingerprints were executed for the query" % var,
                           chunk=12 if tier == "quick" else 40)


def replay(path):
    return sc.replay_case(PID, path)
