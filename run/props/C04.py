"""C04 — ORDER BY output is ordered and LIMIT/OFFSET select the right slice.
Spec: spec/SQLSem.tla (ResultOK: sorted under OrdCmp per key type/collation with NULL lowest, i.e.
NULLs first for ASC and last for DESC; prescribed length; the i-th sort key equals the (offset+i)-th
key of the sorted full result; bag containment — necessary and sufficient for "positions m+1..m+n of
SOME valid ordering", so ties never alarm).
Binding B: harness/cmd/c04 generates key lists (mixed ASC/DESC, expression keys, _bin/_ai_ci strings,
NULLs, ties) with LIMIT/OFFSET incl. 0, 1 and beyond the end over tables whose keys do or do not
provide the order, records the plan class (Sort / TopN / index order) and every result; TLC validates
every recorded result (spec/Trace_Query.tla).
Binding A: spec/MC_Order.tla enumerates tables x key lists x (limit, offset), checks on the
specification that the acceptance test is neither vacuous nor too strict, and emits cases that the
driver executes on the engine (over several index layouts); validated the same way."""
import json, os, time
import concurrent.futures as cf
import lib, sqlcommon as sc

PID = "C04"
META = {
    "property_id": PID,
    "level": "model_checking",
    "technique": "TLA+ query-meaning spec SQLSem.tla (ResultOK = sortedness + slice + bag containment, ties open); TLC trace validation of every recorded engine result; TLC enumeration MC_Order.tla (tables x key lists x LIMIT/OFFSET) checking the acceptance test itself and emitting cases executed on the engine",
    "text": "For generated ORDER BY key lists (1-3 keys, mixed ASC/DESC, plain columns and expressions, INT and VARCHAR keys under utf8mb4_0900_bin and utf8mb4_0900_ai_ci over [0-9A-Za-z ], NULLs, duplicates) with LIMIT in {0,1,..,100} and OFFSET up to beyond the end, over single tables, DISTINCT, joins (incl. self-joins), and GROUP BY, on tables with primary keys / secondary indexes that do or do not provide the order, TLC decides for every executed query whether the engine's row sequence is sorted, has the prescribed length, carries at position i the sort key of position offset+i of the sorted full result and is contained in the full result as a bag. The plan class of every case (Sort, TopN heap, index order forward / reverse) is recorded and reported; TLC additionally enumerates all tables of <= 4 rows over {NULL,0,1}^2 x all key lists of 1-2 keys x all (limit, offset) <= 5 (sampled in the quick tier, complete in the thorough tier for the specification laws) and the emitted cases are executed on the engine over six index layouts.",
    "note": "Interpreted fragment only (int32-safe integers, strings over [0-9A-Za-z ], sort keys always in the select list so the result row carries them). OFFSET without LIMIT is not generated (LIMIT 18446744073709551615 panics: C10's subject). Three open findings (DISTINCT + ORDER BY <ordinal>; sort elimination through the index of another instance of a self-joined table; sort elimination over an outer merge join for a key of the NULL-supplying side) are replayed as witnesses on every run; the generator uses ORDER BY <alias> in those shapes most of the time. Trusted: TLC, the SQL renderer and value normaliser in harness/lib (representation only).",
    "design_ref": "§3.1, §7 C04",
}

PROCS = int(os.environ.get("VERIF_PROCS", "0")) or None      # validation processes (default: cores - 2)

LAYOUTS = [[], [[0]], [[1]], [[0, 1]], [[1, 0]], [[0], [1]]]


def sig(ev):
    return sc.signature(PID, ev) + "|plan:" + (ev.get("plan") or "?")


def detail(ev, m=None):
    d = {"sql": ev.get("sql"), "got": ev.get("res"), "plan_class": ev.get("plan"), "id": ev.get("id"), "seed": lib.seed(),
         "case_file": ev.get("case_file")}
    if m is not None:
        d["expected_rows"] = sc.pretty_rows(m.get("exp", []))
    return d


def write_witnesses(src):
    """The recorded witnesses of every C04 finding (open and fixed), renumbered from 9000000."""
    fs = [f for f in lib.load_findings(PID) if f.get("witness_file")]
    owner = {}
    with open(src, "w") as out:
        for k, f in enumerate(fs):
            for line in open(os.path.join(lib.VERIF, f["witness_file"])):
                if not line.strip():
                    continue
                e = json.loads(line)
                if "id" in e:
                    e["id"] = 9000000 + k * 1000 + e["id"] % 1000
                    owner[e["id"]] = f["id"]
                out.write(json.dumps(e) + "\n")
    return owner


def mc_order_cases(n, path, id_base=1000000):
    """TLC (spec/MC_Order.tla, simulate mode) draws n (table, key list, limit, offset) points, checks
    the laws of the acceptance test on each and emits 4 queries per point; written as db/q events for
    `c04 -mode exec`, each table under one of six index layouts."""
    r = lib.tlc("MC_Order", "MC_Order_emit.cfg", workers=1, timeout=900, simulate="num=%d" % n, depth=3,
                tlc_seed=lib.seed(), heap="3g")
    if r.error or r.invariant_violated:
        raise lib.Inconclusive("MC_Order: %s\n%s" % (r.error or r.invariant_violated, r.out[-2000:]))
    cases = r.jsons("CASE")
    if len(cases) < n * 0.9:
        raise lib.Inconclusive("MC_Order emitted only %d cases" % len(cases))
    nq = 0
    cols = [{"ty": "i", "coll": "none", "notnull": False}] * 2
    with open(path, "w") as f:
        for k, c in enumerate(cases):
            lay = LAYOUTS[(k + lib.seed()) % len(LAYOUTS)]
            schema = [{"name": "t", "cols": cols, "pk": [], "indexes": lay, "unique": [False] * len(lay), "rows": c["tb"]}]
            f.write(json.dumps({"ev": "db", "db": {"t": {"w": 2, "rows": c["tb"]}}, "schema": schema}) + "\n")
            seen = set()
            for j, q in enumerate(c["qs"]):
                key = json.dumps(q, sort_keys=True)
                if key in seen:
                    continue
                seen.add(key)
                nq += 1
                if (k + j) % 2:
                    q["ordalias"] = True          # rendering form only: ORDER BY x1 instead of ORDER BY 1
                f.write(json.dumps({"ev": "q", "id": id_base + nq, "q": q, "shape": "enumerated"}) + "\n")
    return nq, r


def corrupted_events(trace):
    """Sensitivity probes (ids 8000000+): a recorded good result with >= 2 rows whose first sort key is an
    integer differing between the first and the last row, (a) reversed and (b) one row short; the
    validator must reject both, else the run proves nothing."""
    cur_db, out = None, []
    for line in open(trace):
        if line.startswith('{"ev":"db"'):
            cur_db = line
            continue
        e = json.loads(line)
        rows = (e.get("res") or {}).get("rows") or []
        if e.get("ev") != "q" or e["res"]["kind"] != "rows" or len(rows) < 2 or not e["q"].get("order"):
            continue
        k = e["q"]["order"][0]["i"] - 1
        a, b = rows[0][k], rows[-1][k]
        if a.get("t") == "i" and b.get("t") == "i" and a["v"] != b["v"]:
            r1, r2 = json.loads(line), json.loads(line)
            r1["id"], r2["id"] = 8000001, 8000002
            r1["res"]["rows"] = rows[::-1]
            r2["res"]["rows"] = rows[:-1]
            out = [cur_db, json.dumps(r1) + "\n", json.dumps(r2) + "\n"]
            break
    return out


def confirm(binp, run_args, bad, scd, tag):
    again = sc.confirm_batch(binp, PID, run_args, bad, scd, tag=tag)
    for ev in bad:
        if ev["id"] not in again:
            raise lib.Inconclusive("mismatch did not reproduce in isolation: %s" % ev.get("sql"))


def add_classes(total, rep):
    for k in ("plan_classes", "plan_classes_nontrivial", "nontrivial_reasons"):
        for c, n in (rep["extra"].get(k) or {}).items():
            total.setdefault(k, {})
            total[k][c] = total[k].get(c, 0) + n


def check(tier):
    t0 = time.time()
    quick = tier == "quick"
    ndb, nq = (24, 25) if quick else (400, 30)
    nmc = 120 if quick else 3000
    binp = lib.build("c04")
    v = lib.Verdict(PID)
    cov_extra = {}
    with lib.Scratch() as scd:
        cases = os.path.join(scd, "mc-cases.ndjson")
        with cf.ThreadPoolExecutor(max_workers=2) as ex:
            # binding A: TLC draws the enumerated cases while the generated cases are executed
            fut = ex.submit(mc_order_cases, nmc, cases)
            wsrc, wtrace = os.path.join(scd, "witnesses-in.ndjson"), os.path.join(scd, "witnesses-out.ndjson")
            owner = write_witnesses(wsrc)
            wrep = lib.run_report([binp, "-mode", "exec", "-in", wsrc, "-out", wtrace]) if owner else {"cases": 0}
            gen_args = ["-mode", "gen", "-seed", str(lib.seed()), "-dbs", str(ndb), "-queries", str(nq)]
            trace = os.path.join(scd, "trace.ndjson")
            rep = lib.run_report([binp] + gen_args + ["-out", trace], timeout=3000)
            lib.log("[%s] generated %d cases in %.1fs" % (PID, rep["cases"], time.time() - t0))
            nmcq, rmc = fut.result()
        mctrace = os.path.join(scd, "mc-trace.ndjson")
        mc_args = ["-mode", "exec", "-in", cases]
        mrep = lib.run_report([binp] + mc_args + ["-out", mctrace], timeout=1800)
        lib.log("[%s] enumerated cases executed: %d queries, %.1fs" % (PID, nmcq, time.time() - t0))

        # one validation over everything recorded (witnesses 9000000+, enumerated 1000000+, generated 1..)
        allp = os.path.join(scd, "all.ndjson")
        nlines = 0
        with open(allp, "w") as out:
            for p in ([wtrace] if owner else []) + [mctrace, trace]:
                for line in open(p):
                    out.write(line)
                    nlines += 1
            probes = corrupted_events(trace)
            for line in probes:
                out.write(line)
                nlines += 1
        procs = PROCS or max(1, lib.NCPU - 2)
        mms, states = sc.validate_trace(allp, chunk=max(40, min(400, nlines // procs + 1)), procs=procs)
        lib.log("[%s] validated %d events, %d mismatches, %.1fs" % (PID, nlines, len(mms), time.time() - t0))
        evs = sc.load_events(allp)
        caught = {evs[m["line"]]["id"] for m in mms if 8000000 <= evs[m["line"]]["id"] < 9000000}
        problem = None          # vacuity findings end the run as inconclusive unless a violation was reproduced
        if not probes or caught != {8000001, 8000002}:
            problem = "sensitivity probe: the validator accepted a corrupted result (caught %s of %d probe lines)" % (sorted(caught), len(probes))
        mms = [m for m in mms if not 8000000 <= evs[m["line"]]["id"] < 9000000]
        wmm = [m for m in mms if evs[m["line"]]["id"] >= 9000000]
        mmm = [m for m in mms if 1000000 <= evs[m["line"]]["id"] < 9000000]
        gmm = [m for m in mms if evs[m["line"]]["id"] < 1000000]
        for m in wmm:          # a witness is a single recorded case: executed alone already
            ev = evs[m["line"]]
            d = detail(ev, m)
            d["witness_of"] = owner.get(ev.get("id"))
            v.add(sig(ev), d)
        confirm(binp, mc_args, [evs[m["line"]] for m in mmm], scd, "case-mc")
        for m in mmm:
            ev = evs[m["line"]]
            v.add(sig(ev) + "|enumerated", detail(ev, m))
        confirm(binp, gen_args, [evs[m["line"]] for m in gmm], scd, "case")
        for m in gmm:
            ev = evs[m["line"]]
            d = detail(ev, m)
            d["gen_args"] = gen_args
            v.add(sig(ev), d)

        laws = None
        if not quick:
            laws = lib.tlc("MC_Order", "MC_Order_laws.cfg", workers=procs, timeout=7200, heap="8g")
            lib.tlc_ok(laws, "MC_Order laws")
            cov_extra.update({"laws_states": laws.distinct, "laws_wall_s": round(laws.wall, 1)})

        tot = {}
        add_classes(tot, rep)
        add_classes(tot, mrep)
        pc = tot.get("plan_classes", {})
        missing = [c for c in ("sort", "topn", "index", "index-reverse") if not pc.get(c)]
        nontrivial = rep["nontrivial"] + mrep["nontrivial"]
        ncases = rep["cases"] + mrep["cases"]
        if missing or nontrivial < ncases * 0.15:
            problem = problem or "vacuous run: plan classes %s (missing %s), %d non-trivial of %d cases" % (pc, missing, nontrivial, ncases)
        for rp in (rep, mrep):
            if rp["extra"].get("aborted"):
                problem = problem or "the driver stopped early: " + rp["extra"]["aborted"]
        if problem and not v.violations:
            raise lib.Inconclusive(problem)
        rc = v.finish()
        cov = {
            "states": states + (laws.distinct if laws else 0), "transitions": states + (laws.generated if laws else 0),
            "traces_validated_against_impl": ncases + wrep["cases"],
            "samples": rep["samples"] or ["(no sample met the sampling rule this run)"],
            "evaluations": ncases + wrep["cases"], "distinct_nontrivial": nontrivial,
            "rule": "generated databases (2 tables, <= 8 rows, NULLs, duplicates, _bin/_ai_ci strings, random PK / secondary indexes) x queries of 5 shapes (single table, key = index prefix, two-instance join incl. self-join, join tree, GROUP BY) with ORDER BY over select-list ordinals/aliases and LIMIT/OFFSET, plus TLC-enumerated (table, key list, limit, offset) points executed over 6 index layouts; non-trivial = the result has >= 2 rows and a NULL or a tie among its sort keys, or LIMIT/OFFSET cut inside the unsliced result; every result validated by TLC against SQLSem!ResultOK",
            "plan_classes": pc, "plan_classes_nontrivial": tot.get("plan_classes_nontrivial"),
            "nontrivial_reasons": tot.get("nontrivial_reasons"), "shapes": rep["extra"].get("shapes"),
            "result_kinds": rep["extra"].get("result_kinds"),
            "generated_cases": rep["cases"], "mc_points_drawn": nmc, "mc_queries_executed": mrep["cases"],
            "mc_tlc_wall_s": round(rmc.wall, 1), "mc_mismatches": len(mmm),
            "corrupted_results_rejected": len(caught),
            "mismatches_reproduced": len(gmm), "witness_cases": wrep["cases"], "witness_mismatches": len(wmm),
        }
        cov.update(cov_extra)
        lib.write_evidence(PID, tier, "model_checking", cov, time.time() - t0, violations=len(v.violations),
                           assumptions=["TLC and the TLA+ community modules are sound",
                                        "harness/lib renderer and value normaliser change representation only"])
        return rc


def replay(path):
    binp = lib.build("c04")
    if path.endswith(".json"):
        path = json.load(open(path))["first"]["detail"]["case_file"]
    with lib.Scratch() as scd:
        out = os.path.join(scd, "replay.ndjson")
        lib.run_report([binp, "-mode", "exec", "-in", path, "-out", out])
        mms, _ = sc.validate_trace(out, chunk=1000, procs=1)
        evs = sc.load_events(out)
        for m in mms:
            print("VIOLATION property=%s replay=%s" % (PID, path))
            print(json.dumps({"sql": evs[m["line"]].get("sql"), "got": evs[m["line"]].get("res"), "expected": m.get("exp")})[:2000])
        return 1 if mms else 0
