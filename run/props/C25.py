"""C25 — integer and decimal arithmetic is exact or reports out-of-range.
Spec: spec/DecArith.tla (arbitrary-precision decimal arithmetic on digit sequences + the result rule of
+ - * unary- DIV % /).  TLC (a) checks the digit arithmetic against its native integers on all small
operand pairs (MC_DecArith), (b) enumerates operand pairs of every integer width/signedness and DECIMAL
operands x operators with the outcomes the property allows (MC_DecArithCases).  Binding A: every case is
executed on the engine as constants (CAST) and through table columns; the canonical text of the engine's
answer must be string-equal to one of the outcomes TLC printed."""
import json, os, time
import lib, valcommon as vc

PID = "C25"
META = {
    "property_id": PID,
    "level": "exploration",
    "technique": "TLA+ spec DecArith.tla (schoolbook arithmetic on decimal digit sequences, SQL result-type rule) model-checked against TLC's native integers on small operands; TLC enumerates boundary operand pairs x operators with the allowed outcomes; every case executed on the real engine (binding A) and compared by string equality",
    "text": "For + - * unary-minus DIV % on integer operands of every width and signedness (as CAST constants and as table columns) and DECIMAL(p,s) operands (+ - * DIV %, mixed with integers), and x/0, x DIV 0, x % 0: the engine's result must be the exact value when it fits the result type (signed BIGINT, unsigned when an operand is unsigned), and the out-of-range error or still the exact value otherwise; division by zero NULL; DIV / % truncate toward zero, % has the dividend's sign and an integer zero is never negative; DECIMAL results exact with scale max (+ -) / sum (*), also in the declared result type. Compared: the Go value and the text a client receives (Type.SQL of the result column).",
    "note": "TLA+ acts as an arithmetic oracle here (no engine state is explored) -> level exploration. Out of scope: rounding of '/', floating point, DECIMAL results beyond 65 digits, literal-typed operands (operands are CASTs or columns). Trusted: TLC, the 60-line canonicaliser in harness/cmd/c25 (Go value -> decimal text, error -> class).",
    "design_ref": "§7 C25",
}

KEYF = ("style", "op", "a", "b")


def key_of(c):
    a, b = c["a"], c["b"]
    if c["op"] == "neg":
        return "%s|neg|%s:%s(%d,%d)" % (c["style"], a["t"], a["lit"], a["p"], a["s"])
    return "%s|%s|%s:%s(%d,%d)|%s:%s(%d,%d)" % (c["style"], c["op"], a["t"], a["lit"], a["p"], a["s"], b["t"], b["lit"], b["p"], b["s"])


def enumerate_cases(tier):
    """Run the TLC jobs of this tier; returns (cases, stats)."""
    seed = lib.seed()
    jobs = {}
    if tier == "quick":
        jobs["laws"] = dict(module="MC_DecArith", cfg="MC_DecArith_lawsq.cfg", workers=vc.workers(0.3), timeout=900, heap="3g")
        jobs["core"] = dict(module="MC_DecArithCases", cfg="MC_DecArithCases_core.cfg", workers=vc.workers(0.3), timeout=900, heap="3g")
        for i in range(3):
            jobs["sim%d" % i] = dict(module="MC_DecArithCases", cfg="MC_DecArithCases_sim.cfg", workers=1, timeout=900,
                                     simulate="num=350", depth=3, tlc_seed=seed * 16 + i, heap="2g")
        res = vc.tlc_jobs(jobs, max_parallel=5)
    else:
        # |x|, |y| <= 500 (1M states); MC_DecArith_laws999.cfg is the same check for |values| < 1000 (4M states, not run by default)
        jobs["laws"] = dict(module="MC_DecArith", cfg="MC_DecArith_laws.cfg", workers=vc.workers(0.3), timeout=6000, heap="4g", coverage=True)
        res = {}
        fam = {f: dict(module="MC_DecArithCases", cfg="MC_DecArithCases_%s.cfg" % f, workers=vc.workers(0.2), timeout=6000,
                       heap="4g", coverage=True) for f in ("cast", "col", "dec")}
        jobs.update(fam)
        jobs["core"] = dict(module="MC_DecArithCases", cfg="MC_DecArithCases_core.cfg", workers=vc.workers(0.15), timeout=3000, heap="3g")
        for i in range(2):
            jobs["sim%d" % i] = dict(module="MC_DecArithCases", cfg="MC_DecArithCases_sim.cfg", workers=1, timeout=3000,
                                     simulate="num=1000", depth=3, tlc_seed=seed * 16 + i, heap="2g")
        res = vc.tlc_jobs(jobs, max_parallel=7)
        for name in ("laws", "cast", "col", "dec"):
            z = res[name].coverage_zero()
            if z:
                raise lib.Inconclusive("vacuous: TLC job %s never took %s" % (name, z))
    cases, seen, per = [], set(), {}
    for name, r in res.items():
        if name == "laws":
            continue
        cs = r.jsons("CASE")
        per[name] = len(cs)
        for c in cs:
            k = key_of(c)
            if k not in seen:
                seen.add(k)
                cases.append(c)
    laws = res["laws"]
    if laws.distinct < 1000:
        raise lib.Inconclusive("law check explored only %d states" % laws.distinct)
    stats = {"states": laws.distinct + sum(res[n].distinct for n in res if n != "laws" and not n.startswith("sim")),
             "law_states": laws.distinct, "cases_per_job": per,
             "tlc_wall_s": {n: round(r.wall, 1) for n, r in res.items()},
             "exhaustive_families": [n for n in res if n not in ("laws",) and not n.startswith("sim")]}
    return cases, stats


def run_cases(binp, cases, scd, name="cases"):
    p = os.path.join(scd, name + ".ndjson")
    lib.write_ndjson(p, cases)
    return lib.run_report([binp, "-file", p], timeout=3000)


def binding_selftest(binp, cases, rep, scd):
    """Binding is demonstrated: an agreeing case with a falsified expectation must be reported."""
    bad = {m["case"] for m in rep["mismatches"]}
    for i, c in enumerate(cases):
        if i not in bad and c["exp"] not in ("NULL", "OutOfRange") and len(c["exact"]) > 3:
            c2 = json.loads(json.dumps(c))
            c2["accept"] = ["12345"]
            r2 = run_cases(binp, [c2], scd, "selftest")
            if not r2["mismatches"]:
                raise lib.Inconclusive("binding self-test: a falsified expectation was not reported")
            return
    raise lib.Inconclusive("binding self-test: no agreeing non-trivial case found")


def check(tier):
    t0 = time.time()
    binp = lib.build("c25")
    v = lib.Verdict(PID)
    with lib.Scratch() as scd:
        cases, stats = enumerate_cases(tier)
        floor = 2500 if tier == "quick" else 30000
        if len(cases) < floor:
            raise lib.Inconclusive("only %d cases enumerated" % len(cases))
        lib.log("[C25] %d cases from TLC in %.1fs" % (len(cases), time.time() - t0))
        rep = run_cases(binp, cases, scd)
        if rep["extra"]["operands_not_materialised"]:
            raise lib.Inconclusive("operands could not be materialised: %s" % rep["extra"]["operand_problems"])
        binding_selftest(binp, cases, rep, scd)
        bad = [m["input"] for m in rep["mismatches"]]
        again = vc.confirm_cases(binp, bad, scd, key_of)
        kept = 0
        for m in rep["mismatches"]:
            k = key_of(m["input"])
            if m["signature"] not in again.get(k, []):
                raise lib.Inconclusive("mismatch did not reproduce in isolation: %s %s" % (m["signature"], m["got"]))
            detail = {"sql": m["got"]["sql"], "engine": m["got"]["raw"], "wire": m["got"]["wire"], "declared_type": m["got"]["type"],
                      "accepted": m["expected"]["accept"], "mysql": m["expected"]["mysql"], "case": m["input"]}
            if v.add(m["signature"], detail) == "violation" and kept < 8:
                kept += 1
                detail["case_file"] = vc.keep_replay(PID, "case-seed%d-%d.json" % (lib.seed(), kept), m["input"])
        # witnesses of the recorded findings: each must have been enumerated (and still disagree)
        mism_keys = {key_of(m["input"]): m["signature"] for m in rep["mismatches"]}
        all_keys = {key_of(c) for c in cases}
        gone = []
        for f, ws in vc.load_witnesses(PID):
            for w in ws:
                if w["key"] not in all_keys:
                    raise lib.Inconclusive("witness %s of finding %s was not enumerated this run" % (w["key"], f["id"]))
                if w["key"] not in mism_keys:
                    gone.append(f["id"] + ": " + w["key"])
        for g in gone:
            print("NOTE: property=C25 witness no longer disagrees (finding fixed?): " + g)
        rc = v.finish()
        ex = rep["extra"]
        cov = {
            "evaluations": rep["cases"], "distinct_nontrivial": rep["nontrivial"],
            "rule": "cases = distinct (style, operator, typed operand pair) printed by TLC from MC_DecArithCases: "
                    + ("exhaustive 'core' family (64-bit boundaries as CAST constants, boundary columns) + 3x350 seeded random draws over all families"
                       if tier == "quick" else
                       "exhaustive families cast (boundary values {0,+-1,+-2,MIN,MIN+1,MAX-1,MAX,MAX+1} of all 10 integer types as SIGNED/UNSIGNED constants), col (columns of the 10 integer types over their own boundaries), dec (DECIMAL(p,s) operands up to 29 digits, mixed with integers) x {+,-,*,DIV,%,/ by zero, unary -}")
                    + "; non-trivial = the exact result is outside -4..4 (incl. NULL / OutOfRange cases); each case executed once on the engine, Go value and client text compared with TLC's accepted outcomes by string equality",
            "samples": rep["samples"] or [{"sql": m["got"]["sql"], "engine": m["got"]["raw"], "accept": m["expected"]["accept"]} for m in rep["mismatches"][:2]],
            "states": stats["states"], "transitions": stats["states"],
            "traces_validated_against_impl": rep["cases"],
            "exhaustive": tier == "thorough",
            "law_states_checked": stats["law_states"], "cases_per_tlc_job": stats["cases_per_job"], "tlc_wall_s": stats["tlc_wall_s"],
            "by_operator": ex["by_op"], "by_family": ex["by_family"], "by_expected_outcome": ex["by_expected"],
            "engine_statements": ex["statements"], "disagreements_by_label": ex["by_label"],
            "disagreements_reproduced": len(rep["mismatches"]), "known_finding_occurrences": {k: len(x) for k, x in v.known.items()},
            "witnesses_gone": gone,
        }
        lib.write_evidence(PID, tier, "exploration", cov, time.time() - t0, violations=len(v.violations),
                           assumptions=["operands are CAST(<literal> AS SIGNED|UNSIGNED|DECIMAL(p,s)) or columns; the harness first checks that each operand evaluates / reads back to the intended value",
                                        "an out-of-range result may be reported as the exact value in a wider type or as an out-of-range error (both accepted, as the property states); MySQL's own choice is recorded as 'mysql'",
                                        "'/' only for the division-by-zero rule; DECIMAL results stay below 65 digits",
                                        "the client text is Type.SQL of the declared result column type, the conversion server/handler.go applies"])
        return rc


def replay(path):
    binp = lib.build("c25")
    obj = json.load(open(path))
    case = obj.get("first", {}).get("detail", {}).get("case") or obj
    with lib.Scratch() as scd:
        rep = run_cases(binp, [case], scd, "replay")
        for m in rep["mismatches"]:
            print("VIOLATION property=C25 replay=%s" % path)
            print(json.dumps({"signature": m["signature"], "got": m["got"], "expected": m["expected"]}))
        return 1 if rep["mismatches"] else 0
