"""C42 — read-only modes block every write and nothing else.
Spec: spec/ReadOnlyModes.tla (statement kinds with a class written from the SQL definition of each
statement; DML shape kinds x table features (TabsOf); rule Expect/Judge).  TLC enumerates
mode x kind x table feature and model-checks the rule; binding A:
harness/cmd/c42 executes every representative statement of every kind on a freshly populated engine
under the mode and on an identically populated read-write engine; spec/Trace_ReadOnly.tla judges
every recorded observation."""
import json, os, re, shutil, time, concurrent.futures as cf
import lib

META = {
    "property_id": "C42",
    "level": "model_checking",
    "technique": "TLA+ spec ReadOnlyModes.tla (mode x statement-kind rule, model-checked); every (mode, kind) case enumerated by TLC is executed with all its representative statements on the real engine; outcome class + digest of all data and catalog + result equality with a read-write twin judged by TLC (Trace_ReadOnly.tla)",
    "text": "TLC enumerates every triple of a read-only mode (engine configured read-only, server locked, READ ONLY transaction, read-only database, none), a statement kind (derived from the planbuilder's statement switch; class writes/reads/unjudged written from the SQL definition of the statement, not from the engine's IsReadOnly flags) and, for the DML shape kinds, a table feature. Shape kinds are the statement shapes the planner sends down paths of their own: DELETE without WHERE (the DELETE -> TRUNCATE rewrite), DELETE / UPDATE with LIMIT / ORDER BY, UPDATE without WHERE, INSERT .. VALUES / SELECT / IGNORE / ON DUPLICATE KEY UPDATE, REPLACE, multi-table UPDATE / DELETE, LOAD DATA, the same through PREPARE / EXECUTE, TRUNCATE TABLE (DDL), each on a plain, a keyless, an AUTO_INCREMENT, a trigger, a foreign-key parent and a foreign-key child table; CALL of procedures whose body writes is a write kind of its own. Each of the 262 representative statements (26 of them once per table feature) is run on a freshly populated engine under the mode and on an identically populated read-write engine; a digest of all tables, SHOW CREATE TABLE, views, triggers, routines, events, databases, accounts and grants is taken before and after. TLC judges: a write must be refused with a read-only error and leave the digest unchanged; a write outside the mode's scope and every read must behave exactly as in the read-write engine.",
    "note": "unjudged kinds (temporary tables, ANALYZE, CALL of a procedure that only reads, LOCK TABLES, FLUSH, transaction control, SELECT INTO, named locks, KILL, SET GLOBAL, PREPARE/EXPLAIN of a write, replication) are executed and recorded but never compared; the memory backend's own session cannot commit against memory.ReadOnlyDatabase, so mode ro_db commits through a provider yielding the wrapped database and mode ro_db_mem (memory's own pairing) is exercised for reads only; two shapes the engine does not support at all on one table feature (UPDATE JOIN on a keyless table, multi-table DELETE on a trigger table) are left out there; trusted: TLC, the outcome classification by error text and the digest in harness/cmd/c42",
    "design_ref": "§7 C42",
}

PID = "C42"


def msg_class(msg):
    m = re.sub(r"[`'\"][^`'\"]*[`'\"]", "_", msg or "")
    m = re.sub(r"\d+", "N", m)
    return m.strip().split("\n")[0][:60]


def signature(ev, mm):
    out = ev["out"]
    if out in ("error", "panic"):
        out += ":" + msg_class(ev["msg"])
    return "C42|%s|%s|%s/%s|out=%s|changed=%d|same=%d|tab=%s" % (ev["mode"], ev["kind"], mm.get("class", "?"), mm.get("family", "?"),
                                                               out, int(ev["changed"]), int(ev["same"]), ev.get("tab", "any"))


def enumerate_cases(path):
    r = lib.tlc("ReadOnlyModes", "ReadOnlyModes_enum.cfg", workers=2, timeout=300)
    lib.tlc_ok(r, "ReadOnlyModes enumeration")
    seen, cases = set(), []
    for t in r.jsons("TR"):
        key = (t["mode"], t["kind"], t["tab"])
        if key in seen:
            continue
        seen.add(key)
        # the memory backend's own read-only pairing cannot even run the digest queries: reads only
        if t["mode"] == "ro_db_mem" and t["class"] != "reads":
            continue
        cases.append(t)
    cases.sort(key=lambda c: (c["mode"], c["class"], c["kind"], c["tab"]))
    lib.write_ndjson(path, cases)
    return r, cases


def validate(obs_path, sc, tag):
    d = os.path.join(sc, "tv-" + tag)
    os.makedirs(d, exist_ok=True)
    shutil.copy(obs_path, os.path.join(d, "trace.ndjson"))
    r = lib.tlc("Trace_ReadOnly", "Trace_ReadOnly.cfg", workdir=d, workers=1, timeout=600, heap="2g")
    if r.error or not r.completed or r.postcondition_failed:
        raise lib.Inconclusive("trace validation did not complete: %s\n%s" % (r.error, r.out[-2000:]))
    evs = lib.read_ndjson(obs_path)
    mms = [(evs[m["l"] - 1], m) for m in r.jsons("MM")]
    incs = [evs[m["l"] - 1] for m in r.jsons("INC")]
    return evs, mms, incs, r


SHARDS = 6


def run_cases(binp, cases_path, sc, tag, only=None, shards=1):
    """Run the harness (in `shards` parallel processes, split by representative) and merge by id."""
    out = os.path.join(sc, "obs-%s.ndjson" % tag)

    def one(i):
        o = "%s.%d" % (out, i)
        args = [binp, "-in", cases_path, "-out", o, "-shard", "%d/%d" % (i, shards)]
        if only:
            args += ["-only", ",".join(map(str, sorted(only)))]
        return o, lib.run_report(args, timeout=1500)

    with cf.ThreadPoolExecutor(max_workers=shards) as ex:
        parts = list(ex.map(one, range(shards)))
    evs, rep = [], None
    for o, r in parts:
        evs += lib.read_ndjson(o)
        if rep is None:
            rep = r
        else:
            rep["cases"] += r["cases"]
            rep["nontrivial"] += r["nontrivial"]
            rep["samples"] += r["samples"]
            for k2, n in r["extra"]["outcomes"].items():
                rep["extra"]["outcomes"][k2] = rep["extra"]["outcomes"].get(k2, 0) + n
    evs.sort(key=lambda e: e["id"])
    lib.write_ndjson(out, evs)
    return out, rep


def judge_and_confirm(binp, cases_path, sc, tag, v, extra=None, shards=1):
    obs, rep = run_cases(binp, cases_path, sc, tag, shards=shards)
    evs, mms, incs, r = validate(obs, sc, tag)
    if mms:
        ids = {ev["id"] for ev, _ in mms}
        obs2, _ = run_cases(binp, cases_path, sc, tag + "-confirm", only=ids)
        _, mms2, _, _ = validate(obs2, sc, tag + "-confirm")
        again = {ev["id"] for ev, _ in mms2}
        for ev, m in mms:
            if ev["id"] not in again:
                raise lib.Inconclusive("mismatch did not reproduce in isolation: %s %s %s" % (ev["mode"], ev["rep"], ev["sql"]))
            det = {"mode": ev["mode"], "kind": ev["kind"], "tab": ev.get("tab", "any"), "rep": ev["rep"], "sql": ev["sql"], "out": ev["out"], "msg": ev["msg"],
                   "changed": ev["changed"], "diff": ev.get("diff"), "rw_out": ev["rw_out"], "same": ev["same"], "expected": m.get("exp")}
            if extra:
                det.update(extra)
            v.add(signature(ev, m), det)
    return evs, mms, incs, rep, r


def witness_cases():
    """The (mode, kind) cases of every finding's witness file, tagged with the finding id."""
    res = []
    for f in lib.load_findings(PID):
        if f.get("witness_file"):
            for c in lib.read_ndjson(os.path.join(lib.VERIF, f["witness_file"])):
                c["witness_of"] = f["id"]
                res.append(c)
    return res


def check(tier):
    t0 = time.time()
    binp = lib.build("c42")
    v = lib.Verdict(PID)
    with lib.Scratch() as sc:
        cases_path = os.path.join(sc, "cases.ndjson")
        r, cases = enumerate_cases(cases_path)
        table = json.loads(lib.run([binp, "-list"], check=True).stdout)
        kinds = {c["kind"] for c in cases}
        missing = sorted(kinds - set(table))
        stray = sorted(set(table) - kinds)
        if missing or stray:
            raise lib.Inconclusive("kind table and representative table disagree: no representative for %s; unknown kinds %s" % (missing, stray))
        # the witnesses of the known findings are appended to the enumerated cases (same run, same judge)
        wcs = witness_cases()
        lib.write_ndjson(cases_path, cases + wcs)
        evs, mms, incs, rep, rv = judge_and_confirm(binp, cases_path, sc, "main", v, shards=SHARDS)
        wof = {len(cases) + i: c["witness_of"] for i, c in enumerate(wcs)}
        bad_w = {wof[e["case"]] for e, _ in mms if e["case"] in wof}
        nw = sum(1 for e, _ in mms if e["case"] in wof)
        for fid in sorted(set(wof.values()) - bad_w):
            lib.log("[C42] NOTE: the witness of %s no longer disagrees with the specification" % fid)
        lib.log("[C42] %d observations, %d disagreements, %d unusable representatives, %.1fs" % (len(evs), len(mms), len(incs), time.time() - t0))
        if incs:
            raise lib.Inconclusive("representatives that do not show their class on the read-write engine (fix them): %s"
                                   % sorted({"%s: rw=%s/%s %s" % (e["rep"], e["rw_out"], e["rw_changed"], e["rw_msg"][:60]) for e in incs}))
        judged = [e for e in evs if rep and e["mode"] != "none"]
        if len(evs) < 1500 or rep["nontrivial"] < 1000 or sum(1 for e in evs if e.get("tab", "any") != "any") < 500:
            raise lib.Inconclusive("vacuous: only %d observations (%d judged under a read-only mode)" % (len(evs), rep["nontrivial"]))
        rc = v.finish()
        by_class = {}
        for c in cases:
            by_class[c["class"]] = by_class.get(c["class"], 0) + 1
        lib.write_evidence(PID, tier, "model_checking", {
            "states": r.distinct, "transitions": len(cases),
            "traces_validated_against_impl": len(evs),
            "samples": rep["samples"][:3] or evs[:2],
            "exhaustive": True,
            "evaluations": len(evs), "distinct_nontrivial": rep["nontrivial"],
            "rule": "every (mode, statement kind, table feature) triple of the specification's tables (table feature = any for the kinds that name their own tables), every representative statement of the kind, fresh populated engine per execution; non-trivial = a judged (writes or reads) kind under a read-only mode",
            "shape_cases": sum(1 for c in cases if c["tab"] != "any"),
            "shape_observations": sum(1 for e in evs if e.get("tab", "any") != "any"),
            "table_features": sorted({c["tab"] for c in cases}),
            "modes": sorted({c["mode"] for c in cases}), "kinds": len(kinds), "representatives": rep["extra"]["representatives"],
            "cases_by_class": by_class, "outcomes": rep["extra"]["outcomes"],
            "disagreements_reproduced": len(mms), "witness_disagreements": nw,
            "tlc_wall_s": round(r.wall + rv.wall, 1),
        }, time.time() - t0, violations=len(v.violations),
            assumptions=["the error texts 'read only' / 'read-only' / 'locked to writes' identify the engine's read-only refusals",
                         "the digest (all rows, SHOW CREATE TABLE/VIEW, information_schema triggers/routines/events/tables, mysql.user, SHOW GRANTS, role_edges) captures every effect of the representatives",
                         "MySQL rule for READ ONLY transactions: DDL and account statements are refused (ER_CANT_EXECUTE_IN_READ_ONLY_TRANSACTION), not implicitly committed"])
        return rc


def replay(path):
    """Re-run the recorded disagreement (mode + representative) on the current tree."""
    rec = json.load(open(path))
    det = rec["first"]["detail"]
    binp = lib.build("c42")
    with lib.Scratch() as sc:
        cp = os.path.join(sc, "cases.ndjson")
        lib.write_ndjson(cp, [{"mode": det["mode"], "kind": det["kind"], "tab": det.get("tab", "any")}])
        obs, _ = run_cases(binp, cp, sc, "replay")
        evs, mms, incs, _ = validate(obs, sc, "replay")
        bad = [(e, m) for e, m in mms if e["rep"] == det["rep"]]
        for e, m in bad:
            print("VIOLATION property=C42 replay=%s" % path)
            print(json.dumps({"sql": e["sql"], "mode": e["mode"], "out": e["out"], "msg": e["msg"], "changed": e["changed"], "expected": m.get("exp")}))
        return 1 if bad else 0
