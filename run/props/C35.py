"""C35 — clients receive exactly the engine's results over the wire.

Spec: spec/Spool.tla = the result-spooling pipeline of server/handler.go (Reader / Batcher / Sender /
Closer in one errgroup, bounded rowChan / resChan, the tail of doQuery), one action per channel
operation / select arm, with iterator errors, callback errors, iterator stalls + read timeout and an
external cancel (KILL QUERY, disconnect) at any step.  TLC checks order / no loss / no duplication /
batch sizes / `more` flags / error propagation / deadlock freedom (and termination under weak
fairness), and that Spool REFINES the observable specification ObsCb / ObsRet of the same module.

Binding B (spec/Trace_Spool.tla, real BatchSize 128):
  * handler level: harness/cmd/c35 drives the REAL server.Handler (ComQuery, ComMultiQuery,
    ComPrepare + ComStmtExecute) with a recording callback over harness-side row-source tables
    (default and value-row pipelines); every execution must be a behaviour of the observable spec;
  * end to end: TCP server + database/sql clients (text and binary protocol, 1..16 concurrent clients,
    -race build) vs. the in-process engine on a twin database; operator SameOutcome judges.
A model-level counterexample only counts after it was reproduced on the real handler."""
import json, os, random, re, time
from concurrent.futures import ThreadPoolExecutor
import lib

META = {
    "property_id": "C35",
    "level": "model_checking",
    "technique": "TLA+ spec Spool.tla (one action per channel operation / select arm of the spooling pipeline, errgroup semantics, fault and cancel actions) model-checked by TLC (safety, deadlock, liveness, refinement of the observable specification); traces of the real server.Handler and of real TCP clients validated by TLC against Trace_Spool.tla with the real batch size",
    "text": "TLC explores every interleaving of the reader, batcher, sender and closer goroutines of the result-spooling pipeline over bounded channels for every result size up to a bound, every iterator-error position, every callback-error position and an external cancel at every step, and checks that delivered batches are the iterator's rows in order without loss or duplication, every batch but the last is full, flags are passed unchanged, errors are returned, nothing deadlocks and the call terminates; the same specification, at the real batch size, then judges executions recorded from the real handler (result sizes around the 128-row batch boundary, faults and KILL QUERY mid-stream, text / multi-statement / prepared entry points, both pipelines) and, end to end, every statement of concurrent MySQL-protocol clients against the in-process engine's outcome on a twin database (columns, rows in order, affected rows, last insert id, error).",
    "note": "Handler-level traces are abstract (row ids, batch sizes, flags, error class); internal channel steps are not logged, so traces are checked against the observable specification that Spool.tla is model-checked to refine (the full pipeline at 128/512/4 is too large to search per trace). End to end uses INT / VARCHAR / NULL values only (text decoding is trivial; per-type wire fidelity is C28's). Row encoding errors (RowToSQL) and iter.Close errors are not injected. Known finding: a KILL that lands between iter.Next and the reader's channel send can end the statement successfully with a truncated result. Trusted: TLC, the recording callback and outcome normalisation in harness/cmd/c35.",
    "design_ref": "§7 C35",
}

B = 128
SIZES = [0, 1, 2, 127, 128, 129, 255, 256, 257, 511, 512, 513, 1000]
WITNESS_ID = 900001


# ---------------------------------------------------------------- handler-level cases

def ncb_of(n):
    return max(1, (n + B - 1) // B)


def gen_cases(tier, rnd):
    cases = []

    def add(**kw):
        c = {"id": len(cases) + 1, "api": "query", "table": "h", "n": 0, "iterErr": 0, "cbErr": 0, "stallAt": 0,
             "kill": "", "killAt": 0, "killKind": "", "timeouts": False, "repeat": 1}
        c.update(kw)
        cases.append(c)

    apis = ["query", "multi", "stmt"]
    tabs = ["h", "hv"]
    dense = tier == "thorough"
    # fault-free: every size; entry point and pipeline rotate with the seed (all combinations in thorough)
    for i, n in enumerate(SIZES):
        if dense:
            for a in apis:
                for t in tabs:
                    add(api=a, table=t, n=n)
        else:
            add(api=apis[(i + lib.seed()) % 3], table=tabs[(i // 3 + lib.seed()) % 2], n=n)
            if n in (128, 129, 256):
                add(api=apis[(i + lib.seed() + 1) % 3], table=tabs[(i // 3 + lib.seed() + 1) % 2], n=n)

    def positions(n):
        ps = {1, n + 1} | {k for k in (2, 127, 128, 129, 130, 255, 256, 257, 258, 384, 385, 512, 513, 641) if k <= n + 1}
        ps |= {rnd.randint(1, n + 1) for _ in range(4 if dense else 1)}
        return sorted(ps)

    fault_sizes = [n for n in SIZES if n > 0] if dense else [1, 129, 257, 513, 1000]
    for n in fault_sizes:
        ps = positions(n)
        for k in (ps if dense else rnd.sample(ps, min(3, len(ps)))):
            add(api=rnd.choice(apis), table=rnd.choice(tabs), n=n, iterErr=k)
    for n in ([0] + fault_sizes if dense else [0, 129, 256, 1000]):
        js = list(range(1, ncb_of(n) + 2))
        for j in (js if dense else rnd.sample(js, min(2, len(js)))):
            add(api=rnd.choice(apis), table=rnd.choice(tabs), n=n, cbErr=j)
    # two faults
    for _ in range(12 if dense else 3):
        n = rnd.choice([257, 513, 1000])
        add(api=rnd.choice(apis), table=rnd.choice(tabs), n=n, iterErr=rnd.randint(1, n + 1), cbErr=rnd.randint(1, ncb_of(n)))
    # cancellation mid-stream: synchronously inside Next k / inside callback j, or from another goroutine
    for n in (fault_sizes if dense else [129, 257, 513, 1000]):
        reps = 6 if dense else 2
        ks = positions(n)
        for how in (["iter", "async", "cb"] if dense else [rnd.choice(["iter", "async"]), "cb"]):
            for kind in (["query", "ctx"] if dense else [rnd.choice(["query", "ctx"])]):
                if how == "cb":
                    at = rnd.randint(1, ncb_of(n))
                else:
                    at = rnd.choice([k for k in ks if k <= n] or [1])
                add(api=rnd.choice(apis), table=rnd.choice(tabs), n=n, kill=how, killAt=at, killKind=kind, repeat=reps)
    # cancel + iterator error
    for _ in range(6 if dense else 1):
        n = rnd.choice([257, 513])
        add(n=n, iterErr=rnd.randint(130, n + 1), kill="iter", killAt=rnd.randint(1, 129), killKind="query", repeat=3)
    # stalled iterator under a read timeout (each costs one timeout period)
    for n, k in ([(300, 1), (300, 129), (300, 200), (1000, 700), (128, 129)] if dense else [(300, 200), (128, 129)]):
        add(table=rnd.choice(tabs), n=n, stallAt=k, timeouts=True)
    return cases


def witness_cases():
    """Witness of the known finding C35-kill-truncated-success.  The cancellation is issued from inside the first
    iter.Next; run with GOMAXPROCS=1 the batcher and sender goroutines have not parked in their selects yet, so the
    outcome is three fair coin flips of Go's select (reader arm 2, batcher closed-channel arm, sender closed-channel
    arm): 1/8 of the executions return success with the row missing, independent of machine load."""
    base = {"api": "query", "table": "h", "n": 1, "iterErr": 0, "cbErr": 0, "stallAt": 0, "kill": "iter", "killAt": 1,
            "timeouts": False, "repeat": 150}
    return [dict(base, id=WITNESS_ID, killKind="query"), dict(base, id=WITNESS_ID + 1, killKind="ctx", table="hv")]


# ---------------------------------------------------------------- trace validation (TLC)

def split(lines, chunk):
    """Chunks of whole executions / statements: a cut is only made in front of a reset or stmt event."""
    chunks, cur, nums = [], [], []
    for n, line in enumerate(lines):
        if len(cur) >= chunk and (line.startswith('{"ev":"reset"') or line.startswith('{"ev":"stmt"')):
            chunks.append((cur, nums))
            cur, nums = [], []
        cur.append(line)
        nums.append(n)
    if cur:
        chunks.append((cur, nums))
    return chunks


def _validate_chunk(args):
    lines, nums, timeout = args
    with lib.Scratch() as d:
        p = os.path.join(d, "c35_trace.ndjson")
        with open(p, "w") as f:
            f.write("\n".join(lines) + "\n")
        r = lib.tlc("Trace_Spool", "Trace_Spool.cfg", workers=1, timeout=timeout, heap="3g",
                    extra_files=[("c35_trace.ndjson", p)])
    if r.error or not r.completed or r.postcondition_failed or any(s.startswith("STOPPED") for s in r.prints):
        return None, 0, (r.error or "trace not fully consumed") + "\n" + r.out[-2000:]
    if r.distinct != len(lines) + 1:
        return None, 0, "trace of %d events, %d states\n%s" % (len(lines), r.distinct, r.out[-1500:])
    mms = []
    for m in r.jsons("MM"):
        m["line"] = nums[m["l"] - 1]
        mms.append(m)
    return mms, r.distinct, None


def validate(path, chunk=1500, procs=4, timeout=900):
    lines = [x for x in open(path).read().split("\n") if x]
    if not lines:
        raise lib.Inconclusive("empty trace " + path)
    mms, states = [], 0
    with ThreadPoolExecutor(max_workers=procs) as ex:
        for res, st, bad in ex.map(_validate_chunk, [(c, n, timeout) for c, n in split(lines, chunk)]):
            if bad:
                raise lib.Inconclusive("trace validation did not complete: " + bad)
            mms.extend(res)
            states += st
    return lines, mms, states


def signature(m, ev):
    why = ",".join(sorted(m.get("why") or []))
    if m["what"] == "stmt":
        return "e2e|%s|%s|%s" % (ev.get("proto"), ev.get("tag"), why)
    k = "|killed" if m.get("killed") else ""
    if m["what"] == "ret":
        return "handler|ret|%s|%s%s" % (ev.get("cls"), why, k)
    return "handler|%s|%s%s" % (m["what"], why, k)


def coarse(m, ev):
    """Class of an end-to-end mismatch independent of the statement it happened to hit."""
    import sqlcommon
    why = ",".join(sorted(m.get("why") or []))
    c, e = ev.get("c") or {}, ev.get("e") or {}
    return "e2e-class|%s|client=%s:%s|engine=%s:%s" % (why, c.get("kind"), sqlcommon.msg_class(c.get("msg", "")),
                                                    e.get("kind"), sqlcommon.msg_class(e.get("msg", "")))


def execution_of(lines, line):
    """The reset event that opens the execution containing `line`."""
    i = line
    while i >= 0:
        if lines[i].startswith('{"ev":"reset"'):
            return json.loads(lines[i])
        i -= 1
    return None


# ---------------------------------------------------------------- drivers

def run_handler(binp, cases, sc, name, env=None):
    plan = os.path.join(sc, name + ".plan.ndjson")
    out = os.path.join(sc, name + ".trace.ndjson")
    lib.write_ndjson(plan, cases)
    e = {"GORACE": "log_path=%s halt_on_error=0 exitcode=0" % os.path.join(sc, name + ".race")}
    e.update(env or {})
    rep = lib.run_report([binp, "-mode", "handler", "-plan", plan, "-out", out], timeout=1800, env=e)
    if rep["extra"].get("hangs"):
        raise lib.Inconclusive("a handler-level execution did not return within 30 s (stall, not a verdict): %s" % rep["extra"])
    rep["race_reports"] = len([f for f in os.listdir(sc) if f.startswith(name + ".race")])
    return rep, out


def run_e2e(binp, sc, name, clients, stmts, seed, only=0):
    out = os.path.join(sc, name + ".trace.ndjson")
    race = os.path.join(sc, name + ".race")
    rep = lib.run_report([binp, "-mode", "e2e", "-clients", str(clients), "-stmts", str(stmts), "-seed", str(seed),
                          "-only", str(only), "-out", out], timeout=1800,
                         env={"GORACE": "log_path=%s halt_on_error=0 exitcode=0" % race})
    if rep["extra"].get("hangs"):
        raise lib.Inconclusive("an end-to-end statement did not return within 60 s (stall, not a verdict)")
    races = [f for f in os.listdir(sc) if f.startswith(name + ".race")]
    rep["race_reports"] = len(races)
    rep["race_head"] = open(os.path.join(sc, races[0]), errors="replace").read()[:3000] if races else ""
    return rep, out


def judge_handler(binp, v, lines, mms, sc, stats):
    """Group the disagreements per (case, signature); re-run each case alone in a fresh process (schedule-dependent
    cases repeatedly) and count only what shows up again."""
    todo = {}
    for m in mms:
        ev = json.loads(lines[m["line"]])
        rs = execution_of(lines, m["line"])
        if rs is None:
            raise lib.Inconclusive("mismatch outside an execution: %s" % m)
        sig = signature(m, ev)
        todo.setdefault((rs["id"], sig), {"case": rs["case"], "sig": sig, "first": {"mm": m, "event": ev, "params": rs["p"]}, "n": 0})["n"] += 1
    if not todo:
        return
    per_sig = {}
    picked = []
    for key, t in sorted(todo.items(), key=lambda kv: 0 if kv[0][0] in (WITNESS_ID, WITNESS_ID + 1) else 1):
        if per_sig.get(t["sig"], 0) < 3:
            per_sig[t["sig"]] = per_sig.get(t["sig"], 0) + 1
            picked.append(t)
    cases = []
    for i, t in enumerate(picked):
        c = dict(t["case"])
        c["id"] = 500000 + i
        c["repeat"] = 200 if c.get("kill") or c.get("stallAt") else 2
        t["cid"] = c["id"]
        cases.append(c)
    seen = set()
    for attempt, env in enumerate((None, {"GOMAXPROCS": "1"})):
        todo_now = [c for c, t in zip(cases, picked) if (t["cid"], t["sig"]) not in seen and (attempt == 0 or c.get("kill"))]
        if not todo_now:
            continue
        rep, out = run_handler(binp, todo_now, sc, "confirm%d" % attempt, env=env)
        clines, cmms, _ = validate(out)
        for m in cmms:
            rs = execution_of(clines, m["line"])
            seen.add((rs["id"], signature(m, json.loads(clines[m["line"]]))))
    confirmed = {t["sig"] for t in picked if (t["cid"], t["sig"]) in seen}
    for t in picked:
        if (t["cid"], t["sig"]) in seen:
            t["first"]["occurrences"] = t["n"]
            t["first"]["case"] = t["case"]
            kind = v.add(t["sig"], t["first"])
            stats["confirmed"] += 1
            stats.setdefault("by_signature", {}).setdefault(t["sig"], 0)
            stats["by_signature"][t["sig"]] += t["n"]
            lib.log("[C35] %s: %s (case %s)" % (kind, t["sig"], {k: x for k, x in t["case"].items() if x}))
        elif t["case"].get("kill") and t["sig"] in confirmed:
            # schedule-dependent (cancellation racing the pipeline): the same disagreement was reproduced in isolation on
            # another case of this run; this occurrence is not counted
            stats["same_signature_not_recounted"] = stats.get("same_signature_not_recounted", 0) + t["n"]
            lib.log("[C35] not re-counted (schedule dependent, signature confirmed on another case): %s %s" % (t["sig"], t["case"]))
        else:
            raise lib.Inconclusive("handler-level mismatch did not reproduce in isolation: %s %s" % (t["sig"], t["case"]))


def judge_e2e(binp, v, lines, mms, sc, clients, stmts, seed, stats):
    if not mms:
        return
    first = {}
    for m in mms:
        ev = json.loads(lines[m["line"]])
        first.setdefault(signature(m, ev), (m, ev))
    again = None
    for sig, (m, ev) in list(first.items())[:6]:
        rep, out = run_e2e(binp, sc, "e2e-only", clients, stmts, seed, only=ev["client"])
        l2, mm2, _ = validate(out)
        ok = any(json.loads(l2[x["line"]])["id"] == ev["id"] and signature(x, json.loads(l2[x["line"]])) == sig for x in mm2)
        how = "sequential"
        if not ok:
            # a mismatch that needs concurrency is schedule dependent: the whole concurrent run is repeated
            # (same seed, fresh processes, up to 4 times) and the mismatch counts when one of the same CLASS
            # (which side failed, error text class, reason) shows up again -- not necessarily on the same statement
            if again is None:
                again = set()
                for k in range(4):
                    rep, out = run_e2e(binp, sc, "e2e-again%d" % k, clients, stmts, seed)
                    l3, mm3, _ = validate(out)
                    for x in mm3:
                        e3 = json.loads(l3[x["line"]])
                        again.add(signature(x, e3))
                        again.add(coarse(x, e3))
                    if coarse(m, ev) in again:
                        break
            ok = sig in again or coarse(m, ev) in again
            how = "concurrent"
        if not ok:
            raise lib.Inconclusive("end-to-end mismatch did not reproduce: %s %s" % (sig, ev.get("sql")))
        brief = {"sql": ev["sql"], "proto": ev["proto"], "client": {k: x for k, x in ev["c"].items() if k != "rows"},
                 "engine": {k: x for k, x in ev["e"].items() if k != "rows"}, "client_rows": len(ev["c"]["rows"]),
                 "engine_rows": len(ev["e"]["rows"]), "why": m.get("why"), "reproduced": how}
        v.add(sig if how == "sequential" else sig + "|" + coarse(m, ev), brief)
        stats["confirmed"] += 1


def binding_selftest(hlines, sc):
    """DESIGN §9: a good recorded execution with (a) one corrupted field, (b) one dropped event must be rejected."""
    # the first fault-free execution with >= 3 callbacks
    start = None
    for i, l in enumerate(hlines):
        if l.startswith('{"ev":"reset"'):
            e = json.loads(l)
            j = i + 1
            while j < len(hlines) and not hlines[j].startswith('{"ev":"reset"'):
                j += 1
            evs = [json.loads(x) for x in hlines[i:j]]
            if e["p"]["n"] >= 257 and not e["case"]["kill"] and not e["p"]["iterErr"] and not e["p"]["cbErr"] \
                    and not e["p"]["stallAt"] and evs[-1].get("cls") == "ok":
                start = (i, j)
                break
    if start is None:
        raise lib.Inconclusive("binding self-test: no fault-free multi-batch execution recorded")
    good = hlines[start[0]:start[1]]
    res = {}
    for name, mut in (("good", lambda ev: ev),
                      ("corrupt_first", lambda ev: [dict(x, first=x["first"] + 1, last=x["last"] + 1) if k == 2 else x for k, x in enumerate(ev)]),
                      ("drop_callback", lambda ev: ev[:2] + ev[3:]),
                      ("flip_more", lambda ev: [dict(x, more=not x["more"]) if k == 1 else x for k, x in enumerate(ev)])):
        evs = mut([json.loads(x) for x in good])
        p = os.path.join(sc, "selftest-%s.ndjson" % name)
        lib.write_ndjson(p, evs)
        _, mms, _ = validate(p)
        res[name] = len(mms)
    if res["good"] != 0 or not all(res[k] > 0 for k in ("corrupt_first", "drop_callback", "flip_more")):
        raise lib.Inconclusive("binding self-test failed (mismatches per variant): %s" % res)
    return res


# ---------------------------------------------------------------- the check

def check(tier):
    t0 = time.time()
    rnd = random.Random(lib.seed())
    quick = tier == "quick"
    binp = lib.build("c35", race=True)
    v = lib.Verdict("C35")
    stats = {"confirmed": 0}
    W = 4 if quick else max(4, lib.NCPU - 4)
    with lib.Scratch() as sc, ThreadPoolExecutor(max_workers=5) as pool:
        # ---- model checking (runs beside the drivers)
        cfgs = ("Spool_mc.cfg", "Spool_kill.cfg") if quick else ("Spool_bigmc.cfg", "Spool_big.cfg")
        f_mc = pool.submit(lib.tlc, "Spool", cfgs[0], workers=2 if quick else 4, timeout=1500, coverage=not quick)
        f_kill = pool.submit(lib.tlc, "Spool", cfgs[1], workers=W, timeout=3000, coverage=not quick, heap="8g")
        f_ok = pool.submit(lib.tlc, "Spool", "Spool_killok.cfg", workers=1, timeout=900)
        f_live = f_enum = f_small = None
        if not quick:
            f_live = pool.submit(lib.tlc, "Spool", "Spool_live.cfg", workers=4, timeout=3000, heap="8g")

        # ---- handler level
        cases = gen_cases(tier, rnd)
        hrep, hout = run_handler(binp, cases, sc, "handler")
        wrep, wout = run_handler(binp, witness_cases(), sc, "witness", env={"GOMAXPROCS": "1"})
        with open(hout, "a") as f:
            f.write(open(wout).read())
        hlines, hmms, hstates = validate(hout, procs=4 if quick else 8)
        executions = hrep["cases"] + wrep["cases"]
        hraces = hrep["race_reports"] + wrep["race_reports"]
        if hrep["extra"].get("value_row_calls", 0) == 0:
            raise lib.Inconclusive("vacuous: the value-row pipeline (resultForValueRowIter) was never taken")
        judge_handler(binp, v, hlines, hmms, sc, stats)
        # (a defect that loses batches also lowers the count: the floor applies when nothing was reported)
        if hrep["nontrivial"] < (25 if quick else 200) and not v.violations:
            raise lib.Inconclusive("vacuous: only %d non-trivial handler executions" % hrep["nontrivial"])
        witness_hits = sum(1 for m in hmms if m["what"] == "ret" and execution_of(hlines, m["line"])["id"] in (WITNESS_ID, WITNESS_ID + 1))

        # ---- end to end
        runs = [(4, 40)] if quick else [(1, 300), (16, 300), (8, 300)]
        ecases = enontriv = estates = races = 0
        esamples, by_tag = [], {}
        for i, (clients, stmts) in enumerate(runs):
            seed = lib.seed() * 100 + i
            erep, eout = run_e2e(binp, sc, "e2e%d" % i, clients, stmts, seed)
            elines, emms, st = validate(eout, chunk=150, procs=4 if quick else 10)
            judge_e2e(binp, v, elines, emms, sc, clients, stmts, seed, stats)
            ecases += erep["cases"]
            enontriv += erep["nontrivial"]
            estates += st
            races += erep["race_reports"]
            if erep["race_reports"]:
                # The binary runs under the Go race detector (that is how the real server is executed here). A
                # report whose frames are in the server package means concurrent clients share unsynchronised
                # state on the path that delivers their results; it counts once it shows up again in a fresh
                # process. Reports elsewhere stay informational (C36 owns the engine-level clause).
                import re as _re
                frames = _re.findall(r"go-mysql-server/(server\.[\w.()*]+)\(", erep["race_head"])
                if frames:
                    again = 0
                    for k in range(3):
                        r2, _ = run_e2e(binp, sc, "e2e%d-race%d" % (i, k), clients, stmts, seed)
                        if r2["race_reports"] and _re.search(r"go-mysql-server/server\.", r2["race_head"]):
                            again += 1
                            break
                    if not again:
                        raise lib.Inconclusive("race report in the server package did not reproduce:\n" + erep["race_head"])
                    v.add("e2e|race|" + ">".join(dict.fromkeys(frames[:3])), {"report": erep["race_head"]})
                else:
                    lib.log("[C35] race detector report(s) outside the server package (informational):\n" + erep["race_head"])
            esamples += erep["samples"][:1]
            for k, n in erep["extra"]["by_tag"].items():
                by_tag[k] = by_tag.get(k, 0) + n
            if erep["extra"].get("value_row_calls", 0) == 0:
                raise lib.Inconclusive("vacuous: no value-row statement in the end-to-end run")
        if enontriv < (15 if quick else 1000) and not v.violations:
            raise lib.Inconclusive("vacuous: only %d non-trivial end-to-end statements" % enontriv)
        if not any(k.startswith("bin/") for k in by_tag) or not any(k.startswith("text/") for k in by_tag):
            raise lib.Inconclusive("vacuous: one of the two protocols was not exercised")

        # ---- model results
        r_mc = lib.tlc_ok(f_mc.result(), cfgs[0])
        r_kill = lib.tlc_ok(f_kill.result(), cfgs[1])
        r_ok = f_ok.result()
        if r_ok.error or not (r_ok.completed or r_ok.invariant_violated):
            raise lib.Inconclusive("Spool_killok.cfg: %s\n%s" % (r_ok.error, r_ok.out[-2000:]))
        model_cex = "OkComplete" in r_ok.invariant_violated
        if r_ok.deadlock or (r_ok.invariant_violated and not model_cex):
            raise lib.Inconclusive("Spool_killok.cfg: unexpected model-level violation\n" + r_ok.out[-3000:])
        if model_cex and not witness_hits:
            # the model says a cancelled statement can succeed with a truncated result; that only counts when the real
            # handler shows it (witness cases, 300 executions with GOMAXPROCS=1) -- otherwise the model is out of date
            raise lib.Inconclusive("model-level counterexample (OkComplete under Kill) was not reproduced on the real handler: fix spec/Spool.tla (RSend arm 2)")
        if not model_cex and witness_hits:
            lib.log("[C35] note: the handler shows truncated successful results under KILL but Spool_killok.cfg holds")
        states = r_mc.distinct + r_kill.distinct
        gen = r_mc.generated + r_kill.generated
        extra = {}
        if not quick:
            last = {}           # -coverage 1 prints interim reports: only the final count of every action matters
            for name, a, b in re.findall(r"^<(\w+) line [^>]*>: (\d+):(\d+)$", r_kill.out, re.M):
                last[name] = (int(a), int(b))
            z = [a for a, c in last.items() if c == (0, 0)]
            if len(last) < 12:
                raise lib.Inconclusive("no coverage report in %s" % cfgs[1])
            extra["action_coverage"] = {a: "%d:%d" % c for a, c in last.items()}
            if z:
                raise lib.Inconclusive("vacuous: actions never taken in %s: %s" % (cfgs[1], z))
            r_live = lib.tlc_ok(f_live.result(), "Spool_live.cfg")
            states += r_live.distinct
            gen += r_live.generated
            extra["liveness"] = {"cfg": "Spool_live.cfg", "states": r_live.distinct, "wall_s": round(r_live.wall, 1)}
            # tightness of the observable specification on the small constants: terminal summaries of the pipeline
            # model vs. those of the observable machine
            dummy = os.path.join(sc, "dummy.ndjson")
            open(dummy, "w").write('{"ev":"note"}\n')
            f_small = pool.submit(lib.tlc, "Spool", "Spool_kill.cfg", workers=W, timeout=1500)
            r_enum = lib.tlc_ok(lib.tlc("Trace_Spool", "Trace_Spool_enum.cfg", workers=1, timeout=1500,
                                        extra_files=[("c35_trace.ndjson", dummy)]), "Trace_Spool_enum.cfg")
            r_small = lib.tlc_ok(f_small.result(), "Spool_kill.cfg")
            key = lambda s: json.dumps(s, sort_keys=True)
            A = {key(s) for s in r_small.jsons("SUM")}
            Bs = {key(s) for s in r_enum.jsons("SUM")}
            if len(A) < 100 or len(Bs) < 100:
                raise lib.Inconclusive("summary enumeration too small: %d / %d" % (len(A), len(Bs)))
            over = [json.loads(x) for x in A - Bs]
            # outcomes of the pipeline model that the observable specification forbids must all be the known defect:
            # after a cancel, a successful return or a short "final" callback (more callbacks than full batches)
            bad = [s for s in over if not (s["killed"] and (s["ret"] == "ok" or s["ncb"] > s["sent"] // 2))]
            if bad:
                raise lib.Inconclusive("the pipeline model reaches outcomes outside the observable specification: %s" % bad[:3])
            extra["obs_spec_tightness"] = {"pipeline_outcomes": len(A), "observable_outcomes": len(Bs),
                                           "pipeline_only(cancelled, truncated final callback)": len(over), "observable_only": len(Bs - A),
                                           "observable_only_sample": [json.loads(x) for x in sorted(Bs - A)[:3]]}
        if not quick:
            extra["binding_selftest"] = binding_selftest(hlines, sc)
        rc = v.finish()
        if witness_hits == 0:
            lib.log("[C35] note: the witness of the known finding did not show the truncated result in 300 executions")
        samples = (hrep["samples"][:1] or [[json.loads(x) for x in hlines[:6]]]) + esamples[:1]
        lib.write_evidence("C35", tier, "model_checking", {
            "states": states, "transitions": gen,
            "traces_validated_against_impl": executions + ecases,
            "samples": samples,
            "evaluations": len(hlines) + ecases,
            "distinct_nontrivial": hrep["nontrivial"] + enontriv,
            "rule": "model: distinct states of %s + %s (every result size <= MaxRows x every iterator-error / callback-error position x cancel at any step); "
                    "handler level: %d executions of the real handler (%d events), non-trivial = the result spans >= 2 batches or a fault fired after rows were delivered (%d); "
                    "end to end: %d statements over TCP vs. the twin engine, non-trivial = more than 128 rows or a mid-stream failure (%d)"
                    % (cfgs[0], cfgs[1], executions, len(hlines), hrep["nontrivial"], ecases, enontriv),
            "model": {c: {"states": r.distinct, "generated": r.generated, "depth": r.depth, "wall_s": round(r.wall, 1)}
                      for c, r in ((cfgs[0], r_mc), (cfgs[1], r_kill))},
            "model_counterexample_OkComplete_under_Kill": model_cex,
            "handler_by_class": hrep["extra"]["by_class"],
            "handler_cases": len(cases),
            "trace_states": hstates + estates,
            "e2e_by_tag": by_tag,
            "e2e_runs": [{"clients": c, "statements_per_client": s} for c, s in runs],
            "race_reports": races + hraces,
            "witness_truncated_ok": witness_hits,
            "confirmed_disagreements": stats.get("by_signature", {}),
            **extra,
        }, time.time() - t0, violations=len(v.violations),
            assumptions=["row sources yield ids 1..N in order (harness tables); the iterator ignores cancellation except where the engine's TableRowIter checks it",
                         "end to end: each client works on its own table (the in-memory backend has no isolation for overlapping writers); shared tables are read-only",
                         "error equality end to end = error-or-not plus MySQL error number (0 accepted for a stream aborted mid-result)"])
        return rc
