"""C30 -- character set conversion round-trips and never crashes.
Spec: spec/Charset.tla (the algorithmic character sets utf8mb4 / utf8mb3 / utf16 / utf16le / utf32 / ucs2 / ascii
written out from their definitions: Enc, Dec, Representable, an independent well-formedness definition; the laws
of an abstract code table: injective, prefix-free, string encoding = concatenation, unrepresentable => reported or
'?').  Design half: spec/MC_Charset.tla (windows around every boundary, all byte strings over an alphabet of
lead/continuation/surrogate/limit bytes, strings over a pool; thorough also every code point) and
spec/MC_CharsetLaws.tla (prefix-freeness is exactly the condition for on-the-fly decoding, over all 343 small tables).
Binding B: harness/cmd/c30 sweeps ALL code points x EVERY character set of sql.NewCharacterSetsIterator through the
real Encoder and records maximal ranges (+ the whole table of the table-driven sets), byte strings through Decode /
Encode / SQL introducers, strings through CONVERT USING / CAST / columns; spec/Trace_Charset.tla judges them.
Binding A: TLC-drawn strings x algorithmic sets with the code words of Enc are replayed into the real encoder."""
import concurrent.futures as cf
import json, os, re, shutil, tempfile, threading, time
import lib

PID = "C30"
META = {
    "property_id": PID,
    "level": "model_checking",
    "technique": "TLA+ codec specification Charset.tla (algorithmic sets from their definitions + laws of an abstract code table), model-checked by TLC over boundary windows / all byte strings over a lead-continuation-surrogate alphabet / every code point (thorough); the real Encoder of every character set is swept over ALL code points 0..10FFFF and the run-length projection of the sweep (ranges with end-point code words; whole tables of the table-driven sets), byte strings through Decode/Encode/SQL and strings through CONVERT USING / CAST / columns are judged by TLC trace validation (Trace_Charset.tla); TLC-drawn strings with the code words of Enc are replayed into the real encoder (binding A)",
    "text": "For every character set the engine lists, every code point 0..10FFFF is converted into the set (strict Encode alone and followed by other characters, lenient EncodeReplaceUnknown alone and followed by other characters) and back (Decode). TLC decides: the recorded ranges tile 0..10FFFF; no call panics; every character is either representable and round-trips or is reported by the strict call and replaced by '?' by the lenient one; for utf8mb4, utf8mb3, utf16, utf32, ascii (and the pass-through binary) representability, length and code words are exactly those of the definition (UTF-8 / UTF-16 / UTF-32 written out in TLA+); for the table-driven sets (latin1 = cp1252 + 5 C1 controls, latin7, cp1256, cp1257, dec8, swe7, armscii8, geostd8) the recorded table is injective, prefix-free, contains '?', and every code word decodes to its own code point. Byte strings (systematic over a hostile alphabet, truncated code words, seeded random) through Decode and through _cs X'..' are never a crash, are accepted exactly when the definition (or the recorded table) accepts them, with the same code points, and re-encode to themselves. Strings through CONVERT(.. USING cs), HEX of it, CONVERT back, CAST(.. AS CHAR CHARACTER SET cs) and a VARCHAR column of the set obey the string law (concatenation of code words, '?' for unrepresentable characters, unchanged when all characters are representable). A character set without an encoder must be refused, not crash.",
    "note": "ucs2 and utf16le are specified and model-checked but have no encoder in the engine (only the refusal is checked); CJK sets have no encoder at the pin; a table-driven set's table is judged by the laws only, not against a second copy of cp1252 etc.; the surrogate block D800..DFFF is swept (generalized 3-byte input) but only 'no panic' is required there; quick checks the end points and 3 interior points of every range against Enc (the Go projection guarantees consecutive code words inside a range), thorough every code point. Trusted: TLC, unicode/utf8 (code points <-> internal strings), the range compression and result classification in harness/cmd/c30 (extend(), observe()).",
    "design_ref": "§7 C30",
}

SIZES = {"quick": dict(mc="MC_Charset_quick.cfg", full=False, nsim=300, procs=4),
         "thorough": dict(mc="MC_Charset_thorough.cfg", full=True, nsim=3000, procs=6)}


def log(msg):
    lib.log("[C30] " + msg)


# ---------------------------------------------------------------- trace validation
def item_key(it):
    return json.dumps([it.get("ev"), it.get("via"), it.get("form"), it.get("b"), it.get("s"), it.get("lo")], separators=(",", ":"))


def validate_group(args):
    """One TLC run over the concatenation of some trace files. Returns (mismatches, states, error)."""
    paths, tag = args
    d = tempfile.mkdtemp(prefix="verif-c30-")
    try:
        lines = []
        with open(os.path.join(d, "trace.ndjson"), "w") as out:
            for p in paths:
                for line in open(p):
                    if line.strip():
                        out.write(line)
                        lines.append(line)
        r = lib.tlc("Trace_Charset", "Trace_Charset.cfg", workdir=d, workers=1, timeout=3000, heap="4g")
        bad = None
        if r.error or not r.completed:
            bad = "%s: %s\n%s" % (tag, r.error or "TLC did not complete", r.out[-1500:])
        mms = []
        for m in r.jsons("MM"):
            ev = json.loads(lines[m["l"] - 1])
            if "i" in m:
                ev = ev["items"][m["i"] - 1]
            m["event"] = ev
            mms.append(m)
        nitems = 0
        for line in lines:
            ev = json.loads(line)
            nitems += len(ev["items"]) if ev.get("ev") == "batch" else 1
        return mms, nitems, r.distinct, bad
    finally:
        shutil.rmtree(d, ignore_errors=True)


def groups_of(files, n):
    """Balance the trace files over n TLC runs by size (largest first)."""
    sized = sorted(((os.path.getsize(p), p) for p in files), reverse=True)
    bins = [[0, []] for _ in range(n)]
    for sz, p in sized:
        b = min(bins, key=lambda x: x[0])
        b[0] += sz + 20000
        b[1].append(p)
    return [b[1] for b in bins if b[1]]


def validate(files, procs):
    gs = groups_of(files, procs)
    mms, items, states = [], 0, 0
    with cf.ThreadPoolExecutor(max_workers=procs) as ex:
        for res, n, st, bad in ex.map(validate_group, [(g, "group%d" % i) for i, g in enumerate(gs)]):
            if bad:
                raise lib.Inconclusive("trace validation did not complete: " + bad)
            mms.extend(res)
            items += n
            states += st
    return mms, items, states


def signature(m):
    sig = "C30|%s|cs=%s|kind=%s|bad=%s" % (m["what"], m["cs"], m["kind"], ",".join(sorted(m["bad"])))
    if m["what"] == "enc":
        sig += "|input=" + m["extra"].get("input", "?")
    return sig


def detail(m, extra=None):
    ev = dict(m["event"])
    for k in ("cps", "words", "dec"):                 # a whole table: keep the detail small
        if m["what"] == "table" and k in ev:
            ev[k] = ev[k][:8]
    d = {"cs": m["cs"], "what": m["what"], "bad": sorted(m["bad"]), "spec": m["extra"], "event": ev, "seed": lib.seed()}
    if extra:
        d.update(extra)
    return d


def is_known(v, sig):
    return any(re.search(f["signature"], sig) for f in v.findings)


def confirm(binp, tier, mms, scd, v):
    """Disagreements outside the known findings are re-recorded in a fresh driver process (only the
    character sets concerned; only the byte strings / strings concerned) and judged again."""
    fresh = [m for m in mms if not is_known(v, signature(m))]
    if not fresh:
        return set()
    css = sorted({m["cs"] for m in fresh})
    d = os.path.join(scd, "confirm")
    os.makedirs(d, exist_ok=True)
    rep = lib.run_report([binp, "-mode", "sweep", "-dir", d, "-seed", str(lib.seed()), "-tier", tier, "-only", ",".join(css)], timeout=3000)
    if "hang" in rep.get("extra", {}):
        raise lib.Inconclusive("driver hung while confirming: %s" % rep["extra"]["hang"])
    keys = {}
    for m in fresh:
        keys.setdefault(m["cs"], set()).add(item_key(m["event"]))
    files = []
    for f in rep["extra"]["files"]:
        p = f["path"] + ".reduced"
        with open(p, "w") as out:
            for line in open(f["path"]):
                ev = json.loads(line)
                if ev.get("ev") == "batch" and ev["kind"] != "range":
                    ev["items"] = [it for it in ev["items"] if item_key(it) in keys.get(ev["cs"], ())]
                    if not ev["items"]:
                        continue
                out.write(json.dumps(ev, separators=(",", ":")) + "\n")
        files.append(p)
    again, _, _ = validate(files, 2)
    return {signature(m) for m in again}


# ---------------------------------------------------------------- binding A
def binding_a(binp, sz, scd, v):
    rs = lib.tlc("MC_Charset", "MC_Charset_emit.cfg", workers=1, timeout=1500, simulate="num=%d" % sz["nsim"], depth=3,
                 tlc_seed=lib.seed(), heap="2g")
    if rs.error or rs.invariant_violated:
        raise lib.Inconclusive("MC_Charset simulation: %s\n%s" % (rs.error or rs.invariant_violated, rs.out[-2000:]))
    cases = rs.jsons("CASE")
    if len(cases) < sz["nsim"] * 0.9:
        raise lib.Inconclusive("MC_Charset emitted only %d cases" % len(cases))
    for i, c in enumerate(cases):
        c["id"] = i + 1
    cin = os.path.join(scd, "replay.ndjson")
    lib.write_ndjson(cin, cases)
    rep = lib.run_report([binp, "-mode", "replay", "-in", cin], timeout=900)
    mm = rep["mismatches"]
    nconf = 0
    if mm:
        fresh = [m for m in mm if not is_known(v, m["signature"])]
        again = set()
        if fresh:
            ids = {m["case"] for m in fresh}
            cin2 = os.path.join(scd, "replay-confirm.ndjson")
            lib.write_ndjson(cin2, [c for c in cases if c["id"] in ids])
            rep2 = lib.run_report([binp, "-mode", "replay", "-in", cin2], timeout=900)
            again = {(m["case"], m["signature"]) for m in rep2["mismatches"]}
        for m in mm:
            if is_known(v, m["signature"]) or (m["case"], m["signature"]) in again:
                v.add(m["signature"], {"case": m["input"], "expected_by_spec": m["expected"], "got": m["got"], "binding": "A", "seed": lib.seed()})
                nconf += 1
            else:
                raise lib.Inconclusive("binding A disagreement did not reproduce in a fresh process: %s" % json.dumps(m)[:600])
    return cases, rep, nconf


# ---------------------------------------------------------------- self-test of the binding (DESIGN 9)
def binding_selftest(files, scd):
    """A recorded trace with ONE corrupted code word must be rejected by Trace_Charset."""
    src = [p for p in files if p.endswith("trace-utf16.ndjson")]
    if not src:
        raise lib.Inconclusive("binding self-test: no utf16 trace")
    p = os.path.join(scd, "selftest.ndjson")
    done = False
    with open(p, "w") as out:
        for line in open(src[0]):
            ev = json.loads(line)
            if not done and ev.get("ev") == "batch" and ev["kind"] == "range":
                it = [x for x in ev["items"] if x["ev"] == "range" and x["len"] > 0 and not 0xD800 <= x["lo"] <= 0xDFFF][0]
                it["bhi"][-1] ^= 1
                done = True
            if ev.get("ev") == "batch" and ev["kind"] != "range":
                continue
            out.write(json.dumps(ev, separators=(",", ":")) + "\n")
    mms, _, _ = validate([p], 1)
    if not any("word-at-hi" in m["bad"] for m in mms):
        raise lib.Inconclusive("binding self-test: a corrupted code word was accepted by Trace_Charset")


def check(tier):
    t0 = time.time()
    sz = SIZES[tier]
    binp = lib.build("c30")
    v = lib.Verdict(PID)
    with lib.Scratch() as scd:
        # 1. design half in the background
        box = {}

        def mc():
            try:
                rs = [("MC_CharsetLaws", "MC_CharsetLaws.cfg"), ("MC_Charset", sz["mc"])]
                if sz["full"]:
                    rs.append(("MC_Charset", "MC_Charset_full.cfg"))
                box["r"] = [(m, c, lib.tlc(m, c, workers=min(6, max(2, lib.NCPU // 3)), timeout=5000, heap="6g")) for m, c in rs]
            except Exception as e:  # reported below
                box["e"] = e
        th = threading.Thread(target=mc)
        th.start()
        try:
            # 2. binding B: the sweep of every character set, byte strings, SQL
            d = os.path.join(scd, "traces")
            os.makedirs(d)
            rep = lib.run_report([binp, "-mode", "sweep", "-dir", d, "-seed", str(lib.seed()), "-tier", tier], timeout=5000)
            if "hang" in rep.get("extra", {}):
                raise lib.Inconclusive("a conversion did not return (driver watchdog): %s" % rep["extra"]["hang"])
            ex = rep["extra"]
            files = [f["path"] for f in ex["files"]]
            with_enc = [f for f in ex["files"] if f["enc"]]
            log("swept %d code points over %d character sets (%d with an encoder), %d ranges, %d tables, %s events, %.1fs"
                % (rep["cases"], ex["charsets"], len(with_enc), ex["ranges"], ex["tables"], ex["counts"], time.time() - t0))
            if len(with_enc) < 1 or rep["cases"] != len(with_enc) * 1114112:
                raise lib.Inconclusive("sweep incomplete: %d code points for %d encoders" % (rep["cases"], len(with_enc)))
            mms, items, tstates = validate(files, sz["procs"])
            log("%d trace items judged by TLC, %d disagree, %.1fs" % (items, len(mms), time.time() - t0))
            if any(b.startswith("fixture:") for m in mms for b in m["bad"]):
                m = [m for m in mms if any(b.startswith("fixture:") for b in m["bad"])][0]
                raise lib.Inconclusive("fixture problem (projection, not the engine): %s" % json.dumps(m)[:800])
            confirmed = confirm(binp, tier, mms, scd, v)
            nconf = 0
            bysig = {}
            for m in mms:
                bysig.setdefault(signature(m), []).append(m)
            for sig, ms in bysig.items():
                if is_known(v, sig) or sig in confirmed:
                    v.add(sig, detail(ms[0], {"occurrences": len(ms), "more": [x["extra"] for x in ms[1:4]]}))
                    for x in ms[1:]:
                        v.add(sig, {"occurrence_of": sig})
                    nconf += len(ms)
                else:
                    raise lib.Inconclusive("disagreement did not reproduce in a fresh process: %s %s" % (sig, json.dumps(ms[0]["extra"])[:500]))
            # 3. binding A
            cases, rrep, nrepl = binding_a(binp, sz, scd, v)
            log("binding A: %d TLC-drawn strings replayed, %d disagree, %.1fs" % (len(cases), len(rrep["mismatches"]), time.time() - t0))
            if tier == "thorough":
                binding_selftest(files, scd)
        finally:
            th.join()
        if "e" in box:
            raise box["e"]
        states = trans = 0
        mcinfo = {}
        for m, c, r in box["r"]:
            lib.tlc_ok(r, "%s/%s" % (m, c))
            states += r.distinct
            trans += r.generated
            mcinfo[c] = {"distinct": r.distinct, "wall_s": round(r.wall, 1)}
        if mcinfo[sz["mc"]]["distinct"] < 50000:
            raise lib.Inconclusive("design-half enumeration too small: %s" % mcinfo)
        rc = v.finish()
        lib.write_evidence(PID, tier, "model_checking", {
            "states": states, "transitions": trans,
            "traces_validated_against_impl": items,
            "samples": [{"cs": f["cs"], "ranges": f.get("ranges"), "representable": f.get("representable"), "events": f["events"]} for f in with_enc[:4]] + rrep["samples"][:2],
            "evaluations": rep["cases"] + items + len(cases),
            "distinct_nontrivial": ex["ranges"] + sum(ex["counts"].values()) + rrep["nontrivial"],
            "rule": "design half: %s; binding B: every code point 0..10FFFF x every character set with an encoder through Encode (alone / padded), EncodeReplaceUnknown (alone / padded) and Decode, compressed to maximal ranges judged by TLC (end points + %s interior points against Enc / the recorded table), + byte strings (all strings over the hostile alphabet up to a length, truncated code words, seeded random) through Decode / Encode / _cs X'..', + strings through CONVERT USING / CAST / columns; binding A: TLC-drawn strings with the code words of Enc replayed into Encode / EncodeReplaceUnknown / Decode; non-trivial = ranges + byte-string / SQL events + non-empty replayed strings (all distinct by construction)" % (
                ", ".join("%s %d states" % (c, i["distinct"]) for c, i in mcinfo.items()), "all" if tier == "thorough" else "3 pseudo-random"),
            "code_points_swept": rep["cases"], "character_sets_listed": ex["charsets"], "character_sets_with_encoder": len(with_enc),
            "ranges": ex["ranges"], "tables_checked": ex["tables"], "byte_string_events": ex["counts"].get("dec", 0) + ex["counts"].get("enc", 0),
            "sql_events": ex["counts"].get("sql", 0) + ex["counts"].get("unsup", 0), "replayed_strings": len(cases),
            "trace_items_judged": items, "trace_states": tstates, "items_disagreeing": len(mms), "disagreements_confirmed_or_known": nconf,
            "replay_disagreements": len(rrep["mismatches"]), "model_runs": mcinfo,
        }, time.time() - t0, violations=len(v.violations),
            assumptions=["the engine's internal string encoding is UTF-8 (unicode/utf8 converts code points <-> internal strings in the driver)",
                         "inside a recorded range the code words are consecutive big-endian numbers (extend() in harness/cmd/c30); quick compares end points and 3 interior points with the specification, thorough every code point",
                         "surrogate code points are not characters: only 'no panic' is required for them"])
        return rc


def replay(path):
    d = json.load(open(path))
    det = d["first"]["detail"]
    binp = lib.build("c30")
    v = lib.Verdict(PID)
    with lib.Scratch() as scd:
        if det.get("binding") == "A":
            cin = os.path.join(scd, "replay.ndjson")
            lib.write_ndjson(cin, [det["case"]])
            rep = lib.run_report([binp, "-mode", "replay", "-in", cin])
            for m in rep["mismatches"]:
                print("VIOLATION property=%s replay=%s" % (PID, path))
                print(json.dumps(m)[:2000])
            return 1 if rep["mismatches"] else 0
        os.environ["VERIF_SEED"] = str(det.get("seed", 1))
        tdir = os.path.join(scd, "t")
        os.makedirs(tdir)
        rep = lib.run_report([binp, "-mode", "sweep", "-dir", tdir, "-seed", str(det.get("seed", 1)), "-tier", "quick", "-only", det["cs"]])
        mms, _, _ = validate([f["path"] for f in rep["extra"]["files"]], 1)
        hit = [m for m in mms if signature(m) == d["signature"]]
        for m in hit[:3]:
            print("VIOLATION property=%s replay=%s" % (PID, path))
            print(json.dumps(detail(m))[:2000])
        return 1 if hit else 0
