"""C19 — CHECK, NOT NULL, defaults and generated columns hold for stored rows.
Spec: the row pipeline of spec/SQLTables.tla (defaults for omitted / DEFAULT cells, NOT NULL,
CHECK with NULL = satisfied, stored generated columns recomputed on every write, INSERT IGNORE /
UPDATE IGNORE adjusting NULL to the zero value or skipping the row).
Projection: ok / failure class (notnull, check) of every statement, table contents (defaults and
generated values are contents), and NotNullT / ChecksT / GenT evaluated by TLC on the LOGGED tables."""
import dmlcommon as dc

PID = "C19"
META = {
    "property_id": PID,
    "level": "model_checking",
    "technique": "TLA+ table/statement spec SQLTables.tla: invariants NotNullHolds/ChecksHold/GeneratedConsistent model-checked on a bounded exhaustive model with defaults, CHECK and a stored generated column; TLC evaluates them on the tables logged from the real engine and validates every statement's outcome",
    "text": "No stored row makes an enforced CHECK FALSE or holds NULL in a NOT NULL column; a statement that would cause this fails (INSERT IGNORE / UPDATE IGNORE skip the row or store the zero value); omitted columns get their declared default; stored generated columns always equal their expression over the row's current values.",
    "note": "Warnings are not compared; virtual generated columns are outside the generated fragment.",
}

RULE = ("seeded random schemas with NOT NULL, literal defaults, 1-2 CHECKs and a stored generated column x histories of 10-40 statements "
        "(omitted columns, DEFAULT cells, NULL into NOT NULL, INSERT IGNORE, UPDATE IGNORE, ON DUPLICATE KEY UPDATE).")


def check(tier):
    return dc.check(PID, tier, "c19", ["MC_Tables_cons_q.cfg"], ["MC_Tables_cons_t.cfg"], "MC_Tables_cons_dump.cfg",
                    floors={"statements": 300, "changed": 100, "err:notnull": 10, "err:check": 5}, rule=RULE)


def replay(path):
    return dc.replay(PID, path)
