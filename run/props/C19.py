"""C19 — CHECK, NOT NULL, defaults and generated columns hold for stored rows.
Spec: the row pipeline of spec/SQLTables.tla (defaults for omitted / DEFAULT cells, NOT NULL,
CHECK with NULL = satisfied, stored generated columns recomputed on every write, INSERT IGNORE /
UPDATE IGNORE adjusting NULL to the zero value or skipping the row).
Projection: ok / failure class (notnull, check) of every statement, table contents (defaults and
generated values are contents), and NotNullT / ChecksBothT / GenT evaluated by TLC on the LOGGED tables
after every statement (ChecksBothT: no enforced CHECK is FALSE for a logged row, neither as logged nor
with its generated columns recomputed from the logged base columns).
Vocabulary (dmlgen profile c19): up to two generated columns, STORED or VIRTUAL, over one or two
base columns (a + 1, a * 2, a - b, a + b, COALESCE sums and differences, UPPER / CONCAT / LEFT);
CHECKs over base columns and over generated columns (bounds the ordinary value pool mostly
satisfies and far values break); INSERT, multi-row INSERT, INSERT IGNORE, REPLACE, single- and
multi-row ON DUPLICATE KEY UPDATE (later rows repeat the key of an earlier row, so the upsert path
is taken whatever the table holds), UPDATE / UPDATE IGNORE with one to three assignments, all aimed
at the base columns the checked generated columns read, and INSERT / INSERT IGNORE / REPLACE ..
SELECT from the table itself (SQLTables!SelRows)."""
import dmlcommon as dc

PID = "C19"
META = {
    "property_id": PID,
    "level": "model_checking",
    "technique": "TLA+ table/statement spec SQLTables.tla: invariants NotNullHolds/ChecksHold/GeneratedConsistent model-checked on a bounded exhaustive model with defaults, a stored generated column over two base columns, a CHECK over base columns and a CHECK over the generated column; TLC evaluates them on the tables logged from the real engine and validates every statement's outcome",
    "text": "No stored row makes an enforced CHECK FALSE or holds NULL in a NOT NULL column; a statement that would cause this fails (INSERT IGNORE / UPDATE IGNORE skip the row or store the zero value); omitted columns get their declared default; generated columns (stored and virtual) always equal their expression over the row's current values, and a CHECK over a generated column holds for that value.",
    "note": "Warnings are not compared. INSERT .. SELECT reads the target table itself with ORDER BY over its full primary key and is not combined with ON DUPLICATE KEY UPDATE. Tables with a VIRTUAL generated column enforce no CHECK at all in the engine (open finding C19-virtual-column-disables-checks), so other CHECK defects are only visible on the tables whose generated columns are all STORED (VirtualP = 0.12 per generated column: about one statement in nine of the quick tier runs on a table with a VIRTUAL column, measured in the evidence as statements_on_tables_with_virtual_column).",
}

RULE = ("seeded random schemas with NOT NULL, literal defaults, 1-2 CHECKs (over base and over generated columns) and 1-2 generated columns "
        "(STORED / VIRTUAL, over one or two base columns) x histories of 10-40 statements "
        "(omitted columns, DEFAULT cells, NULL into NOT NULL, INSERT IGNORE, UPDATE IGNORE, REPLACE, single- and multi-row ON DUPLICATE KEY UPDATE, "
        "UPDATE with 1-3 assignments, INSERT .. SELECT).")


def count(evs):
    st = [e for e in evs if e["ev"] == "stmt"]
    gc = [e for e in st if "gencheck" in e.get("tags", [])]
    return {"statements_on_tables_with_check_over_generated_column": len(gc),
            "upserts_on_those_tables": sum(1 for e in gc if e["stmt"].get("mode") == "odku"),
            "check_failures_on_those_tables": sum(1 for e in gc if e["reply"].get("class") == "check"),
            "statements_on_tables_with_virtual_column": sum(1 for e in st if "vgen" in e.get("tags", [])),
            "insert_select_statements": sum(1 for e in st if "select" in e.get("tags", []))}


def check(tier):
    return dc.check(PID, tier, "c19", ["MC_Tables_cons_q.cfg"], ["MC_Tables_cons_t.cfg"], "MC_Tables_cons_dump.cfg",
                    floors={"statements": 300, "changed": 100, "err:notnull": 10, "err:check": 5,
                            "statements_on_tables_with_check_over_generated_column": 150, "upserts_on_those_tables": 40,
                            "insert_select_statements": 20}, rule=RULE, count=count)


def replay(path):
    return dc.replay(PID, path)
