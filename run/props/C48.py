"""C48 — guarded goroutines turn panics into errors (errguard.Go, errguard.RecoverAndLog).
Spec: spec/ErrGuard.tla (task trees, all completion schedules, Allowed = what Wait may return).
TLC model-checks the configurations (all schedules) and prints each configuration with its allowed
outcome set; binding B: harness/cmd/c48 runs each configuration on the real errguard in a child
process (a process death is the outcome "crash") and Trace_ErrGuard.tla judges every recorded outcome."""
import concurrent.futures as cf
import json, os, random, time
import lib

PID = "C48"
META = {
    "property_id": PID,
    "level": "model_checking",
    "technique": "TLA+ spec ErrGuard.tla (task trees of <= 4 guarded tasks ending nil / error / panic(value kind), nested groups, RecoverAndLog goroutines, all completion schedules) model-checked by TLC; every enumerated configuration run on the real errguard.Go/RecoverAndLog in a child process and the recorded outcome validated by Trace_ErrGuard.tla with TLC",
    "text": "TLC explores every completion schedule of every task tree (tasks ending nil, with their own error value, or with a panic whose value is a string, an error, a runtime error from a nil-map write / index out of range / nil dereference, panic(nil), a nil error interface, a typed nil pointer, an int; children on the same group, on a nested group whose Wait result the parent returns, or plain goroutines guarded by RecoverAndLog) and checks that Wait returns nil exactly when every task ended nil and otherwise one of the produced results, with the declared allowed set equal to the set of results the schedules produce. Each configuration is then built from real goroutines on errguard.Go in a child process that writes a begin marker per case; what the root Wait returned (nil / the identical error value of task i / another error and which panic values its message mentions / process death / stall) and which panics RecoverAndLog logged are recorded and judged by TLC against the allowed set.",
    "note": "Which failing task wins is left to the schedule (errgroup keeps the first). 'Unchanged' is identity of the returned error value; a converted panic must mention the %v text of the panic value. Goexit and panics in goroutines not started through errguard are out of scope. Trusted: TLC, the outcome classifier in harness/cmd/c48 (identity test, substring test).",
    "design_ref": "§7 C48",
}

CONFIRM_CAP = 25
CONFIRM_ROUNDS = 3


def run_model(cfg, workers, coverage):
    r = lib.tlc("ErrGuard", cfg, workers=workers, timeout=1500, coverage=coverage, heap="6g")
    lib.tlc_ok(r, "ErrGuard/" + cfg)
    if coverage:
        z = r.coverage_zero()
        if z:
            raise lib.Inconclusive("vacuous: actions never taken in %s: %s" % (cfg, z))
    cases = r.jsons("CASE")
    reached = {}
    for e in r.jsons("END"):
        reached.setdefault(e["key"], set()).add((e["ret"]["k"], e["ret"]["t"]))
    # the declared nondeterminism is exact: every allowed result is produced by some schedule
    for c in cases:
        want = {(a["k"], a["t"]) for a in c["allowed"]}
        if reached.get(c["key"]) != want:
            raise lib.Inconclusive("%s: Allowed %s differs from the results the schedules reach %s for %s"
                                   % (cfg, sorted(want), sorted(reached.get(c["key"], [])), c["key"]))
    return r, cases


def validate_trace(rows, sc, tag, timeout=1200):
    if not rows:
        return [], []
    p = os.path.join(sc, "trace-%s.ndjson" % tag)
    lib.write_ndjson(p, rows)
    r = lib.tlc("Trace_ErrGuard", "Trace_ErrGuard.cfg", workers=1, timeout=timeout, heap="2g",
                extra_files=[("c48_trace.ndjson", p)])
    lib.tlc_ok(r, "Trace_ErrGuard[%s]" % tag)
    if r.postcondition_failed:
        raise lib.Inconclusive("trace %s: high-water mark below the trace length\n%s" % (tag, r.out[-1500:]))
    if r.jsons("BADCFG"):
        raise lib.Inconclusive("trace %s: recorded configuration is not a configuration of the specification: %s" % (tag, r.jsons("BADCFG")[:2]))
    st = r.jsons("ST")
    if len(st) != len(rows) or r.distinct != len(rows) + 1:
        raise lib.Inconclusive("trace %s: %d lines judged of %d (states %d)" % (tag, len(st), len(rows), r.distinct))
    return r.jsons("MM"), st


def validate_parallel(rows, sc, nchunks):
    n = max(1, (len(rows) + nchunks - 1) // nchunks)
    parts = [rows[i:i + n] for i in range(0, len(rows), n)]
    mm, st = [], []
    with cf.ThreadPoolExecutor(max_workers=len(parts)) as ex:
        futs = [ex.submit(validate_trace, part, sc, "p%d" % i) for i, part in enumerate(parts)]
        off = 0
        for part, f in zip(parts, futs):
            m, s = f.result()
            for x in m + s:
                x["l"] += off
            mm += m
            st += s
            off += len(part)
    return mm, st


def run_real(binp, cases, sc, tag, seed):
    cpath, tpath = os.path.join(sc, "cases-%s.ndjson" % tag), os.path.join(sc, "real-%s.ndjson" % tag)
    lib.write_ndjson(cpath, [{"key": c["key"], "tasks": c["tasks"]} for c in cases])
    rep = lib.run_report([binp, "run", "-file", cpath, "-out", tpath, "-seed", str(seed)])
    rows = lib.read_ndjson(tpath)
    if len(rows) != len(cases) or any(r["key"] != c["key"] for r, c in zip(rows, cases)):
        raise lib.Inconclusive("driver recorded %d of %d cases" % (len(rows), len(cases)))
    return rep, rows


def confirm(binp, cases, sc):
    """Each mismatching configuration alone in a fresh process (up to CONFIRM_ROUNDS times, the winner
    of a group is schedule dependent), judged again by TLC. Returns {index: re-recorded line}."""
    reproduced, todo = {}, list(range(len(cases)))
    for rnd in range(CONFIRM_ROUNDS):
        if not todo:
            break
        rows = []
        for i in todo:
            _, one = run_real(binp, [cases[i]], sc, "confirm-%d-%d" % (rnd, i), lib.seed() + 101 * rnd)
            rows += one
        mm, _ = validate_trace(rows, sc, "confirm-%d" % rnd)
        bad = {m["l"] - 1 for m in mm}
        for pos, i in enumerate(todo):
            if pos in bad:
                reproduced[i] = rows[pos]
        todo = [i for pos, i in enumerate(todo) if pos not in bad]
    return reproduced


def check(tier):
    t0 = time.time()
    rnd = random.Random(lib.seed())
    binp = lib.build("c48")
    v = lib.Verdict(PID)
    # (cfg, how many of its configurations are run on the real code: None = all)
    models = ([("ErrGuard_quick.cfg", None), ("ErrGuard_kinds.cfg", None), ("ErrGuard_four.cfg", 1500)] if tier == "quick"
              else [("ErrGuard_big.cfg", None), ("ErrGuard_kinds3.cfg", None)])
    floor = 3500 if tier == "quick" else 100000
    with lib.Scratch() as sc:
        w = max(2, lib.NCPU // len(models))
        with cf.ThreadPoolExecutor(max_workers=len(models)) as ex:
            res = list(ex.map(lambda m: run_model(m[0], w, tier == "thorough"), models))
        cases, seen, per_model = [], set(), {}
        for (cfg, k), (r, cs) in zip(models, res):
            fresh = [c for c in cs if c["key"] not in seen]
            small = [c for c in fresh if len(c["tasks"]) <= 2]
            rest = [c for c in fresh if len(c["tasks"]) > 2]
            chosen = small + (rest if k is None else lib.sample(rest, k, rnd))
            for c in chosen:
                seen.add(c["key"])
            cases += chosen
            per_model[cfg] = {"configurations": len(cs), "states": r.distinct, "generated": r.generated,
                              "run_on_real_code": len(chosen), "tlc_wall_s": round(r.wall, 1)}
        if len(cases) < floor:
            raise lib.Inconclusive("too few configurations: %d (floor %d)" % (len(cases), floor))
        rep, rows = run_real(binp, cases, sc, "main", lib.seed())
        mm, st = validate_parallel(rows, sc, 3 if tier == "quick" else max(2, lib.NCPU - 2))
        kinds = {t["e"]["v"] for c in cases for t in c["tasks"] if t["e"]["k"] == "panic"}
        if len(kinds) < 9:
            raise lib.Inconclusive("panic value kinds exercised: %s" % sorted(kinds))

        bad_lines = sorted({m["l"] for m in mm})[:CONFIRM_CAP]
        if bad_lines:
            again = confirm(binp, [cases[l - 1] for l in bad_lines], sc)
            for i, l in enumerate(bad_lines):
                ms = [m for m in mm if m["l"] == l]
                if i not in again:
                    raise lib.Inconclusive("recorded mismatch did not reproduce in %d isolated runs: %s" % (CONFIRM_ROUNDS, ms))
                for m in ms:
                    m["recorded"] = rows[l - 1]
                    m["recorded_again"] = again[i]
                    v.add("%s/%s" % (m["what"], m["kind"]), m)
        rc = v.finish()

        nontrivial = {rows[s["l"] - 1]["key"] for s in st if s["panics"] > 0 or rows[s["l"] - 1]["out"]["k"] != "nil"}
        lib.write_evidence(PID, tier, "model_checking", {
            "states": sum(r.distinct for r, _ in res),
            "transitions": sum(r.generated for r, _ in res),
            "traces_validated_against_impl": len(st),
            "samples": rep["samples"][:3] or rows[:2],
            "exhaustive": all(k is None for _, k in models),
            "evaluations": len(rows),
            "distinct_nontrivial": len(nontrivial),
            "rule": "every configuration TLC enumerates for the listed constants is model-checked over all completion schedules; each distinct configuration (key) is run once on the real errguard in a child process (ErrGuard_four.cfg: all configurations of <= 2 tasks plus a seeded sample of 1500 larger ones) with seeded random yields before each task ends; non-trivial = the configuration contains a panicking task or Wait returned non-nil; distinct = distinct configuration key",
            "models": per_model,
            "panic_value_kinds": sorted(kinds),
            "by_outcome": rep["extra"]["by_outcome"],
            "process_deaths": rep["extra"]["process_deaths"],
            "child_processes": rep["extra"]["child_processes"],
            "configurations_with_a_choice": sum(1 for s in st if s["choices"] > 1),
            "mismatches": len(mm),
        }, time.time() - t0, violations=len(v.violations),
            assumptions=["main module go >= 1.21, so panic(nil) reaches recover() as *runtime.PanicNilError",
                         "tasks spawn their children when they start; a parent Waits for its nested group before it ends",
                         "runtime.Goexit and goroutines not started through errguard are out of scope"])
        return rc


def replay(path):
    d = json.load(open(path))
    det = d["first"]["detail"]
    binp = lib.build("c48")
    rec = det["recorded"]
    with lib.Scratch() as sc:
        again = confirm(binp, [{"key": rec["key"], "tasks": rec["tasks"]}], sc)
        print(json.dumps(again.get(0, "not reproduced"), indent=1))
    print("VIOLATION reproduced" if again else "not reproduced on this tree")
    return 1 if again else 0
