"""C48 — guarded goroutines turn panics into errors (errguard.Go, errguard.RecoverAndLog).
Spec: spec/ErrGuard.tla (task trees, all completion schedules, Allowed = what Wait may return).
TLC model-checks the configurations (all schedules) and prints each configuration with its allowed
outcome set; binding B: harness/cmd/c48 runs each configuration on the real errguard in a child
process (a process death is the outcome "crash") and Trace_ErrGuard.tla judges every recorded outcome."""
import concurrent.futures as cf
import json, os, random, time
import lib

PID = "C48"
META = {
    "property_id": PID,
    "level": "model_checking",
    "technique": "TLA+ spec ErrGuard.tla (task trees of <= 4 guarded tasks ending nil / error / panic(value kind), nested groups, RecoverAndLog goroutines, all completion schedules) model-checked by TLC; every enumerated configuration run on the real errguard.Go/RecoverAndLog in a child process and the recorded outcome validated by Trace_ErrGuard.tla with TLC",
    "text": "TLC explores every completion schedule of every task tree (tasks ending nil, with their own error value, or with a panic whose value is a string, an error, a runtime error from a nil-map write / index out of range / nil dereference, panic(nil), a nil error interface, a typed nil pointer, an int; children on the same group, on a nested group whose Wait result the parent returns, or plain goroutines guarded by RecoverAndLog) and checks that Wait returns nil exactly when every task ended nil and otherwise one of the produced results, with the declared allowed set equal to the set of results the schedules produce. Each configuration is then built from real goroutines on errguard.Go in a child process that writes a begin marker per case; what the root Wait returned (nil / the identical error value of task i / another error and which panic values its message mentions / process death / stall) and which panics RecoverAndLog logged are recorded and judged by TLC against the allowed set.",
    "note": "Which failing task wins is left to the schedule (errgroup keeps the first). 'Unchanged' is identity of the returned error value; a converted panic must mention the %v text of the panic value. Goexit and panics in goroutines not started through errguard are out of scope. Trusted: TLC, the outcome classifier in harness/cmd/c48 (identity test, substring test).",
    "design_ref": "§7 C48",
}

CONFIRM_CAP = 25
CONFIRM_ROUNDS = 3


def run_model(cfg, workers, coverage):
    r = lib.tlc("ErrGuard", cfg, workers=workers, timeout=1500, coverage=coverage, heap="6g")
    lib.tlc_ok(r, "ErrGuard/" + cfg)
    if coverage:
        z = r.coverage_zero()
        if z:
            raise lib.Inconclusive("vacuous: actions never taken in %s: %s" % (cfg, z))
    cases = r.jsons("CASE")
    reached = {}
    for e in r.jsons("END"):
        reached.setdefault(e["key"], set()).add((e["ret"]["k"], e["ret"]["t"]))
    # the declared nondeterminism is exact: every allowed result is produced by some schedule
    for c in cases:
        want = {(a["k"], a["t"]) for a in c["allowed"]}
        if reached.get(c["key"]) != want:
            raise lib.Inconclusive("%s: Allowed %s differs from the results the schedules reach %s for %s"
                                   % (cfg, sorted(want), sorted(reached.get(c["key"], [])), c["key"]))
    return r, cases


def validate_trace(rows, sc, tag, timeout=1200):
    if not rows:
        return [], []
    p = os.path.join(sc, "trace-%s.ndjson" % tag)
    lib.write_ndjson(p, rows)
    r = lib.tlc("Trace_ErrGuard", "Trace_ErrGuard.cfg", workers=1, timeout=timeout, heap="2g",
                extra_files=[("c48_trace.ndjson", p)])
    lib.tlc_ok(r, "Trace_ErrGuard[%s]" % tag)
    if r.postcondition_failed:
        raise lib.Inconclusive("trace %s: high-water mark below the trace length\n%s" % (tag, r.out[-1500:]))
    if r.jsons("BADCFG"):
        raise lib.Inconclusive("trace %s: recorded configuration is not a configuration of the specification: %s" % (tag, r.jsons("BADCFG")[:2]))
    st = r.jsons("ST")
    if len(st) != len(rows) or r.distinct != len(rows) + 1:
        raise lib.Inconclusive("trace %s: %d lines judged of %d (states %d)" % (tag, len(st), len(rows), r.distinct))
    return r.jsons("MM"), st


def validate_parallel(rows, sc, nchunks, tag=""):
    if not rows:
        return [], []
    n = max(1, (len(rows) + nchunks - 1) // nchunks)
    parts = [rows[i:i + n] for i in range(0, len(rows), n)]
    mm, st = [], []
    with cf.ThreadPoolExecutor(max_workers=len(parts)) as ex:
        futs = [ex.submit(validate_trace, part, sc, "%s-p%d" % (tag, i)) for i, part in enumerate(parts)]
        off = 0
        for part, f in zip(parts, futs):
            m, s = f.result()
            for x in m + s:
                x["l"] += off
            mm += m
            st += s
            off += len(part)
    return mm, st


def run_real(binp, cases, sc, tag, seed):
    cpath, tpath = os.path.join(sc, "cases-%s.ndjson" % tag), os.path.join(sc, "real-%s.ndjson" % tag)
    lib.write_ndjson(cpath, [dict({"key": c["key"], "tasks": c["tasks"]}, **({"gate": c["gate"]} if c.get("gate") else {}))
                             for c in cases])
    rep = lib.run_report([binp, "run", "-file", cpath, "-out", tpath, "-seed", str(seed)])
    rows = lib.read_ndjson(tpath)
    complete = len(rows) == len(cases) or (rep["extra"]["aborted_after_deaths"] and len(rows) < len(cases))
    if not complete or any(r["key"] != c["key"] for r, c in zip(rows, cases)):
        raise lib.Inconclusive("driver recorded %d of %d cases" % (len(rows), len(cases)))
    return rep, rows


def gate_for(row):
    """A completion order for re-running a mismatching case: the task whose result Wait returned ends
    first (only the members of its own nested group must end before it), then the owner of the group
    it reports to (after that group's other members), and so on up to the root group; then the others
    in the recorded order.  Only a scheduling hint for the real run; the verdict stays with TLC."""
    out, tasks, order = row["out"], row["tasks"], row["order"]
    win = (out["is"] or out["mentions"] or ([out["t"]] if out["k"] == "err" else []))[:1]
    n = len(tasks)
    if not win or sorted(order) != list(range(1, n + 1)):
        return order

    def grp(i):
        t = tasks[i - 1]
        return 0 if t["p"] == 0 else (t["p"] if t["m"] == "inner" else grp(t["p"]))

    def before(a):      # everything that has to end before a can: its nested group, recursively
        res = []
        for i in order:
            if tasks[i - 1]["m"] != "log" and grp(i) == a:
                res += [x for x in before(i) + [i] if x not in res]
        return res
    gate, x = [], win[0]
    while x:
        gate += [i for i in before(x) + [x] if i not in gate]
        x = grp(x)
    return gate + [i for i in order if i not in gate]


def confirm(binp, cases, sc):
    """Each mismatching configuration alone in a fresh process, its tasks released in the completion
    order the mismatching run recorded (`gate`; which task's result a group keeps is schedule
    dependent), up to CONFIRM_ROUNDS times, judged again by TLC. Returns {index: re-recorded line}."""
    reproduced, todo = {}, list(range(len(cases)))
    for rnd in range(CONFIRM_ROUNDS):
        if not todo:
            break
        rows = []
        for i in todo:
            _, one = run_real(binp, [cases[i]], sc, "confirm-%d-%d" % (rnd, i), lib.seed() + 101 * rnd)
            rows += one
        mm, _ = validate_trace(rows, sc, "confirm-%d" % rnd)
        bad = {m["l"] - 1 for m in mm}
        for pos, i in enumerate(todo):
            if pos in bad:
                reproduced[i] = rows[pos]
        todo = [i for pos, i in enumerate(todo) if pos not in bad]
    return reproduced


def binding_selftest(rows, sc):
    """DESIGN §9: a good recorded trace with one field corrupted must be rejected by the validator."""
    failed = [r for r in rows if r["out"]["k"] in ("err", "other")][:3]
    calm = [r for r in rows if r["out"]["k"] == "nil"][:2]
    if not failed or not calm:
        raise lib.Inconclusive("binding self-test: no suitable recorded lines")
    bad = ([dict(r, out=dict(r["out"], k="nil", t=0, mentions=[], **{"is": []})) for r in failed]
           + [dict(r, out=dict(r["out"], k="crash")) for r in calm])
    mm, _ = validate_trace(bad, sc, "selftest")
    rejected = {m["l"] for m in mm}
    if len(rejected) != len(bad):
        raise lib.Inconclusive("binding self-test: %d of %d corrupted lines were accepted" % (len(bad) - len(rejected), len(bad)))
    return {"corrupted_lines": len(bad), "rejected": len(rejected)}


def pipeline(binp, cfg, take, workers, nchunks, tier, sc, rnd):
    """One constants file end to end: model-check, run its configurations on the real code, validate."""
    r, cs = run_model(cfg, workers, tier == "thorough")
    small = [c for c in cs if len(c["tasks"]) <= 2]
    rest = [c for c in cs if len(c["tasks"]) > 2]
    cases = small + (rest if take is None else lib.sample(rest, take, rnd))
    rep, rows = run_real(binp, cases, sc, cfg, lib.seed())
    mm, st = validate_parallel(rows, sc, nchunks, cfg)
    return {"cfg": cfg, "r": r, "configs": cs, "cases": cases, "rep": rep, "rows": rows, "mm": mm, "st": st}


def check(tier):
    t0 = time.time()
    binp = lib.build("c48")
    v = lib.Verdict(PID)
    # (constants file, how many of its > 2-task configurations are run on the real code: None = all,
    #  TLC workers, trace chunks)
    if tier == "quick":
        models = [("ErrGuard_quick.cfg", None, max(2, lib.NCPU - 4), 2), ("ErrGuard_kinds.cfg", None, 2, 1)]
        floor = 2500
    else:
        h = max(2, lib.NCPU // 2)
        models = [("ErrGuard_big.cfg", None, h, h), ("ErrGuard_kinds3.cfg", None, h, h)]
        floor = 100000
    with lib.Scratch() as sc:
        with cf.ThreadPoolExecutor(max_workers=len(models)) as ex:
            futs = [ex.submit(pipeline, binp, cfg, take, w, nch, tier, sc, random.Random(lib.seed()))
                    for cfg, take, w, nch in models]
            res = [f.result() for f in futs]
        nrun = sum(len(p["rows"]) for p in res)
        aborted = any(len(p["rows"]) < len(p["cases"]) for p in res)      # the driver stops after 40 process deaths
        if nrun < floor and not aborted:
            raise lib.Inconclusive("too few configurations: %d (floor %d)" % (nrun, floor))
        kinds = {t["e"]["v"] for p in res for c in p["cases"] for t in c["tasks"] if t["e"]["k"] == "panic"}
        if len(kinds) < 9:
            raise lib.Inconclusive("panic value kinds exercised: %s" % sorted(kinds))
        nmm = sum(len(p["mm"]) for p in res)
        selftest = binding_selftest([r for p in res for r in p["rows"]], sc) if tier == "thorough" and not nmm else None

        budget = CONFIRM_CAP
        for p in res:
            mm, rows, cases = p["mm"], p["rows"], p["cases"]
            bad_lines = sorted({m["l"] for m in mm})[:budget]
            budget -= len(bad_lines)
            if not bad_lines:
                continue
            again = confirm(binp, [dict(cases[l - 1], gate=gate_for(rows[l - 1])) for l in bad_lines], sc)
            for i, l in enumerate(bad_lines):
                ms = [m for m in mm if m["l"] == l]
                if i not in again:
                    raise lib.Inconclusive("recorded mismatch did not reproduce in %d isolated runs: %s" % (CONFIRM_ROUNDS, ms))
                for m in ms:
                    m["recorded"] = rows[l - 1]
                    m["recorded_again"] = again[i]
                    v.add("%s/%s" % (m["what"], m["kind"]), m)
        rc = v.finish()
        if aborted and rc == 0:
            raise lib.Inconclusive("the driver stopped after many process deaths but no violation was confirmed")

        nontrivial, choice, by_outcome = set(), set(), {}
        for p in res:
            for s in p["st"]:
                row = p["rows"][s["l"] - 1]
                if s["panics"] > 0 or row["out"]["k"] != "nil":
                    nontrivial.add(row["key"])
                if s["choices"] > 1:
                    choice.add(row["key"])
            for k, n in p["rep"]["extra"]["by_outcome"].items():
                by_outcome[k] = by_outcome.get(k, 0) + n
        samples = [x for p in res for x in p["rep"]["samples"][:2]] or res[0]["rows"][:2]
        lib.write_evidence(PID, tier, "model_checking", {
            "states": sum(p["r"].distinct for p in res),
            "transitions": sum(p["r"].generated for p in res),
            "traces_validated_against_impl": sum(len(p["st"]) for p in res),
            "samples": samples[:3],
            "exhaustive": all(take is None for _, take, _, _ in models),
            "evaluations": nrun,
            "distinct_nontrivial": len(nontrivial),
            "rule": "every configuration TLC enumerates for the listed constants files is model-checked over all completion schedules and run once on the real errguard in a child process (seeded random yields/delays before each task ends); non-trivial = the configuration contains a panicking task or Wait returned non-nil; distinct = distinct configuration key (configurations shared by two constants files are counted once)",
            "models": {p["cfg"]: {"configurations": len(p["configs"]), "states": p["r"].distinct, "generated": p["r"].generated,
                                  "run_on_real_code": len(p["rows"]), "tlc_wall_s": round(p["r"].wall, 1),
                                  "process_deaths": p["rep"]["extra"]["process_deaths"],
                                  "child_processes": p["rep"]["extra"]["child_processes"]} for p in res},
            "panic_value_kinds": sorted(kinds),
            "by_outcome": by_outcome,
            "process_deaths": sum(p["rep"]["extra"]["process_deaths"] for p in res),
            "configurations_with_a_choice": len(choice),
            "mismatches": nmm,
            "binding_selftest": selftest,
        }, time.time() - t0, violations=len(v.violations),
            assumptions=["main module go >= 1.21, so panic(nil) reaches recover() as *runtime.PanicNilError",
                         "tasks spawn their children when they start; a parent Waits for its nested group before it ends",
                         "runtime.Goexit and goroutines not started through errguard are out of scope"])
        return rc


def replay(path):
    d = json.load(open(path))
    det = d["first"]["detail"]
    binp = lib.build("c48")
    rec = det["recorded"]
    with lib.Scratch() as sc:
        again = confirm(binp, [{"key": rec["key"], "tasks": rec["tasks"], "gate": gate_for(rec)}], sc)
        print(json.dumps(again.get(0, "not reproduced"), indent=1))
    print("VIOLATION reproduced" if again else "not reproduced on this tree")
    return 1 if again else 0
