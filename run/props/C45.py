"""C45 - trace redaction never leaks identifiers or literals.
Spec: spec/Redact.tla (atomic Mapping + lock-level state machine + token-level verdict `Conforms`),
spec/Trace_Redact.tla (binding B).  TLC model-checks the Mapping machine over all interleavings, and
validates traces recorded from the real sql/sqlredact by harness/cmd/c45: session traces (several
statements share one Mapping) and concurrent bursts (goroutines share one Mapping, -race build)."""
import concurrent.futures, copy, json, os, random, re, time
import lib

PID = "C45"
META = {
    "property_id": PID,
    "level": "model_checking",
    "technique": "TLA+ spec Redact.tla: TLC exhaustive check of the RWMutex-level Mapping machine (Injective, CountersMatch, RepliesAgree, Stable; the no-re-check variant must violate them); traces of the real redactor (generated statements with token classes known by construction, shared Mapping per session, concurrent bursts under -race) validated by TLC against the token-level verdict Conforms of Trace_Redact.tla",
    "text": "For generated SELECT/INSERT/UPDATE/DELETE/CTE/JOIN/subquery/DDL statements whose token classes are ground truth by construction (random identifiers incl. non-reserved keywords, every literal kind, bind placeholders, comments), the redacted form has one token per non-comment input token in order, keywords/operators/bind placeholders unchanged, identifier and literal positions carry placeholders that are no spelling of any input lexeme (token equality and substring scan), equal lexemes <-> equal placeholders per namespace over the whole lifetime of a shared Mapping, unparseable input gives exactly the marker, the code's own Mapping snapshot is grow-only, injective and its counters match, and the results of concurrent redactions are explained by ONE injective mapping.",
    "note": "Verdict is token-level as the property states it; the documented `nK`/:vK spelling is only recorded (rendering_as_documented). Inputs: no word is used both as keyword and as identifier in one statement; `?` is accepted in its lexer spelling :vN. Trusted: TLC, the generator's classification by construction, the one-space output splitter.",
    "design_ref": "§7 C45",
}

TRACE = "c45_trace.ndjson"


def gen(binp, mode, out, traces, stmts, only=-1, reps=1, g=8):
    args = [binp, "-mode", mode, "-seed", str(lib.seed()), "-traces", str(traces), "-stmts", str(stmts),
            "-only", str(only), "-reps", str(reps), "-g", str(g), "-out", out]
    return lib.run_report(args, timeout=1200)


def split_traces(events, k):
    """k chunks of whole traces (a trace starts at a reset event)."""
    starts = [i for i, e in enumerate(events) if e["e"] == "reset"] + [len(events)]
    traces = [events[starts[i]:starts[i + 1]] for i in range(len(starts) - 1)]
    chunks = [[] for _ in range(max(1, min(k, len(traces))))]
    sizes = [0] * len(chunks)
    for t in sorted(traces, key=len, reverse=True):
        j = sizes.index(min(sizes))
        chunks[j].extend(t)
        sizes[j] += len(t)
    return [c for c in chunks if c]


def validate(events, sc, what, k=1):
    """TLC over Trace_Redact for the events; returns ([(event, disagreement)], [(event, rd)], tlc seconds)."""
    chunks = split_traces(events, k)

    def one(ix):
        p = os.path.join(sc, "%s-%d.ndjson" % (what, ix))
        lib.write_ndjson(p, chunks[ix])
        r = lib.tlc("Trace_Redact", "Trace_Redact.cfg", workers=1, timeout=3000, extra_files=[(TRACE, p)], heap="3g")
        lib.tlc_ok(r, "trace validation " + what)
        if r.postcondition_failed or r.distinct != len(chunks[ix]) + 1:
            raise lib.Inconclusive("trace validation %s stopped early: %d states for %d events\n%s" % (what, r.distinct, len(chunks[ix]), r.out[-2000:]))
        return r

    with concurrent.futures.ThreadPoolExecutor(max_workers=len(chunks)) as ex:
        rs = list(ex.map(one, range(len(chunks))))
    mms, rds = [], []
    for r in rs:
        if r.jsons("SX"):
            raise lib.Inconclusive("the two formulations of the property in Redact.tla disagree: %s" % r.jsons("SX")[:3])
    for ix, r in enumerate(rs):
        for m in r.jsons("MM"):
            ev = chunks[ix][m["l"] - 1]
            for d in m["ds"]:
                mms.append((ev, d))
        for m in r.jsons("RD"):
            rds.append((chunks[ix][m["l"] - 1], m))
    return mms, rds, sum(r.wall for r in rs)


def signature(ev, d):
    kind, tpl = d["kind"], ev.get("tpl", "")
    if kind == "leak/ident" and d["pos"] > 0:
        nc = [t for t in ev["in"] if t["c"] != "comment"]
        tok = nc[d["pos"] - 1]
        if tok.get("nr"):
            return "leak/kwident:%s:%s" % (tpl, tok["role"])
    return "%s:%s" % (kind, tpl)


def detail(ev, d, mode):
    nc = [t for t in ev.get("in", []) if t["c"] != "comment"]
    tok = nc[d["pos"] - 1]["s"] if 0 < d["pos"] <= len(nc) else None
    return {"mode": mode, "seed": lib.seed(), "trace": ev["tr"], "stmt": ev["i"], "disagreement": d, "input_token": tok,
            "sql": ev.get("sql"), "redacted": ev.get("o"), "template": ev.get("tpl"),
            "substring_leak": ev.get("substring_leak"), "offending": ev.get("offending")}


def corrupt(trace):
    """Three corrupted copies of a good session trace; each must be rejected (binding self-test)."""
    out = []
    # (a) a placeholder replaced by a spelling of its lexeme
    t = copy.deepcopy(trace)
    for ev in t:
        if ev["e"] == "stmt" and not ev["unp"]:
            nc = [x for x in ev["in"] if x["c"] != "comment"]
            for j, x in enumerate(nc):
                if x["c"] == "ident" and len(ev["out"]) == len(nc):
                    ev["out"][j]["t"] = x["f"][0]
                    out.append((t, "leak/ident"))
                    break
            else:
                continue
            break
    # (b) one output token dropped
    t = copy.deepcopy(trace)
    for ev in t:
        if ev["e"] == "stmt" and not ev["unp"] and len(ev["out"]) > 2:
            ev["out"].pop()
            out.append((t, "structure/length"))
            break
    # (c) the second occurrence of a lexeme gets another lexeme's placeholder
    t = copy.deepcopy(trace)
    seen, done = {}, False
    for ev in t:
        if ev["e"] != "stmt" or ev["unp"]:
            continue
        nc = [x for x in ev["in"] if x["c"] != "comment"]
        if len(nc) != len(ev["out"]):
            continue
        for j, x in enumerate(nc):
            if x["c"] != "ident":
                continue
            other = [v for k, v in seen.items() if k != x["k"] and v != ev["out"][j]["t"]]
            if x["k"] in seen and other:
                ev["out"][j]["t"] = other[0]
                done = True
                break
            seen[x["k"]] = ev["out"][j]["t"]
        if done:
            out.append((t, "consistency/ident"))
            break
    return out


def model_check(tier):
    cfg = "Redact_mc.cfg" if tier == "quick" else "Redact_big.cfg"
    r = lib.tlc("Redact", cfg, workers=4 if tier == "quick" else max(4, lib.NCPU // 2), timeout=1800, coverage=(tier == "thorough"), heap="4g")
    lib.tlc_ok(r, "Mapping model check " + cfg)
    if r.distinct < 1000:
        raise lib.Inconclusive("Mapping model check explored only %d states" % r.distinct)
    if tier == "thorough":
        z = [a for a in r.coverage_zero() if a not in ("MintNoRecheck",)]
        if z:
            raise lib.Inconclusive("vacuous: actions never taken: %s" % z)
    return r, cfg


def model_check_variant():
    """The seeded no-re-check variant must be caught by the same invariants (sensitivity of the model)."""
    r2 = lib.tlc("Redact", "Redact_norecheck.cfg", workers=1, timeout=600, heap="2g")
    if r2.error or not (r2.invariant_violated or r2.action_prop_violated):
        raise lib.Inconclusive("the no-re-check variant was not rejected by the invariants:\n" + r2.out[-1500:])
    return r2.invariant_violated + r2.action_prop_violated


def check(tier):
    t0 = time.time()
    big = tier == "thorough"
    v = lib.Verdict(PID)
    binp = lib.build("c45")
    binr = lib.build("c45", race=True)
    ntr, nst = (31, 10) if not big else (301, 10)
    nbursts, per_g, G = (30, 2, 8) if not big else (600, 2, 8)
    with lib.Scratch() as sc, concurrent.futures.ThreadPoolExecutor(max_workers=2) as bg:
        mc = bg.submit(model_check, tier)
        mcv = bg.submit(model_check_variant)
        sp, cp = os.path.join(sc, "s.ndjson"), os.path.join(sc, "c.ndjson")
        srep = gen(binp, "session", sp, ntr, nst)
        crep = gen(binr, "conc", cp, nbursts, per_g, g=G)
        sev, cev = lib.read_ndjson(sp), lib.read_ndjson(cp)
        # ---- vacuity floors
        ex = srep["extra"]
        need = {"ident": 500, "strlit": 50, "numlit": 50, "hexlit": 10, "bitlit": 3, "bind": 10, "comment": 10, "kw": 500, "op": 500}
        low = {c: ex["by_class"].get(c, 0) for c in need if ex["by_class"].get(c, 0) < need[c]}
        if low or ex["unparseable"] < 10 or ex["stmts_with_keyword_identifier"] < 50 or srep["nontrivial"] < 150:
            raise lib.Inconclusive("generator produced too little: %s %s" % (low, {k: ex[k] for k in ("unparseable", "stmts_with_keyword_identifier")}))
        if ex["discarded_not_parseable"] * 10 > srep["cases"]:
            raise lib.Inconclusive("generator: %d statements rejected by the parser" % ex["discarded_not_parseable"])
        if crep["cases"] < nbursts * 4:
            raise lib.Inconclusive("too few concurrent calls: %d" % crep["cases"])
        races = []
        if "DATA RACE" in crep["_stderr"]:
            again = gen(binr, "conc", os.path.join(sc, "c2.ndjson"), nbursts, per_g, g=G)
            if "DATA RACE" not in again["_stderr"]:
                raise lib.Inconclusive("race detector report did not reproduce")
            races.append(crep["_stderr"][-1500:])
        # ---- main validation: sessions, bursts, and the binding self-test (corrupted copies of a
        #      good trace must be rejected)
        selft = corrupt([e for e in sev if e["tr"] == 1])
        if len(selft) < 3:
            raise lib.Inconclusive("self-test: could not build the corrupted traces")
        stev = []
        for j, (t, kind) in enumerate(selft):
            for e in t:
                e["tr"] = -10 - j
            stev += t
        allmm, rds, w1 = validate(sev + stev + cev, sc, "main", k=3 if not big else 8)
        rds = [x for x in rds if x[0]["tr"] >= 0]
        for j, (t, kind) in enumerate(selft):
            if not any(ev["tr"] == -10 - j and d["kind"] == kind for ev, d in allmm):
                raise lib.Inconclusive("binding self-test: corrupted trace (%s) was accepted" % kind)
        mms_s = [(ev, d) for ev, d in allmm if ev.get("seq") and ev["tr"] >= 0]
        mms_c = [(ev, d) for ev, d in allmm if not ev.get("seq")]
        # ---- every disagreement is re-run in isolation: the trace alone, fresh process, fresh TLC
        confirm_events = []
        for tr in sorted({ev["tr"] for ev, _ in mms_s}):
            p = os.path.join(sc, "re-%d.ndjson" % tr)
            gen(binp, "session", p, ntr, nst, only=tr)
            confirm_events += lib.read_ndjson(p)
        conc_tr = sorted({ev["tr"] for ev, _ in mms_c})
        for tr in conc_tr[:5]:
            p = os.path.join(sc, "rc-%d.ndjson" % tr)
            gen(binr, "conc", p, nbursts, per_g, only=tr, reps=150, g=G)
            confirm_events += lib.read_ndjson(p)
        got, w3 = {}, 0.0
        if confirm_events:
            re_mm, _, w3 = validate(confirm_events, sc, "confirm", k=2 if not big else 6)
            for ev, d in re_mm:
                got.setdefault((bool(ev.get("seq")), ev["tr"]), set()).add((ev["i"], d["kind"], d["pos"]) if ev.get("seq") else d["kind"])
        for ev, d in mms_s:
            if (ev["i"], d["kind"], d["pos"]) not in got.get((True, ev["tr"]), set()):
                raise lib.Inconclusive("mismatch did not reproduce in isolation: %s" % detail(ev, d, "session"))
            v.add(signature(ev, d), detail(ev, d, "session"))
        for ev, d in mms_c:
            if ev["tr"] in conc_tr[:5] and d["kind"] not in got.get((False, ev["tr"]), set()):
                raise lib.Inconclusive("concurrent mismatch did not reproduce in 150 repetitions of the burst: %s" % detail(ev, d, "conc"))
            if ev["tr"] in conc_tr[:5]:
                v.add(signature(ev, d), detail(ev, d, "conc"))
        for r in races:
            v.add("conc/data-race", {"mode": "conc", "seed": lib.seed(), "report": r})
        # ---- the witness of the known finding (trace 0, statement 0) is replayed every run
        for f in v.findings:
            if not any(ev["tr"] == 0 and ev["i"] == 0 for ev, _ in mms_s):
                print("NOTE: property=%s finding %s: its witness no longer reproduces" % (PID, f["id"]))
        (mcr, cfg), caught = mc.result(), mcv.result()
        rc = v.finish()
        nsess = sum(1 for e in sev if e["e"] == "reset")
        nburst = sum(1 for e in cev if e["e"] == "reset")
        samples = (srep["samples"][:3] + crep["samples"][:1]) or [{"sql": sev[1].get("sql"), "redacted": sev[1].get("o")}]
        lib.write_evidence(PID, tier, "model_checking", {
            "states": mcr.distinct, "transitions": mcr.generated,
            "traces_validated_against_impl": nsess + nburst,
            "samples": samples,
            "model_exhaustive": True,
            "evaluations": srep["cases"] + crep["cases"],
            "distinct_nontrivial": ex["distinct_nontrivial"] + crep["extra"]["distinct_nontrivial"],
            "rule": "TLC explores every interleaving of the Mapping machine (%s, symmetry over clients and lexemes); "
                    "statements come from seeded templates with token classes known by construction, %d session traces x %d statements share one Mapping each, "
                    "%d bursts of 2..%d goroutines x %d calls share one Mapping each; non-trivial = >= 2 identifiers and >= 1 literal, or a lexeme repeated in the statement / already in the shared mapping; "
                    "distinct = distinct SQL texts among those" % (cfg, nsess, nst, nburst, G, per_g),
            "constants": cfg, "model_depth": mcr.depth, "norecheck_variant_violates": caught,
            "session_statements": srep["cases"], "concurrent_calls": crep["cases"], "events_validated": len(sev) + len(cev),
            "by_template": ex["by_template"], "by_class": ex["by_class"], "unparseable_inputs": ex["unparseable"],
            "statements_with_keyword_identifier": ex["stmts_with_keyword_identifier"],
            "discarded_by_parser": ex["discarded_not_parseable"], "soup_accepted_by_parser": ex["discarded_soup_parseable"],
            "substring_scan_hits": ex["substring_scan_hits"] + crep["extra"]["substring_scan_hits"],
            "rendering_as_documented": "yes" if not rds else "no (%d statements)" % len(rds),
            "observation_bind_spelled_like_value_placeholder": ex["bind_spelled_like_value_placeholder"],
            "disagreements": len(mms_s) + len(mms_c), "known_finding_occurrences": sum(len(x) for x in v.known.values()),
            "binding_selftest_rejected": [k for _, k in selft],
            "tlc_wall_s": {"model": round(mcr.wall, 1), "traces": round(w1, 1), "confirm": round(w3, 1)},
        }, time.time() - t0, violations=len(v.violations),
            assumptions=["the generator's token classification is right by construction (cross-checked: every parseable-case statement is accepted by the vitess parser, every unparseable-case input is rejected)",
                         "no word is used as keyword and as identifier within one statement (the identifier-set lookup redacts both, by design)",
                         "a positional bind `?` may appear in the lexer's spelling :vN"])
        return rc


def replay(path):
    rec = json.load(open(path))
    d = rec["first"]["detail"]
    os.environ["VERIF_SEED"] = str(d.get("seed", 1))
    mode = d.get("mode", "session")
    binp = lib.build("c45", race=(mode == "conc"))
    with lib.Scratch() as sc:
        p = os.path.join(sc, "r.ndjson")
        if mode == "session":
            gen(binp, "session", p, d["trace"] + 1, 10, only=d["trace"])
        else:
            gen(binp, "conc", p, d["trace"] + 1, 2, only=d["trace"], reps=150)
        mms, _, _ = validate(lib.read_ndjson(p), sc, "replay")
        for ev, dd in mms:
            print("MM", signature(ev, dd), json.dumps(detail(ev, dd, mode))[:600])
        return 1 if any(signature(ev, dd) == rec["signature"] for ev, dd in mms) else 0
