"""C05 — a predicate partitions rows into TRUE, FALSE and NULL parts.
Design half: TLC checks the partition / NOT-push-down / filter-is-TRUE laws of the evaluator
SQLSem over a bounded enumeration of predicates x tables (spec/MC_Query.tla).  Binding B: for generated
base queries and predicates (interpreted ones and ones using built-ins the specification leaves
opaque) placed in WHERE, HAVING or an inner-join ON, the engine's five result sets are recorded and
TLC judges the laws on them (spec/Trace_Laws.tla); interpreted cases are also judged against Rows."""
import time
import lib, sqlcommon as sc

PID = "C05"
META = {
    "property_id": PID,
    "level": "model_checking",
    "technique": "TLA+ SQLSem evaluator: TLC model-checks the ternary-partition laws exhaustively on a bounded predicate x table space; TLC trace validation of the laws (and of the meaning where interpreted) on recorded engine results for generated predicates in WHERE/HAVING/ON",
    "text": "The TRUE/FALSE/NULL partition and 'a filter keeps exactly the rows whose select-list value IS TRUE' are invariants of the specification's evaluator (checked by TLC over all depth-2 predicates x all small tables) and are then demanded of the real engine on every generated (query, predicate, placement): TLC evaluates the bag equations on the logged result sets, so optimizer rewrites that change a predicate's meaning in any position are rejected.",
    "note": "Uninterpreted built-ins are only related by the law (their truth values are taken from the engine's own select-list evaluation); trusted: TLC, renderer/normaliser.",
}


def check(tier):
    t0 = time.time()
    # design half: the laws hold of the specification itself
    cfg = "MC_Query_laws.cfg" if tier == "quick" else "MC_Query_lawsfull.cfg"
    r = lib.tlc("MC_Query", cfg, workers=lib.NCPU, timeout=3000, heap="8g")
    lib.tlc_ok(r, "MC_Query laws")
    lib.log("[C05] laws: %d states in %.0fs" % (r.distinct, r.wall))
    ndb, nq = (30, 20) if tier == "quick" else (500, 30)
    gen_args = ["-mode", "c05", "-seed", str(lib.seed()), "-dbs", str(ndb), "-queries", str(nq), "-depth", "2"]
    return sc.driver_check(PID, tier, gen_args,
                           "seeded random base queries (single table or 2-way join, cross join for ON) x random predicates (half interpreted, half mixing ~70 built-in string/number/date/JSON/LIKE/REGEXP/CASE templates) placed in WHERE / HAVING / ON; 5 executions per case; non-trivial = the TRUE part is a proper non-empty subset",
                           chunk=40 if tier == "quick" else 200, module="Trace_Laws",
                           extra_cov={"law_states": r.distinct, "law_config": cfg, "law_wall_s": round(r.wall, 1)})


def replay(path):
    return sc.replay_case(PID, path, module="Trace_Laws")
