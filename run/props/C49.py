"""C49 — name suggestions pick a closest candidate (internal/similartext Find / FindFromMap).
Spec: spec/SimilarText.tla (recursive DistID / DistLev, Qualifying, Closest, Admissible).
Binding A: TLC enumerates every (name, candidate list) of the bounded domain and prints, per case, the
set of suggestion sets the specification allows; harness/cmd/c49 runs the real functions on each case.
Binding B: seeded random longer cases recorded from the real code are judged by Trace_SimilarText.tla."""
import concurrent.futures as cf
import json, os, time
import lib

PID = "C49"
META = {
    "property_id": PID,
    "level": "model_checking",
    "technique": "TLA+ spec SimilarText.tla (recursive definitions of the two unit-cost edit distances, Qualifying, Closest, Admissible); TLC enumerates every bounded (name, candidate list) case with the allowed suggestion sets, replayed on the real similartext.Find/FindFromMap; random longer recorded cases validated by Trace_SimilarText.tla with TLC",
    "text": "TLC evaluates the textbook recursive edit distances (insert/delete 1 with substitution 2, and classic Levenshtein) on every name of length <= 3 over {a,b} against every candidate list of <= 3 such names, checks the model-level lemmas (tabulated distance = recursive definition, metric sanity, some answer always allowed), and prints for each case the suggestion sets the property allows (nothing iff nothing is within the threshold, otherwise only candidates at the minimum distance, for one of the two metrics; an empty given name may get no suggestion). The real Find and FindFromMap are run on every case and their suggested SET must be one of those. Seeded random names up to length 7 over 3-4 letters with <= 5 candidates are run on the real code, recorded, and every recorded line is judged by TLC with the same operators.",
    "note": "Rendering and order of the suggestion are not compared (set semantics). The current tree is explained by DistID on every case (recorded in evidence). The package is internal/, so the harness binds Find/FindFromMap with go:linkname to the package compiled from /repo. Trusted: TLC, the rendering parser (split on ' or ') in harness/cmd/c49.",
    "design_ref": "§7 C49",
}

CONFIRM_CAP = 25


def chunks(rows, k):
    n = max(1, (len(rows) + k - 1) // k)
    return [rows[i:i + n] for i in range(0, len(rows), n)]


def validate_trace(rows, sc, tag, timeout=900):
    """Judge recorded lines with Trace_SimilarText. Returns (mm, st, lemma) lists; l is 1-based in rows."""
    if not rows:
        return [], [], []
    p = os.path.join(sc, "trace-%s.ndjson" % tag)
    lib.write_ndjson(p, rows)
    r = lib.tlc("Trace_SimilarText", "Trace_SimilarText.cfg", workers=1, timeout=timeout, heap="2g",
                extra_files=[("c49_trace.ndjson", p)])
    lib.tlc_ok(r, "Trace_SimilarText[%s]" % tag)
    if r.postcondition_failed:
        raise lib.Inconclusive("trace %s: high-water mark below the trace length\n%s" % (tag, r.out[-1500:]))
    st = r.jsons("ST")
    if len(st) != len(rows) or r.distinct != len(rows) + 1:
        raise lib.Inconclusive("trace %s: %d lines judged of %d (states %d)" % (tag, len(st), len(rows), r.distinct))
    return r.jsons("MM"), st, r.jsons("LEMMA")


def run_enum(binp, cfgs, sc, tier):
    """Binding A for each constants file: TLC dumps the cases, the replayer runs them on the real code.
    Returns per-cfg (TLCResult, cases, report)."""
    out = []
    for cfg in cfgs:
        path = os.path.join(sc, "cases-%s.ndjson" % cfg)
        r, cases = lib.dump_transitions("SimilarText", cfg, path, prefix="CASE", workers=lib.NCPU, timeout=1500,
                                        coverage=(tier == "thorough"), heap="6g")
        if tier == "thorough":
            z = r.coverage_zero()
            if z:
                raise lib.Inconclusive("vacuous: actions never taken: %s" % z)
        rep = lib.run_report([binp, "replay", "-file", path])
        if rep["cases"] != len(cases):
            raise lib.Inconclusive("%s: %d cases dumped, %d replayed" % (cfg, len(cases), rep["cases"]))
        out.append((r, cases, rep))
    return out


def run_random(binp, n, sc, nchunks):
    tpath = os.path.join(sc, "random.ndjson")
    grep = lib.run_report([binp, "gen", "-seed", str(lib.seed()), "-n", str(n), "-out", tpath])
    rows = lib.read_ndjson(tpath)
    parts = chunks(rows, nchunks)
    mm, st = [], []
    with cf.ThreadPoolExecutor(max_workers=len(parts)) as ex:
        futs = [ex.submit(validate_trace, part, sc, "r%d" % i) for i, part in enumerate(parts)]
        off = 0
        for part, f in zip(parts, futs):
            m, s, lem = f.result()
            if lem:
                raise lib.Inconclusive("specification lemma DistTab = DistRec fails on %s" % lem[:2])
            for x in m:
                x["l"] += off
            for x in s:
                x["l"] += off
            mm += m
            st += s
            off += len(part)
    return grep, rows, mm, st


def confirm_a(binp, case, sc, i):
    """Binding A mismatch: the single case alone in a fresh process."""
    p = os.path.join(sc, "confirm-a-%d.ndjson" % i)
    lib.write_ndjson(p, [case])
    return lib.run_report([binp, "replay", "-file", p])["mismatches"]


def confirm_b(binp, rows, sc):
    """Binding B mismatches: every input re-recorded alone in a fresh process, judged again by TLC.
    Returns the set of indexes (into rows) that TLC still rejects."""
    again = []
    for i, row in enumerate(rows):
        pin, pout = os.path.join(sc, "confirm-b-%d.in" % i), os.path.join(sc, "confirm-b-%d.out" % i)
        lib.write_ndjson(pin, [row])
        lib.run_report([binp, "record", "-file", pin, "-out", pout])
        again += lib.read_ndjson(pout)
    mm, _, _ = validate_trace(again, sc, "confirm")
    return {m["l"] - 1 for m in mm}, again


def binding_selftest(rows, sc):
    """DESIGN §9: a good recorded trace with one field corrupted must be rejected by the validator."""
    good = [r for r in rows if r["find"]][:5]
    if not good:
        raise lib.Inconclusive("binding self-test: no recorded line with a suggestion")
    mm, _, _ = validate_trace([dict(r, find=[], map=[]) for r in good], sc, "selftest")
    rejected = {m["l"] for m in mm}
    if len(rejected) != len(good):
        raise lib.Inconclusive("binding self-test: %d of %d corrupted lines were accepted" % (len(good) - len(rejected), len(good)))
    return {"corrupted_lines": len(good), "rejected": len(rejected)}


def check(tier):
    t0 = time.time()
    binp = lib.build("c49")
    v = lib.Verdict(PID)
    cfgs, nrand, nchunks, floor = ((["SimilarText_enum.cfg"], 900, 3, 50000) if tier == "quick"
                                   else (["SimilarText_enum.cfg", "SimilarText_big.cfg", "SimilarText_pairs.cfg"],
                                         40000, max(2, lib.NCPU - 2), 250000))
    with lib.Scratch() as sc:
        with cf.ThreadPoolExecutor(max_workers=2) as ex:
            fa = ex.submit(run_enum, binp, cfgs, sc, tier)
            fb = ex.submit(run_random, binp, nrand, sc, nchunks)
            enums = fa.result()
            grep, rows, mm, st = fb.result()
        ncases = sum(len(cases) for _, cases, _ in enums)
        if ncases < floor:
            raise lib.Inconclusive("too few enumerated cases: %d (floor %d)" % (ncases, floor))
        nt_rows = {json.dumps([rows[s["l"] - 1]["name"], rows[s["l"] - 1]["cands"]]) for s in st if s["nt"]}
        if len(st) != nrand or len(nt_rows) < nrand // 5:
            raise lib.Inconclusive("random cases: %d judged of %d, %d distinct non-trivial" % (len(st), nrand, len(nt_rows)))

        selftest = binding_selftest(rows, sc) if tier == "thorough" else None
        # ---- binding A mismatches, each re-run alone in a fresh process
        budget = CONFIRM_CAP
        for cfg, (r, cases, rep) in zip(cfgs, enums):
            for k, m in enumerate(rep["mismatches"][:budget]):
                again = confirm_a(binp, cases[m["case"]], sc, k)
                if not again:
                    raise lib.Inconclusive("enumerated mismatch did not reproduce: %s" % m)
                if not any(a["signature"] == m["signature"] for a in again):
                    raise lib.Inconclusive("enumerated mismatch changed on re-run: %s vs %s" % (m, again))
                v.add("enum/" + m["signature"], m)
                budget -= 1
        # ---- binding B mismatches
        bad_lines = sorted({m["l"] for m in mm})[:CONFIRM_CAP]
        if bad_lines:
            still, again = confirm_b(binp, [rows[l - 1] for l in bad_lines], sc)
            for i, l in enumerate(bad_lines):
                if i not in still:
                    raise lib.Inconclusive("recorded mismatch did not reproduce: %s" % [m for m in mm if m["l"] == l])
                for m in [m for m in mm if m["l"] == l]:
                    m["recorded"] = again[i]
                    v.add("trace/%s/%s" % (m["api"], m["kind"]), m)
        rc = v.finish()

        ex_a = {}
        for _, _, rep in enums:
            for k, n in rep["extra"]["explained_by"].items():
                ex_a[k] = ex_a.get(k, 0) + n
        nt_a = sum(rep["nontrivial"] for _, _, rep in enums)
        id_b = sum(1 for s in st if s["id"])
        lev_b = sum(1 for s in st if s["lev"])
        samples = (enums[-1][2]["samples"][:2] + grep["samples"][:2]) or enums[0][1][:2]
        lib.write_evidence(PID, tier, "model_checking", {
            "states": sum(r.distinct for r, _, _ in enums), "transitions": ncases,
            "traces_validated_against_impl": ncases + len(st),
            "samples": samples,
            "exhaustive": True,
            "evaluations": ncases + len(st),
            "distinct_nontrivial": nt_a + len(nt_rows),
            "rule": "binding A: every (name, candidate list) of the bounded domains (%s) once per domain, both Find and FindFromMap; binding B: %d seeded random cases (names <= 7 over 3-4 letters, <= 5 candidates, 70%% of candidates derived from the name by 0-4 random edits) judged by TLC; non-trivial = the property forbids at least one answer that could be built from the candidates (decided by TLC); distinct = distinct (name, candidate list) within a domain / within the random cases" % (", ".join(cfgs), nrand),
            "enumerated": {cfg: {"cases": len(cases), "nontrivial": rep["nontrivial"], "states": r.distinct,
                                 "tlc_wall_s": round(r.wall, 1), "mismatches": rep["extra"].get("mismatches_total", len(rep["mismatches"]))}
                           for cfg, (r, cases, rep) in zip(cfgs, enums)},
            "random_lines_validated": len(st), "random_distinct_nontrivial": len(nt_rows),
            "nonempty_suggestions": {"enumerated": sum(rep["extra"]["nonempty_suggestions"] for _, _, rep in enums),
                                     "random": grep["extra"]["nonempty_suggestions"]},
            "explained_by": {"enumerated": ex_a, "random": {"DistID": id_b, "DistLev": lev_b}},
            "tree_explained_by_DistID_everywhere": (ex_a["DistID-or-empty-name"] == ncases
                                                    and all(s["id"] or not rows[s["l"] - 1]["name"] for s in st)),
            "lemma_pairs_checked_in_traces": sum(s["lem"] for s in st),
            "random_mismatches": len(mm),
            "binding_selftest": selftest,
        }, time.time() - t0, violations=len(v.violations),
            assumptions=["names are ASCII (the code is byte-wise, the specification element-wise)",
                         "the rendering ', maybe you mean X or Y?' is parsed by splitting on ' or ' (candidate names never contain it)",
                         "Find/FindFromMap are bound with go:linkname to the package compiled from /repo (internal/ cannot be imported)"])
        return rc


def replay(path):
    """Re-run a recorded violation: the failing input alone on the current tree, judged by TLC."""
    d = json.load(open(path))
    det = d["first"]["detail"]
    binp = lib.build("c49")
    with lib.Scratch() as sc:
        if d["signature"].startswith("enum/"):
            again = confirm_a(binp, det["input"], sc, 0)
            print(json.dumps(again, indent=1))
            bad = bool(again)
        else:
            still, again = confirm_b(binp, [det["recorded"]], sc)
            print(json.dumps(again, indent=1))
            bad = bool(still)
    print("VIOLATION reproduced" if bad else "not reproduced on this tree")
    return 1 if bad else 0
