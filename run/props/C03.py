"""C03 — index lookups return exactly the rows a full scan would.
Spec: an index lookup MEANS {r in table : Eval(filter, r) IS TRUE} (spec/SQLSem.tla); spec/Trace_Index.tla
judges one recorded event per case: the result through the table with keys and the result through a
key-free copy with identical rows must each be an acceptable result of the query and equal as bags,
and the ranges of the index lookup read off the analysed plan are checked point by point (operator
Member) against the filter on probe rows and against the rows actually returned (locates a fault in
range construction vs range execution).
Binding B: harness/cmd/c03 generates table shapes (TINYINT/SMALLINT/INT, VARCHAR _bin/_ai_ci; primary,
secondary, composite, unique, prefix keys) and filters over the indexed columns (equalities, ranges,
IN, IS [NOT] NULL, BETWEEN, <=>, AND/OR/NOT; literals incl. NULL, type boundaries and out-of-type
values).  Binding A: spec/MC_Index.tla draws (table, filter) cases from the bounded enumeration over the
key domain {NULL,0,1,2}; they are executed over single- and two-column index layouts."""
import json, os, time
import concurrent.futures as cf
import lib, sqlcommon as sc

PID = "C03"
META = {
    "property_id": PID,
    "level": "model_checking",
    "technique": "TLA+ query-meaning spec SQLSem.tla as the meaning of an index lookup; TLC trace validation (Trace_Index.tla) of paired executions (table with keys / key-free copy) incl. point-by-point membership of probe rows in the index ranges read off the analysed plan; TLC enumeration MC_Index.tla of filters over a small key domain executed on the engine",
    "text": "For generated tables (TINYINT / SMALLINT / INT and VARCHAR columns under utf8mb4_0900_bin and utf8mb4_0900_ai_ci; primary keys, secondary, multi-column, UNIQUE and prefix indexes; <= 14 rows with NULLs and duplicates) and generated filters over the indexed columns (=, <>, <, <=, >, >=, <=>, IN / NOT IN lists, IS [NOT] NULL, [NOT] BETWEEN, literal on either side, AND / OR / NOT nesting; literals incl. NULL, the type's boundary values and values outside the type such as 200 / -200 / 128 against TINYINT and 70000 / 32768 against SMALLINT) the same SELECT is run against the table with its keys and against a key-free copy with identical rows. TLC decides per case that each result is the set of rows on which the filter IS TRUE and that the two are equal as bags; when the plan of the keyed variant contains an index access (counted as non-trivial; measured per key kind) the lookup's ranges are read off the plan and TLC checks on probe rows around the literals and stored values that the ranges contain every point where the filter is TRUE (and nothing else when no Filter node remains), and that the returned rows are exactly / among the rows whose key lies in the ranges. TLC additionally draws (table of <= 3 rows, filter of <= 3 atoms) cases over the key domain {NULL,0,1,2} which are executed over six index layouts and three integer types.",
    "note": "Interpreted fragment only (int32-safe integers, strings over [0-9A-Za-z ], comparisons within one family and collation). The in-memory backend stores whole values in prefix indexes; the property is checked as stated (result equality), membership is evaluated on whole values. Two open findings (IN list over an _ai_ci column compares binary in the scan but not in the index range; IN list whose members all lie outside the integer type of a single-column index returns every row / panics) are replayed as witnesses; the generator produces those shapes rarely. Trusted: TLC, the SQL renderer / value normaliser (representation only), the reading of sql.MySQLRangeCut values into cut records.",
    "design_ref": "§7 C03, Appendix A (secondary indexes)",
}

PROCS = int(os.environ.get("VERIF_PROCS", "0")) or None      # validation processes (default: cores - 2)


def idx(*cols):
    return {"cols": list(cols), "prefix": [0] * len(cols), "unique": False}


LAYOUTS = [[idx(0)], [idx(1)], [idx(0, 1)], [idx(1, 0)], [idx(0), idx(1)], [idx(0, 1), idx(1)]]
TYPES = ["i32", "i8", "i16"]


def sig(ev, m):
    """<property>|<disagreements>[outcome kinds unless both are rows]|<filter / column / key tags>"""
    ki, kn = (ev.get("ri") or {}).get("kind", "?"), (ev.get("rn") or {}).get("kind", "?")
    kinds = "" if (ki, kn) == ("rows", "rows") else "[indexed=%s,keyfree=%s]" % (ki, kn)
    return "%s|%s%s|%s" % (PID, ",".join(m.get("bad", [])), kinds, ",".join(ev.get("tags", [])))


def detail(ev, m):
    lk = ev.get("lk") or {}
    return {"sql": ev.get("sql"), "sql_keyfree": ev.get("sqln"), "indexed": ev.get("ri"), "keyfree": ev.get("rn"),
            "disagreement": m.get("bad"), "expected_rows": sc.pretty_rows(m.get("exp", [])),
            "ranges": lk.get("text"), "index": lk.get("index"), "filter_above_lookup": (not lk.get("exact")) if lk else None,
            "point": sc.pretty_rows([m["point"]]) if m.get("point") else None,
            "id": ev.get("id"), "seed": lib.seed(), "case_file": ev.get("case_file")}


def write_witnesses(src):
    fs = [f for f in lib.load_findings(PID) if f.get("witness_file")]
    owner = {}
    with open(src, "w") as out:
        for k, f in enumerate(fs):
            for line in open(os.path.join(lib.VERIF, f["witness_file"])):
                if not line.strip():
                    continue
                e = json.loads(line)
                if "id" in e:
                    e["id"] = 9000000 + k * 1000 + e["id"] % 1000
                    owner[e["id"]] = f["id"]
                out.write(json.dumps(e) + "\n")
    return owner


def star_query(p, w=2):
    tt = {"k": "lit", "v": {"t": "i", "v": 1}}
    return {"k": "select", "from": {"k": "table", "name": "t"}, "where": p, "grouped": False, "group": [], "having": tt,
            "proj": [{"k": "col", "d": 0, "i": i + 1, "c": "none"} for i in range(w)], "distinct": False, "order": [],
            "limit": -1, "offset": 0}


def mc_index_cases(n, path, id_base=1000000):
    """TLC (spec/MC_Index.tla, simulate mode) draws n tables with 6 filters each from the bounded
    enumeration and checks the specification laws on them; written as db/ix cases for `c03 -mode exec`,
    each table under one of six index layouts and one of three integer column types."""
    r = lib.tlc("MC_Index", "MC_Index_emit.cfg", workers=1, timeout=900, simulate="num=%d" % n, depth=3,
                tlc_seed=lib.seed(), heap="3g")
    if r.error or r.invariant_violated:
        raise lib.Inconclusive("MC_Index: %s\n%s" % (r.error or r.invariant_violated, r.out[-2000:]))
    cases = r.jsons("CASE")
    if len(cases) < n * 0.9:
        raise lib.Inconclusive("MC_Index emitted only %d cases" % len(cases))
    nq = 0
    with open(path, "w") as f:
        for k, c in enumerate(cases):
            lay = LAYOUTS[(k + lib.seed()) % len(LAYOUTS)]
            ty = TYPES[(k // len(LAYOUTS) + lib.seed()) % len(TYPES)]
            d = {"cols": [{"ty": ty, "coll": "none", "notnull": False}] * 2, "pk": [], "idx": lay, "rows": c["tb"]}
            f.write(json.dumps({"ev": "db", "db": {"t": {"w": 2, "rows": c["tb"]}}, "def": d}) + "\n")
            seen = set()
            for j, p in enumerate(c["ps"]):
                key = json.dumps(p, sort_keys=True)
                if key in seen:
                    continue
                seen.add(key)
                nq += 1
                f.write(json.dumps({"ev": "ix", "id": id_base + nq, "q": star_query(p), "shape": "enumerated",
                                    "star": bool((k + j) % 2)}) + "\n")
    return nq, r


def corrupted_events(trace):
    """Sensitivity probes (ids 8000000+) made of a recorded good case that went through an index and
    returned rows: (a) one row removed from the indexed result, (b) the logged ranges replaced by none,
    (c) a row removed from the key-free result. The validator must reject each with the matching
    disagreement, else the run proves nothing."""
    cur_db = None
    for line in open(trace):
        if line.startswith('{"ev":"db"'):
            cur_db = line
            continue
        e = json.loads(line)
        lk = e.get("lk") or {}
        if e.get("ev") != "ix" or not lk.get("has") or e["ri"]["kind"] != "rows" or not e["ri"]["rows"] or e["rn"]["kind"] != "rows":
            continue
        a, b, c = json.loads(line), json.loads(line), json.loads(line)
        a["id"], b["id"], c["id"] = 8000001, 8000002, 8000003
        a["ri"]["rows"] = a["ri"]["rows"][:-1]
        b["lk"]["ranges"] = []
        c["rn"]["rows"] = c["rn"]["rows"][:-1]
        return [cur_db] + [json.dumps(x) + "\n" for x in (a, b, c)]
    return []


PROBE_EXPECT = {8000001: "indexed", 8000002: "range-construction", 8000003: "scan"}


def validate(path, chunk, procs=None):
    return sc.validate_trace(path, module="Trace_Index", chunk=chunk, procs=procs)


def confirm(binp, run_args, bad, scd, tag):
    """Re-run the mismatching cases alone in ONE fresh process and re-validate them; every one of them
    must disagree again (else the run is inconclusive). Keeps one isolated case file per case."""
    if not bad:
        return
    ids = sorted({e["id"] for e in bad})
    out = os.path.join(scd, "confirm-%s.ndjson" % tag)
    lib.run_report([binp] + run_args + ["-only", ",".join(map(str, ids)), "-out", out])
    mms, _ = validate(out, 400, procs=PROCS)
    cevs = sc.load_events(out)
    again = {cevs[m["line"]]["id"] for m in mms}
    d = os.path.join(lib.VERIF, "replays", PID)
    os.makedirs(d, exist_ok=True)
    cur_db = None
    for line in open(out).read().splitlines():
        if line.startswith('{"ev":"db"'):
            cur_db = line
            continue
        e = json.loads(line)
        if e.get("id") in again:
            keep = os.path.join(d, "%s-seed%d-id%d.ndjson" % (tag, lib.seed(), e["id"]))
            with open(keep, "w") as f:
                f.write((cur_db or "") + "\n" + line + "\n")
            for ev in bad:
                if ev["id"] == e["id"]:
                    ev["case_file"] = keep
    for ev in bad:
        if ev["id"] not in again:
            raise lib.Inconclusive("mismatch did not reproduce in isolation: %s" % ev.get("sql"))


def merge(total, rep, key):
    for c, n in (rep["extra"].get(key) or {}).items():
        total.setdefault(key, {})
        total[key][c] = total[key].get(c, 0) + n


def check(tier):
    t0 = time.time()
    quick = tier == "quick"
    ndb, nq = (30, 20) if quick else (500, 30)
    nmc = 60 if quick else 2500
    binp = lib.build("c03")
    v = lib.Verdict(PID)
    cov_extra = {}
    with lib.Scratch() as scd:
        cases = os.path.join(scd, "mc-cases.ndjson")
        with cf.ThreadPoolExecutor(max_workers=2) as ex:
            fut = ex.submit(mc_index_cases, nmc, cases)      # binding A: TLC draws cases meanwhile
            wsrc, wtrace = os.path.join(scd, "witnesses-in.ndjson"), os.path.join(scd, "witnesses-out.ndjson")
            owner = write_witnesses(wsrc)
            wrep = lib.run_report([binp, "-mode", "exec", "-seed", str(lib.seed()), "-in", wsrc, "-out", wtrace]) if owner else {"cases": 0}
            gen_args = ["-mode", "gen", "-seed", str(lib.seed()), "-dbs", str(ndb), "-queries", str(nq)]
            trace = os.path.join(scd, "trace.ndjson")
            rep = lib.run_report([binp] + gen_args + ["-out", trace], timeout=3000)
            lib.log("[%s] generated %d cases (%d through an index) in %.1fs" % (PID, rep["cases"], rep["nontrivial"], time.time() - t0))
            nmcq, rmc = fut.result()
        mctrace = os.path.join(scd, "mc-trace.ndjson")
        mc_args = ["-mode", "exec", "-seed", str(lib.seed()), "-in", cases]
        mrep = lib.run_report([binp] + mc_args + ["-out", mctrace], timeout=1800)
        lib.log("[%s] enumerated cases executed: %d (%d through an index), %.1fs" % (PID, nmcq, mrep["nontrivial"], time.time() - t0))

        allp = os.path.join(scd, "all.ndjson")
        nlines = 0
        with open(allp, "w") as out:
            for p in ([wtrace] if owner else []) + [mctrace, trace]:
                for line in open(p):
                    out.write(line)
                    nlines += 1
            probes = corrupted_events(trace)
            for line in probes:
                out.write(line)
                nlines += 1
        procs = PROCS or max(1, lib.NCPU - 2)
        mms, states = validate(allp, max(40, min(400, nlines // procs + 1)), procs)
        lib.log("[%s] validated %d events, %d mismatches, %.1fs" % (PID, nlines, len(mms), time.time() - t0))
        evs = sc.load_events(allp)
        caught = {evs[m["line"]]["id"]: m["bad"] for m in mms if 8000000 <= evs[m["line"]]["id"] < 9000000}
        problem = None          # vacuity findings end the run as inconclusive unless a violation was reproduced
        if not probes or any(want not in caught.get(i, []) for i, want in PROBE_EXPECT.items()):
            problem = "sensitivity probe: the validator accepted a corrupted case (caught %s of %d probe lines)" % (caught, len(probes))
        mms = [m for m in mms if not 8000000 <= evs[m["line"]]["id"] < 9000000]
        wmm = [m for m in mms if evs[m["line"]]["id"] >= 9000000]
        mmm = [m for m in mms if 1000000 <= evs[m["line"]]["id"] < 9000000]
        gmm = [m for m in mms if evs[m["line"]]["id"] < 1000000]
        for m in wmm:
            ev = evs[m["line"]]
            d = detail(ev, m)
            d["witness_of"] = owner.get(ev.get("id"))
            v.add(sig(ev, m), d)
        confirm(binp, mc_args, [evs[m["line"]] for m in mmm], scd, "case-mc")
        for m in mmm:
            ev = evs[m["line"]]
            v.add(sig(ev, m) + "|enumerated", detail(ev, m))
        confirm(binp, gen_args, [evs[m["line"]] for m in gmm], scd, "case")
        for m in gmm:
            ev = evs[m["line"]]
            d = detail(ev, m)
            d["gen_args"] = gen_args
            v.add(sig(ev, m), d)

        laws = None
        if not quick:
            laws = lib.tlc("MC_Index", "MC_Index_laws.cfg", workers=procs, timeout=7200, heap="8g")
            lib.tlc_ok(laws, "MC_Index laws")
            cov_extra.update({"laws_states": laws.distinct, "laws_wall_s": round(laws.wall, 1)})

        tot = {}
        for rp in (rep, mrep):
            merge(tot, rp, "index_use")
            merge(tot, rp, "features_nontrivial")
        use = tot.get("index_use", {})
        ncases = rep["cases"] + mrep["cases"]
        nontrivial = rep["nontrivial"] + mrep["nontrivial"]
        kinds = [k for k in ("pk", "secondary", "secondary-composite") if not use.get(k)]
        if kinds or nontrivial < ncases * 0.3 or not use.get("how:lookup"):
            problem = problem or "vacuous run: %d of %d cases through an index, key kinds %s (missing %s)" % (nontrivial, ncases, use, kinds)
        for rp in (rep, mrep):
            if rp["extra"].get("aborted"):
                problem = problem or "the driver stopped early: " + rp["extra"]["aborted"]
        if problem and not v.violations:
            raise lib.Inconclusive(problem)
        rc = v.finish()
        cov = {
            "states": states + (laws.distinct if laws else 0), "transitions": states + (laws.generated if laws else 0),
            "traces_validated_against_impl": ncases + wrep["cases"],
            "samples": rep["samples"] or ["(no sample met the sampling rule this run)"],
            "evaluations": 2 * (ncases + wrep["cases"]), "distinct_nontrivial": nontrivial,
            "rule": "generated tables (2-4 columns of TINYINT/SMALLINT/INT/VARCHAR _bin/_ai_ci, <= 14 rows, random PK / secondary / composite / unique / prefix keys) x filters of <= 4 atoms over the indexed columns, plus TLC-enumerated (table, filter) cases over the key domain {NULL,0,1,2} executed over 6 index layouts; each case = the same SELECT against the table with keys and a key-free copy; non-trivial = the analysed plan of the keyed variant contains an IndexedTableAccess (index_use counts them per key kind; how:lookup = its static ranges were read and checked point by point); every case validated by TLC (Trace_Index: ResultOK of both results, bag equality, Member checks)",
            "index_use": use, "features_nontrivial": tot.get("features_nontrivial"),
            "lookups_without_filter_above": rep["extra"].get("lookups_without_filter_above", 0) + mrep["extra"].get("lookups_without_filter_above", 0),
            "result_kinds": rep["extra"].get("result_kinds"),
            "generated_cases": rep["cases"], "mc_tables_drawn": nmc, "mc_cases_executed": mrep["cases"],
            "mc_tlc_wall_s": round(rmc.wall, 1), "mc_mismatches": len(mmm),
            "corrupted_cases_rejected": len(caught),
            "mismatches_reproduced": len(gmm), "witness_cases": wrep["cases"], "witness_mismatches": len(wmm),
        }
        cov.update(cov_extra)
        lib.write_evidence(PID, tier, "model_checking", cov, time.time() - t0, violations=len(v.violations),
                           assumptions=["TLC and the TLA+ community modules are sound",
                                        "harness/lib renderer and value normaliser change representation only",
                                        "the analysed plan printed by Engine.AnalyzeQuery is the plan Engine.Query executes"])
        return rc


def replay(path):
    binp = lib.build("c03")
    if path.endswith(".json"):
        path = json.load(open(path))["first"]["detail"]["case_file"]
    with lib.Scratch() as scd:
        out = os.path.join(scd, "replay.ndjson")
        lib.run_report([binp, "-mode", "exec", "-in", path, "-out", out])
        mms, _ = validate(out, 1000, procs=1)
        evs = sc.load_events(out)
        for m in mms:
            print("VIOLATION property=%s replay=%s" % (PID, path))
            print(json.dumps({"sql": evs[m["line"]].get("sql"), "disagreement": m.get("bad"), "indexed": evs[m["line"]].get("ri"),
                              "keyfree": evs[m["line"]].get("rn"), "expected": m.get("exp")})[:2000])
        return 1 if mms else 0
