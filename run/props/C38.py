"""C38 — named locks give mutual exclusion and are linearizable.

Specs: spec/LockSubsystem.tla (sql/lock_subsystem.go at load/CAS granularity, pointer-identity CAS,
ghost holders/atomic state/linearisation points, exact linearizability monitor), spec/LockAtomic.tla
(the sequential meaning), spec/Trace_Locks.tla (linearisation search over recorded histories).

What a run does
  1. TLC, exhaustive: LockSubsystem_<tier>.cfg (3 sessions x 2 names, <= 2 / <= 3 calls per session):
     AtMostOneOwner (on the ghost `holders`), CountPositiveWhenOwned, OwnedImpliesRegistered, CreatedOK,
     Linearizable (one linearisation point per call, reply = LockAtomic's reply there), GhostIsReal +
     RefinesSplit (refinement of LockAtomic), FailNoEffect.  LockSubsystem_live.cfg: liveness under
     weak fairness.  LockSubsystem_mon1.cfg: the exact linearizability monitor on one lock name.
  2. Binding A: `tlc -simulate` behaviours of LockSubsystem_sim.cfg (4 calls per session) replayed
     step by step on the real sql.LockSubsystem under the verifhook.Yield gate (harness/cmd/c38).
  3. Binding B: free-running goroutines on the -race build, histories stamped by one atomic counter,
     linearisation searched by TLC (Trace_Locks, ReleaseAll atomic).
  4. The strict reading of ReleaseAll as ONE atomic operation: LockSubsystem_relall.cfg lets the exact
     monitor find the shortest non-linearizable history of the model; it is replayed on the real
     code under the gate, the REAL replies are recorded and Trace_Locks must confirm that this real
     history has no linearisation (and has one once ReleaseAll is read lock-by-lock).  That is the
     known finding C38-relall-not-atomic; everything else is checked with the lock-by-lock reading.

Exit 1 only for a disagreement between the real code and the specification reproduced in a fresh
process (or a recorded real history without linearisation, re-validated alone)."""
import concurrent.futures as cf
import collections, json, os, random, time
import lib

META = {
    "property_id": "C38",
    "level": "model_checking",
    "technique": "TLA+ LockSubsystem.tla (load/CAS granularity) refining LockAtomic.tla, checked exhaustively by TLC (invariants, refinement, exact linearizability monitor, liveness); TLC behaviours replayed on the real sql.LockSubsystem under a Yield-gate scheduler with state comparison after every atomic step; free-running -race histories linearised by TLC (Trace_Locks.tla)",
    "text": "TLC explores every interleaving of TryLock/Lock/Unlock/ReleaseAll/GetLockState by 3 sessions on 2 names at the granularity of the code's atomic loads and compare-and-swaps (pointer-identity CAS) and checks mutual exclusion on what the sessions believe, count/owner consistency, registration of owned locks in the session set, one linearisation point per call with LockAtomic's reply, refinement of LockAtomic and liveness under weak fairness; simulated behaviours of the same specification are executed on the real LockSubsystem one atomic step at a time (goroutines parked at every verifhook.Yield, the scheduler releases the session TLC chose) comparing lock state, count, session lock sets, the Yield point reached and every reply; histories of free-running goroutines under the race detector are checked for a linearisation by TLC.",
    "note": "API level (sql.LockSubsystem + BaseSession lock set), not the SQL functions. The gated replay orders ReleaseAll's iteration over the session's real lock set as TLC chose (Go map order is random). 'lock never created' vs 'free' and ErrLockDoesNotExist vs ErrLockNotOwned are compared exactly in the gated replay and projected away in the linearizability check (the property does not distinguish them). ReleaseAll is checked as a sequence of atomic single-lock releases; read as one atomic operation it is not linearizable (known finding, witness replayed every run). Trusted: TLC, the gate scheduler and the reply rendering in harness/cmd/c38 (about 150 lines).",
    "design_ref": "§3.3, §4.3, §7 C38, Appendix D",
}

SESS3 = "1,2,3"
NAMES = ["a", "b"]


# ---------------------------------------------------------------- helpers

def tlc_checked(what, r):
    """A finished exhaustive TLC run of the specification itself (no code involved)."""
    lib.tlc_ok(r, what)
    return r


SMALL_JVM = "2g -XX:ParallelGCThreads=2"      # passed as lib.tlc(heap=...): small runs need no 16 GC threads


def validate_histories(path, what, both=True, workers=2):
    """TLC linearisation search over a file of histories (one per line). Returns (ids linearizable with
    ReleaseAll atomic, ids linearizable with ReleaseAll lock by lock, TLC result)."""
    r = lib.tlc("Trace_Locks", "Trace_Locks_both.cfg" if both else "Trace_Locks_strict.cfg", workers=workers,
                timeout=1800, dfs=True, heap=SMALL_JVM, extra_files=[("trace_locks.ndjson", path)])
    lib.tlc_ok(r, what)
    strict = set(int(s[4:]) for s in r.prints if s.startswith("LIN "))
    split = set(int(s[5:]) for s in r.prints if s.startswith("LINS "))
    return strict, split, r


def behaviours_of(trs):
    """Split Emit records into behaviours (step restarts at 1) and sanity-check the numbering."""
    behs, cur = [], []
    for t in trs:
        if t["step"] == 1:
            if cur:
                behs.append(cur)
            cur = []
        elif not cur or t["step"] != cur[-1]["step"] + 1:
            raise lib.Inconclusive("simulation output is not a sequence of consecutive steps at %s" % json.dumps(t)[:300])
        cur.append(t)
    if cur:
        behs.append(cur)
    return behs


def gated(binp, path, sessions, history=None):
    args = [binp, "-mode", "gated", "-file", path, "-sessions", sessions]
    if history:
        args += ["-history", history]
    return lib.run_report(args, timeout=1800)


def confirm_gated(binp, sc, trs, mm, sessions, tag):
    """Re-run the behaviour prefix that ended in a mismatch alone, in a fresh process."""
    lo, hi = mm["input"]["behaviour_start"], mm["case"]
    p = os.path.join(sc, "confirm-%s.ndjson" % tag)
    lib.write_ndjson(p, trs[lo:hi + 1])
    rr = gated(binp, p, sessions)
    again = [m for m in rr["mismatches"] if m["signature"] == mm["signature"]]
    if not again:
        raise lib.Inconclusive("gated mismatch did not reproduce in isolation: %s" % json.dumps(mm)[:1500])
    mm["behaviour_records"] = trs[lo:hi + 1]      # what `--replay` re-runs
    return mm


def cex_to_trs(cex_path):
    """TLC -dumpTrace json of LockSubsystem -> the records LockSubsystem!Emit would have printed."""
    d = json.load(open(cex_path))
    trs = []
    for i, st in d["counterexample"]["state"]:
        if st["act"]["at"] == "init":
            continue
        trs.append({"step": st["step"], "act": st["act"],
                    "lock": {n: {"o": v["o"], "c": v["c"]} for n, v in st["lock"].items()},
                    "created": st["created"],
                    "held": [{"s": k + 1, "names": names} for k, names in enumerate(st["held"])]})
    return trs


def path_cover(txs):
    """txs: EmitX records [{pre, post, tr}] of an exhaustive run -> behaviours (lists of Emit records with
    the steps renumbered) from the initial state that together contain EVERY transition: the BFS-tree
    path to the source of each not yet covered transition, extended greedily along uncovered ones."""
    ids = {}

    def nid(x):
        return ids.setdefault(json.dumps(x, sort_keys=True, separators=(",", ":")), len(ids))
    out, dst, src, init = collections.defaultdict(list), [], [], None
    for i, t in enumerate(txs):
        u, w = nid(t["pre"]), nid(t["post"])
        out[u].append(i)
        src.append(u)
        dst.append(w)
        if t["tr"]["step"] == 1:          # only the initial state has step = 0
            init = u
    if init is None:
        raise lib.Inconclusive("transition dump without initial state")
    parent, q = {init: None}, collections.deque([init])
    while q:
        u = q.popleft()
        for e in out[u]:
            if dst[e] not in parent:
                parent[dst[e]] = e
                q.append(dst[e])
    covered, nxt = [False] * len(txs), {}
    behs = []
    for e0 in range(len(txs)):
        if covered[e0]:
            continue
        if src[e0] not in parent:
            raise lib.Inconclusive("transition dump contains a transition from an unreachable state")
        pre, u = [], src[e0]
        while parent[u] is not None:
            pre.append(parent[u])
            u = src[parent[u]]
        path = pre[::-1] + [e0]
        covered[e0] = True
        u = dst[e0]
        while True:
            es, k = out.get(u, []), nxt.get(u, 0)
            while k < len(es) and covered[es[k]]:
                k += 1
            nxt[u] = k
            if k == len(es):
                break
            covered[es[k]] = True
            path.append(es[k])
            u = dst[es[k]]
        behs.append([dict(txs[e]["tr"], step=j + 1) for j, e in enumerate(path)])
    return behs, len(ids)


def binding_selftest(binp, sc, behs, sessions):
    """The replay must notice (a) a step removed from a schedule, (b) a wrong expected count."""
    beh = next((b for b in behs if len(b) >= 12), None)
    if beh is None:
        raise lib.Inconclusive("no behaviour long enough for the binding self-test")
    # (a) drop a step of a session that moves it to another Yield point and is followed by another step of it
    # (a load that leads to a CAS: it changes nothing observable, so the first thing the replay can notice
    # is that the session is not parked where the next step of the schedule expects it)
    k = None
    for beh in (b for b in behs if len(b) >= 12):
        k = next((i for i, t in enumerate(beh[:-1]) if t["act"]["at"].endswith(".load") and t["act"]["nxt"].endswith(".cas")
                  and any(u["act"]["s"] == t["act"]["s"] for u in beh[i + 1:])), None)
        if k is not None:
            break
    if k is None:
        raise lib.Inconclusive("binding self-test: no droppable step")
    dropped = [dict(t, step=j + 1) for j, t in enumerate(beh[:k] + beh[k + 1:])]
    p = os.path.join(sc, "selftest-drop.ndjson")
    lib.write_ndjson(p, dropped)
    if not [m for m in gated(binp, p, sessions)["mismatches"] if "diverge" in m["signature"]]:
        raise lib.Inconclusive("binding self-test: a schedule with a step removed replayed without divergence")
    # (b) a wrong count in one expected post-state
    k = next((i for i, t in enumerate(beh) if any(l["o"] != 0 for l in t["lock"].values())), None)
    if k is None:
        raise lib.Inconclusive("binding self-test: no step with a held lock")
    bad = json.loads(json.dumps(beh))
    n = next(n for n, l in bad[k]["lock"].items() if l["o"] != 0)
    bad[k]["lock"][n]["c"] += 1
    p = os.path.join(sc, "selftest-count.ndjson")
    lib.write_ndjson(p, bad)
    if not [m for m in gated(binp, p, sessions)["mismatches"] if "count[" in m["signature"]]:
        raise lib.Inconclusive("binding self-test: a wrong expected count was not noticed")


# ---------------------------------------------------------------- the strict reading of ReleaseAll

def relall_witness(binp, sc, v, stats):
    """Known finding C38-relall-not-atomic, first half: the shortest history of the MODEL that has no
    linearisation with ReleaseAll atomic (exact monitor) is replayed on the real code under the gate.
    Returns the REAL history recorded there (judged by Trace_Locks together with the free histories)."""
    wd = os.path.join(sc, "relall")
    os.makedirs(wd)
    r = lib.tlc("LockSubsystem", "LockSubsystem_relall.cfg", workdir=wd, workers=4, timeout=600, heap=SMALL_JVM,
                extra_args=["-noGenerateSpecTE", "-dumpTrace", "json", "cex.json"])
    if r.error:
        raise lib.Inconclusive("relall monitor run: %s" % r.error)
    stats["relall_monitor_states"] = r.distinct
    if "MonitorOK" not in r.invariant_violated:
        lib.tlc_ok(r, "relall monitor run")       # any other violation is a problem of the model
        stats["relall_witness"] = "the model has no non-linearizable history within LockSubsystem_relall.cfg"
        return None
    trs = cex_to_trs(os.path.join(wd, "cex.json"))
    if not trs:
        raise lib.Inconclusive("empty counterexample")
    bpath = os.path.join(sc, "witness.ndjson")
    lib.write_ndjson(bpath, trs)
    hists = []
    for k in (1, 2):       # twice, each alone in a fresh process: the real history must be the same
        hp = os.path.join(sc, "witness-h%d.ndjson" % k)
        rep = gated(binp, bpath, "1,2", history=hp)
        if rep["mismatches"]:
            # the real code does not follow the specification on this schedule: an ordinary mismatch
            for mm in rep["mismatches"]:
                v.add("witness/" + mm["signature"], confirm_gated(binp, sc, trs, mm, "1,2", "w"))
            return None
        hists.append(lib.read_ndjson(hp))
    if hists[0] != hists[1] or len(hists[0]) != 1:
        raise lib.Inconclusive("witness replay is not deterministic")
    h = hists[0][0]
    h["h"] = 0
    stats["relall_witness"] = {"schedule": ["s%d %s(%s) %s>%s%s" % (t["act"]["s"], t["act"]["op"]["k"], t["act"]["tgt"], t["act"]["at"], t["act"]["nxt"],
                                                                   " = %s/%d" % (t["act"]["ret"]["s"], t["act"]["ret"]["i"]) if t["act"]["nxt"] == "idle" else "")
                                            for t in trs],
                               "real_history": h["calls"]}
    return h


def judge_witness(h, strict, split, v, stats):
    w = stats["relall_witness"]
    w["linearizable_relall_atomic"] = 0 in strict
    w["linearizable_relall_lock_by_lock"] = 0 in split
    if 0 in strict:
        raise lib.Inconclusive("the exact monitor rejects the model history but Trace_Locks linearises the real one: %s" % h)
    sig = "nonlinearizable/relall-not-atomic" if 0 in split else "nonlinearizable/other"
    v.add("witness/" + sig, {"schedule": w["schedule"], "real_history": h["calls"],
                              "what": "real replies recorded under the gate scheduler have no linearisation against LockAtomic"})


# ---------------------------------------------------------------- binding B

def free_histories(binr, sc, v, n, stats, witness):
    hp = os.path.join(sc, "free.ndjson")
    rep = lib.run_report([binr, "-mode", "free", "-n", str(n), "-history", hp, "-seed", str(lib.seed()),
                          "-sessions", SESS3, "-names", ",".join(NAMES)], timeout=1800)
    if "DATA RACE" in rep["_stderr"]:
        raise lib.Inconclusive("the race detector reported a data race during the free-running histories:\n" + rep["_stderr"])
    hists = lib.read_ndjson(hp)
    abandoned = rep["extra"]["histories_abandoned"]
    if len(hists) != n and not abandoned:
        raise lib.Inconclusive("free mode wrote %d of %d histories" % (len(hists), n))
    n = len(hists)
    # binding self-test: copies whose final observation is falsified must NOT linearise
    forged = []
    for h in hists[:3]:
        f = json.loads(json.dumps(h))
        f["h"] = n + 1 + len(forged)
        f["calls"][-1].update(rs="used", ri=2)
        forged.append(f)
    bp = os.path.join(sc, "free-batch.ndjson")
    lib.write_ndjson(bp, ([witness] if witness else []) + hists + forged)
    strict, split, r = validate_histories(bp, "recorded histories", both=True, workers=4)
    if any(f["h"] in strict for f in forged):
        raise lib.Inconclusive("binding self-test: a history with a falsified observation was linearised")
    if witness:
        judge_witness(witness, strict, split, v, stats)
    missing = [h for h in hists if h["h"] not in strict]
    stats["free"] = {"histories": n, "calls": rep["cases"], "overlapping": rep["extra"]["histories_with_overlapping_calls"],
                     "by_kind": rep["extra"]["by_kind"], "timeouts": rep["extra"]["timeouts"],
                     "failed_acquires": rep["extra"]["failed_acquires"],
                     "trace_states": r.distinct, "not_linearizable": len(missing), "recordings_abandoned": abandoned}
    if abandoned and not missing:
        stats["free_problem"] = "%d free-running histories had calls that did not return within the recording deadline, yet all recorded histories linearise" % abandoned
    if missing:
        # re-validate the rejected histories alone (fresh TLC) and classify them with the lock-by-lock reading
        mp = os.path.join(sc, "free-rejected.ndjson")
        lib.write_ndjson(mp, missing)
        strict2, split2, _ = validate_histories(mp, "rejected histories, alone", both=True, workers=1)
        if strict2:
            raise lib.Inconclusive("histories rejected in the batch are accepted alone: %s" % sorted(strict2))
        for h in missing:
            sig = "free/nonlinearizable/relall-not-atomic" if h["h"] in split2 else "free/nonlinearizable/other"
            v.add(sig, {"real_history": h["calls"], "what": "recorded free-running history has no linearisation against LockAtomic"})
    return rep, len(hists)


# ---------------------------------------------------------------- the check

def check(tier):
    t0 = time.time()
    quick = tier == "quick"
    binp = lib.build("c38")
    binr = lib.build("c38", race=True)
    v = lib.Verdict("C38")
    stats = {}
    W = max(2, lib.NCPU - 6)
    with lib.Scratch() as sc, cf.ThreadPoolExecutor(max_workers=4) as ex:
        # -- 1. the specification alone (background while the code is exercised)
        cfg = "LockSubsystem_quick.cfg" if quick else "LockSubsystem_thorough.cfg"
        f_mc = ex.submit(lib.tlc, "LockSubsystem", cfg, workers=W, timeout=3000, coverage=not quick, heap="12g -XX:ParallelGCThreads=4")
        f_live = ex.submit(lib.tlc, "LockSubsystem", "LockSubsystem_live.cfg" if quick else "LockSubsystem_live2.cfg",
                           workers=2, timeout=3000, heap="4g -XX:ParallelGCThreads=2")
        f_mon = ex.submit(lib.tlc, "LockSubsystem", "LockSubsystem_mon1q.cfg" if quick else "LockSubsystem_mon1.cfg",
                          workers=2, timeout=3000, heap="4g -XX:ParallelGCThreads=2")

        # -- 4. strict ReleaseAll: the known finding's witness
        witness = relall_witness(binp, sc, v, stats)
        lib.log("[C38] relall witness done at %.0fs" % (time.time() - t0))

        # -- 2. binding A: simulated behaviours under the gate
        nsim, depth = (300, 60) if quick else (6000, 80)
        rs = lib.tlc("LockSubsystem", "LockSubsystem_sim.cfg", workers=1, timeout=1800, simulate="num=%d" % nsim,
                     depth=depth, tlc_seed=lib.seed(), heap=SMALL_JVM if quick else "4g")
        lib.tlc_ok(rs, "simulation")
        trs = rs.jsons("TR")
        behs = behaviours_of(trs)
        if len(behs) < nsim * 0.9 or len(trs) < nsim * 10:
            raise lib.Inconclusive("simulation produced %d behaviours / %d steps" % (len(behs), len(trs)))
        spath = os.path.join(sc, "sim.ndjson")
        lib.write_ndjson(spath, trs)
        rep = gated(binp, spath, SESS3)
        if rep["cases"] + rep["extra"]["steps_skipped_after_mismatch"] != len(trs):
            raise lib.Inconclusive("replayed %d of %d steps" % (rep["cases"], len(trs)))
        for k, mm in enumerate(rep["mismatches"][:10]):
            v.add("gated/" + mm["signature"], confirm_gated(binp, sc, trs, mm, SESS3, "s%d" % k))
        binding_selftest(binp, sc, behs, SESS3)
        lib.log("[C38] gated replay done at %.0fs: %d behaviours, %d steps, %d non-trivial, %d mismatches"
                % (time.time() - t0, len(behs), rep["cases"], rep["nontrivial"], len(rep["mismatches"])))
        floor = nsim // 4
        vacuous = []          # reasons why a PASS would not mean much (irrelevant once a violation is reproduced)
        if rep["nontrivial"] < floor or rep["extra"]["failed_cas_steps"] < floor // 4:
            vacuous.append("%d non-trivial behaviours, %d failed CAS steps" % (rep["nontrivial"], rep["extra"]["failed_cas_steps"]))

        # -- 2b. thorough: EVERY transition of a small configuration, by a path cover of the dumped graph
        cover = None
        if not quick:
            rd = lib.tlc("LockSubsystem", "LockSubsystem_dump.cfg", workers=4, timeout=3000, heap="6g -XX:ParallelGCThreads=4")
            lib.tlc_ok(rd, "transition dump")
            txs = rd.jsons("TX")
            if len(txs) < 10000:
                raise lib.Inconclusive("transition dump has only %d transitions" % len(txs))
            cbehs, nstates = path_cover(txs)
            cpath = os.path.join(sc, "cover.ndjson")
            ctrs = [t for b in cbehs for t in b]
            lib.write_ndjson(cpath, ctrs)
            crep = gated(binp, cpath, "1,2")
            for k, mm in enumerate(crep["mismatches"][:10]):
                v.add("cover/" + mm["signature"], confirm_gated(binp, sc, ctrs, mm, "1,2", "c%d" % k))
            cover = {"cfg": "LockSubsystem_dump.cfg", "states": nstates, "transitions": len(txs), "paths": len(cbehs),
                     "steps_replayed": crep["cases"], "all_transitions_replayed": not crep["mismatches"]}

        # -- 3. binding B: free-running histories on the -race build
        nfree = 300 if quick else 5000
        frep, nh = free_histories(binr, sc, v, nfree, stats, witness)
        lib.log("[C38] free histories done at %.0fs: %s" % (time.time() - t0, json.dumps(stats.get("free"))))
        if frep["extra"]["histories_with_overlapping_calls"] < nfree // 4:
            vacuous.append("only %d of %d free histories have overlapping calls" % (frep["extra"]["histories_with_overlapping_calls"], nfree))
        if stats.get("free_problem"):
            vacuous.append(stats["free_problem"])

        # -- collect the specification runs
        r_mc = tlc_checked("exhaustive " + cfg, f_mc.result())
        r_live = tlc_checked("liveness", f_live.result())
        r_mon = tlc_checked("exact monitor, one name", f_mon.result())
        lib.log("[C38] TLC done at %.0fs: exhaustive %d distinct in %.0fs, liveness %d in %.0fs, monitor %d in %.0fs"
                % (time.time() - t0, r_mc.distinct, r_mc.wall, r_live.distinct, r_live.wall, r_mon.distinct, r_mon.wall))
        if not quick:
            z = [a for a in r_mc.coverage_zero() if a not in ("Init",)]
            if z:
                raise lib.Inconclusive("vacuous: actions never taken: %s" % z)
        if r_mc.distinct < 100000:
            raise lib.Inconclusive("exhaustive run explored only %d states" % r_mc.distinct)
        if vacuous and not v.violations:
            raise lib.Inconclusive("vacuous: " + "; ".join(vacuous))

        rc = v.finish()
        lib.write_evidence("C38", tier, "model_checking", {
            "states": r_mc.distinct, "transitions": r_mc.generated,
            "traces_validated_against_impl": rep["extra"]["behaviours"] + nh + (1 if isinstance(stats.get("relall_witness"), dict) else 0)
                                             + (cover["paths"] if cover else 0),
            "samples": rep["samples"][:2] + frep["samples"][:1],
            "exhaustive": True,
            "evaluations": rep["cases"] + frep["cases"] + (cover["steps_replayed"] if cover else 0),
            "distinct_nontrivial": rep["nontrivial"],
            "rule": "exhaustive TLC state graph of %s; %d simulated behaviours (depth %d, seed %d) replayed under the gate: a behaviour is non-trivial if it contains a failed CAS or a contended acquire (a tryLock load that saw another owner), distinct by its sequence of (session, point, next point, call); plus %d free-running histories (%d with overlapping calls) linearised by TLC"
                    % (cfg, rep["extra"]["behaviours"], depth, lib.seed(), nh, frep["extra"]["histories_with_overlapping_calls"]),
            "gated": {k: rep["extra"][k] for k in ("behaviours", "failed_cas_steps", "contended_acquire_steps", "calls_returned", "by_point")},
            "gated_steps": rep["cases"],
            "free": stats.get("free"),
            "relall_witness": stats.get("relall_witness"),
            "transition_cover": cover,
            "tlc": {"exhaustive": {"cfg": cfg, "distinct": r_mc.distinct, "generated": r_mc.generated, "depth": r_mc.depth, "wall_s": round(r_mc.wall, 1), "workers": W},
                    "liveness": {"distinct": r_live.distinct, "wall_s": round(r_live.wall, 1)},
                    "exact_monitor_one_name": {"distinct": r_mon.distinct, "wall_s": round(r_mon.wall, 1)},
                    "relall_monitor_states_until_counterexample": stats.get("relall_monitor_states"),
                    "simulation_steps": len(trs)},
        }, time.time() - t0, violations=len(v.violations),
            assumptions=["a session is used by one goroutine at a time (BaseSession.locks is an unsynchronised map)",
                         "verifhook.Yield marks every atomic step of sql/lock_subsystem.go (checked: a step the code cannot take at the expected Yield point is a mismatch)",
                         "ReleaseAll is read as a sequence of atomic single-lock releases; the atomic reading is known finding C38-relall-not-atomic",
                         "'lock does not exist' and 'free' / ErrLockDoesNotExist and ErrLockNotOwned are not distinguished by the linearizability check (they are by the gated replay)",
                         "weak fairness of every running session for the liveness properties"])
        return rc


def replay(path):
    """Re-run a recorded violation: a gated behaviour prefix, or re-validate a recorded history."""
    d = json.load(open(path))
    det = d["first"]["detail"]
    binp = lib.build("c38")
    with lib.Scratch() as sc:
        if "real_history" in det:
            hp = os.path.join(sc, "h.ndjson")
            lib.write_ndjson(hp, [{"h": 1, "calls": det["real_history"]}])
            strict, split, _ = validate_histories(hp, "replay", both=True, workers=1)
            print("history linearizable with ReleaseAll atomic: %s, lock by lock: %s" % (1 in strict, 1 in split))
            return 0 if 1 in strict else 1
        recs = det.get("behaviour_records")
        if not recs:
            print("nothing to replay in %s" % path)
            return 2
        p = os.path.join(sc, "replay.ndjson")
        lib.write_ndjson(p, recs)
        sessions = ",".join(str(x) for x in sorted({h["s"] for h in recs[0]["held"]}))
        rep = gated(binp, p, sessions)
        for mm in rep["mismatches"]:
            print("MISMATCH %s expected=%s got=%s" % (mm["signature"], json.dumps(mm["expected"]), json.dumps(mm["got"])))
        return 1 if rep["mismatches"] else 0
