"""C13 — DML statements match a reference table model.
Spec: spec/SQLTables.tla (INSERT / INSERT IGNORE / REPLACE / ON DUPLICATE KEY UPDATE / UPDATE / DELETE
with WHERE, ORDER BY, LIMIT; keyed tables are maps, keyless tables bags).  TLC checks the bounded
models MC_Tables (keyed + keyless presets) exhaustively; binding B validates seeded random histories
recorded from the real engine with Trace_Tables; binding A (thorough) has the engine execute
behaviours of the TLC-generated transition graph.
Projection: table contents (bags of collation-normalised rows) after every statement, ok/error of the
statement, affected-row counts."""
import dmlcommon as dc

PID = "C13"
META = {
    "property_id": PID,
    "level": "model_checking",
    "technique": "TLA+ table/statement spec SQLTables.tla: TLC checks bounded exhaustive models (invariants + action properties), validates every statement of recorded engine histories against the set of allowed (post-state, reply) pairs (trace validation with resynchronisation) and generates behaviours that the engine executes",
    "text": "After every INSERT / INSERT IGNORE / REPLACE / INSERT .. ON DUPLICATE KEY UPDATE / UPDATE [IGNORE] / DELETE (multi-row, WHERE, ORDER BY, LIMIT) on tables with single, composite or no primary key and unique keys, the contents of every table (as a bag) and the reported affected-row count are among the outcomes the specification allows; a failed statement changes nothing.",
    "note": "Row order inside a table, error messages, the winner among several applicable error classes and the processing order of an UPDATE without ORDER BY are left open by the specification. Interpreted fragment only (INT / VARCHAR under _bin and _ai_ci).",
}

RULE = ("seeded random schemas (1-2 tables; single/composite/no primary key, unique keys incl. multi-column and prefix, NOT NULL, defaults) "
        "x histories of 10-40 statements that re-use key values, collide inside multi-row statements and swap keys; "
        "every statement's (reply, SELECT * of every table) validated by TLC against SQLTables!Outcomes.")


def check(tier):
    return dc.check(PID, tier, "c13", ["MC_Tables_keys_q.cfg", "MC_Tables_keyless_q.cfg"],
                    ["MC_Tables_keys_t.cfg", "MC_Tables_keyless_t.cfg", "MC_Tables_both_t.cfg"], "MC_Tables_keys_dump.cfg",
                    floors={"statements": 300, "changed": 100, "ok:": 150, "err:dup": 10}, rule=RULE)


def replay(path):
    return dc.replay(PID, path)
