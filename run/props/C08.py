"""C08 — aggregate and window functions compute their defined values.
Spec: spec/SQLWindow.tla (EXTENDS SQLSem): partitions, ORDER BY peers, ROWS/RANGE frames, ROW_NUMBER /
RANK / DENSE_RANK / PERCENT_RANK / NTILE / LAG / LEAD / FIRST_VALUE / LAST_VALUE, COUNT / SUM / AVG /
MIN / MAX over frames, and the plain aggregates GROUP_CONCAT, BIT_AND/OR/XOR, JSON_ARRAYAGG.
Binding B: harness/cmd/c08 runs seeded tables x query descriptions on the engine, spec/Trace_Window.tla
interprets each description and judges the rows.  Binding A: spec/MC_Window.tla draws (table, window
specification) pairs from the bounded enumeration, checks the laws that tie the definitions together
and emits the query family of each pair for execution.  TLC decides every verdict."""
import json, os, time
import lib, sqlcommon as sc

PID = "C08"
META = {
    "property_id": PID,
    "level": "model_checking",
    "technique": "TLA+ definition of window functions, frames and aggregates (spec/SQLWindow.tla); TLC validates every recorded engine result against it (spec/Trace_Window.tla) and checks the definitional laws on the bounded enumeration spec/MC_Window.tla, whose cases are executed on the engine",
    "text": "ROW_NUMBER, RANK, DENSE_RANK, PERCENT_RANK, NTILE, LAG, LEAD, FIRST_VALUE, LAST_VALUE and COUNT/SUM/AVG/MIN/MAX OVER (PARTITION BY .. ORDER BY .. ROWS|RANGE BETWEEN ..), and the grouped / global aggregates COUNT, SUM, AVG, MIN, MAX, GROUP_CONCAT, BIT_AND, BIT_OR, BIT_XOR, JSON_ARRAYAGG return for every row / group the value the definition prescribes (NULL inputs ignored, empty inputs NULL or 0, offsets clipped at the partition edges, peers under RANGE); where SQL leaves the order among ORDER BY peers open the engine's own ROW_NUMBER over the same window is taken as the order, after checking that it is a valid one.",
    "note": "integers -3..5 and NULL, one integer ORDER BY key, tables of <= 12 rows; AVG and PERCENT_RANK as exact fractions matched to 4 decimals; known engine defects are listed in known_findings.jsonl with witnesses replayed every run. Trusted: TLC, the driver's rendering of query descriptions to SQL and re-encoding of results.",
}

PROCS = int(os.environ.get("VERIF_PROCS", "0")) or max(1, lib.NCPU - 2)
WIT_BASE, MC_BASE = 900000, 500000


def origin_of(case):
    return "witness" if case > WIT_BASE else "MC_Window" if case > MC_BASE else "generated"


def validate(path):
    n = sum(1 for _ in open(path))
    chunk = max(150, -(-n // PROCS))
    return sc.validate_trace(path, module="Trace_Window", cfg="Trace_Window.cfg", chunk=chunk, procs=PROCS)


def signatures(m, ev):
    """Signatures of one MM record: function | window | classes of the disagreeing rows | kind."""
    v, q = m["v"], ev["q"]
    if ev["ev"] == "agg":
        if v["what"] == "error":
            return ["%s|%s|agg:%s|error:%s" % (PID, q["fn"], ev["tag"], sc.msg_class(ev.get("err", "")))]
        return ["%s|%s|agg:%s|%s|%s" % (PID, q["fn"], ev["tag"], "noinput" if v.get("empty") else "values", v["what"])]
    if v["what"] == "error":
        return ["%s|%s|%s|error:%s" % (PID, q["fn"], ev["tag"], sc.msg_class(ev.get("err", "")))]
    if v["what"] != "value":
        return ["%s|%s|%s|%s" % (PID, q["fn"], ev["tag"], v["what"])]
    return sorted({"%s|%s|%s|%s|%s|%s|value" % (PID, q["fn"], ev["tag"], "nullkey" if c["nullkey"] else "nonull",
                                              "ties" if c["ties"] else "noties", c["input"]) for c in v["classes"]})


def filter_trace(src, dst, keep_ids):
    with open(dst, "w") as out:
        for line in open(src):
            if line.startswith('{"ev":"db"'):
                out.write(line)
            elif line.strip() and json.loads(line).get("id") in keep_ids:
                out.write(line)


def run_and_judge(binp, verdict, scd, args):
    trace = os.path.join(scd, "trace.ndjson")
    t0 = time.time()
    rep = lib.run_report([binp] + args + ["-out", trace], timeout=3000)
    t1 = time.time()
    mms, states = validate(trace)
    lib.log("[%s] %d cases, %d query events (%.1fs), %d disagreeing events (validation %.1fs)"
            % (PID, rep["cases"], rep["extra"]["query_events"], t1 - t0, len(mms), time.time() - t1))
    per = {}
    if mms:
        evs = sc.load_events(trace)
        cases = sorted({m["case"] for m in mms})
        again_trace = os.path.join(scd, "confirm.ndjson")
        lib.run_report([binp] + args + ["-only", ",".join(map(str, cases)), "-out", again_trace], timeout=3000)
        small = os.path.join(scd, "confirm-f.ndjson")
        filter_trace(again_trace, small, {m["id"] for m in mms})
        mms2, _ = validate(small)
        evs2 = sc.load_events(small)
        again = {(m["id"], s) for m in mms2 for s in signatures(m, evs2[m["line"]])}
        dbs = {}
        for line in open(again_trace):
            if line.startswith('{"ev":"db"'):
                e = json.loads(line)
                dbs[e["case"]] = e
        for m in mms:
            ev = evs[m["line"]]
            origin = origin_of(m["case"])
            per[origin] = per.get(origin, 0) + 1
            for sig in signatures(m, ev):
                if (m["id"], sig) not in again:
                    raise lib.Inconclusive("disagreement did not reproduce in isolation: case %s %s" % (m["case"], sig))
                db = dbs.get(m["case"], {})
                detail = {"origin": origin, "case": m["case"], "setup_sql": db.get("sql"), "sql": ev.get("sql"), "query": ev["q"],
                          "engine_rows": ev.get("res"), "engine_error": ev.get("err"), "verdict": m["v"], "seed": lib.seed()}
                if verdict.add(sig, detail) == "violation":
                    d = os.path.join(lib.VERIF, "replays", PID)
                    os.makedirs(d, exist_ok=True)
                    keep = os.path.join(d, "case-seed%d-%d.ndjson" % (lib.seed(), m["case"]))
                    with open(keep, "w") as f:
                        f.write(json.dumps(db.get("src")) + "\n")
                    detail["case_file"] = keep
    return rep, states, per


def witness_cases():
    out = []
    fs = [f for f in lib.load_findings(PID) if f.get("witness_file")]
    for wf in sorted({f["witness_file"] for f in fs}):
        for line in open(os.path.join(lib.VERIF, wf)):
            if line.strip():
                e = json.loads(line)
                e["id"] = WIT_BASE + len(out) + 1
                out.append(e)
    return out


def mc_cases(tier):
    n = 30 if tier == "quick" else 800
    r = lib.tlc("MC_Window", "MC_Window_sim.cfg", workers=1, timeout=3000, simulate="num=%d" % n, depth=3, tlc_seed=lib.seed(), heap="3g")
    if r.error or r.invariant_violated or not r.completed:
        raise lib.Inconclusive("MC_Window (sampling): %s\n%s" % (r.error or r.invariant_violated or "did not complete", r.out[-2000:]))
    seen, out = set(), []
    for c in r.jsons("CASE"):
        key = json.dumps(c, sort_keys=True)
        if key not in seen:
            seen.add(key)
            out.append({"ev": "case", "id": MC_BASE + len(out) + 1, "rows": c["rows"], "wins": c["wins"], "aggs": []})
    if len(out) < n * 0.5:
        raise lib.Inconclusive("MC_Window emitted only %d cases" % len(out))
    # the laws on the exhaustive space (1 row in quick, <= 3 rows in thorough)
    cfg = "MC_Window_laws1.cfg" if tier == "quick" else "MC_Window_laws.cfg"
    rl = lib.tlc("MC_Window", cfg, workers=min(6, PROCS), timeout=7200, heap="4g")
    lib.tlc_ok(rl, "MC_Window laws")
    return r, rl, out


def check(tier):
    t0 = time.time()
    binp = lib.build("c08")
    v = lib.Verdict(PID)
    ncases = 45 if tier == "quick" else 400
    with lib.Scratch() as scd:
        wit = witness_cases()
        r, rl, mc = mc_cases(tier)
        lib.log("[%s] MC_Window: %d cases drawn (%.1fs); laws on %d states (%.1fs)" % (PID, len(mc), r.wall, rl.distinct, rl.wall))
        given = os.path.join(scd, "given-cases.ndjson")
        lib.write_ndjson(given, wit + mc)
        rep, states, per = run_and_judge(binp, v, scd, ["-mode", "gen", "-seed", str(lib.seed()), "-cases", str(ncases), "-in", given])
        rc = v.finish()
        cov = {
            "states": states + rl.distinct, "transitions": states + rl.generated,
            "traces_validated_against_impl": rep["cases"],
            "samples": rep["samples"][:4] or ["(no sample met the sampling rule this run)"],
            "evaluations": rep["extra"]["query_events"],
            "distinct_nontrivial": rep["nontrivial"],
            "rule": "a case = one table w(id,p,o,v) (generated: 0-12 rows, 1-3 partitions, ties and NULLs in the ORDER BY key, NULL values, seeded; enumerated: TLC draws a partition of <= 4 rows over {NULL,0,1,2}^2 and a window specification with offsets <= 2) x query descriptions (every window function x sampled partition/order/frame, every plain aggregate grouped and global); evaluations = query events validated by TLC; distinct_nontrivial = cases (distinct seeds / distinct drawn pairs) with >= 3 rows, a tie in (p, o) and a NULL",
            "cases_generated": ncases, "cases_enumerated": len(mc), "cases_witness": len(wit),
            "mc_window_law_states": rl.distinct, "mc_window_law_space": "rows <= %d, exhaustive" % (1 if tier == "quick" else 3),
            "functions": rep["extra"]["functions"], "windows": rep["extra"]["windows"], "engine_errors": rep["extra"]["engine_errors"],
            "disagreeing_events_reproduced": per, "known_findings_hit": {k: len(d) for k, d in v.known.items()},
        }
        lib.write_evidence(PID, tier, "model_checking", cov, time.time() - t0, violations=len(v.violations),
                           assumptions=["TLC and the Json community module", "harness/cmd/c08 renders query descriptions to SQL and re-encodes results; it computes no expectation",
                                        "ROW_NUMBER() over the same window in the same query reports the order the engine used among ORDER BY peers (checked to be a valid order)"])
        return rc


def replay(path):
    binp = lib.build("c08")
    if path.endswith(".json"):
        path = json.load(open(path))["first"]["detail"]["case_file"]
    with lib.Scratch() as scd:
        out = os.path.join(scd, "replay.ndjson")
        lib.run_report([binp, "-mode", "exec", "-in", path, "-out", out])
        mms, _ = validate(out)
        evs = sc.load_events(out)
        for m in mms:
            print("VIOLATION property=%s replay=%s" % (PID, path))
            print(json.dumps({"sql": evs[m["line"]].get("sql"), "verdict": m["v"]})[:2000])
        return 1 if mms else 0
