"""C11 — repeated queries reflect the current data; no stale results.
Spec: the meaning of a query is Rows(q, db) over the CURRENT database (SQLSem); a Query action changes
nothing.  Binding B: histories interleave DML / index DDL / TRUNCATE (from two sessions) with repeated
executions of the same query texts -- plain (twice), SQL-level PREPARE/EXECUTE prepared once before
any change, the API-prepared path, from both sessions -- chosen to put cacheable operators in the
plan; after every change the database state (plain full scans) is recorded and TLC validates every
execution against Rows over that state (spec/Trace_Query.tla)."""
import lib, sqlcommon as sc

PID = "C11"
META = {
    "property_id": PID,
    "level": "model_checking",
    "technique": "TLA+ query-meaning spec SQLSem.tla evaluated on the state recorded after every change; TLC trace validation of repeated plain / prepared / API-prepared executions in two sessions across DML and index DDL histories",
    "text": "Every re-execution of a query text (6 execution paths x every step of the history) must be an acceptable result of the query's meaning over the database as it is at that moment, so rows cached from an earlier state (subquery caches, hash tables, cached join sides, prepared plans, per-session table snapshots) are rejected; the two plain executions per step also give the determinism clause; and ~280 catalogued read-only statements over a table with one column of every scalar type must leave a full scan of it unchanged (a Query action changes nothing).",
    "note": "The post-change database state is read from the engine with plain SELECT * scans (the DML itself is judged by C13); interpreted fragment of SQLSem; statement-granular interleaving of two sessions with autocommit.",
}


def check(tier):
    nh, steps, nq = (8, 5, 3) if tier == "quick" else (150, 10, 5)
    gen_args = ["-mode", "c11", "-seed", str(lib.seed()), "-histories", str(nh), "-steps", str(steps), "-queries", str(nq)]
    return sc.driver_check(PID, tier, gen_args,
                           "seeded histories of %d state changes x %d repeated queries with cacheable operators x 6 execution paths (2 sessions); non-trivial = the query's result differs from its result at the previous step" % (steps, nq),
                           chunk=15 if tier == "quick" else 60, binary="hist", module="Trace_Laws")


def replay(path):
    return sc.replay_case(PID, path, module="Trace_Laws")
