"""C47 — in-memory indexed sets behave like sets.
Spec: spec/IndexedSet.tla.  Binding A: every transition of the bounded state graph (and random
behaviours from `-simulate`) is replayed on the real sql/in_mem_table containers and editors."""
import os, random, time
import lib

META = {
    "property_id": "C47",
    "level": "model_checking",
    "technique": "TLA+ spec IndexedSet.tla; TLC exhaustive state graph + invariants; every TLC transition and simulated behaviour replayed into the real IndexedSet/MultiMap/editors with abstract-state comparison",
    "text": "TLC enumerates every reachable abstract set over a small element domain with all container and editor operations, checks the index-agreement invariants on the model, and every one of those transitions is executed on the real container (materialised in a seeded random insertion order) with all observables (entries, Count, GetMany per index and key, raw index contents, Get) compared with the specification's post-state; simulated behaviours of depth 30 exercise history-dependent slice layouts.",
    "note": "Elements are (pk, a) pairs with a 2-valued colliding second keyer; Put obeys the documented caller discipline (no equal element present); trusted: TLC, the 40-line projection in harness/cmd/c47.",
    "design_ref": "§7 C47",
}


def confirm(binp, dom, mm, trs_by_case, sc):
    """Re-run one mismatching transition alone in a fresh process."""
    p = os.path.join(sc, "confirm.ndjson")
    lib.write_ndjson(p, [trs_by_case[mm["case"]]])
    rep = lib.run_report([binp, "-file", p, "-mode", "transitions", "-seed", "7"] + dom)
    return len(rep["mismatches"]) > 0


def check(tier):
    t0 = time.time()
    rnd = random.Random(lib.seed())
    binp = lib.build("c47")
    v = lib.Verdict("C47")
    cfg = "IndexedSet_dump.cfg" if tier == "quick" else "IndexedSet_big.cfg"
    dom = ["-pks", "1,2" if tier == "quick" else "1,2,3", "-as", "0,1,2,3"]
    with lib.Scratch() as sc:
        path = os.path.join(sc, "tr.ndjson")
        r, trs = lib.dump_transitions("IndexedSet", cfg, path, workers=lib.NCPU, timeout=900, coverage=(tier == "thorough"), heap="8g")
        if tier == "thorough":
            z = r.coverage_zero()
            if z:
                raise lib.Inconclusive("vacuous: actions never taken: %s" % z)
        if len(trs) < 1000:
            raise lib.Inconclusive("too few transitions dumped: %d" % len(trs))
        rep = lib.run_report([binp, "-file", path, "-mode", "transitions", "-seed", str(lib.seed())] + dom)
        # simulated behaviours (history-dependent representation)
        nsim, depth = (300, 30) if tier == "quick" else (5000, 40)
        spath = os.path.join(sc, "sim.ndjson")
        rs = lib.tlc("IndexedSet", cfg, workers=1, timeout=900, simulate="num=%d" % nsim, depth=depth, tlc_seed=lib.seed())
        if rs.error:
            raise lib.Inconclusive("simulate: " + rs.error)
        strs = rs.jsons("TR")
        lib.write_ndjson(spath, strs)
        srep = lib.run_report([binp, "-file", spath, "-mode", "behaviours", "-seed", str(lib.seed())] + dom)
        for mm in rep["mismatches"]:
            if confirm(binp, dom, mm, trs, sc):
                v.add(mm["signature"], mm)
            else:
                raise lib.Inconclusive("mismatch did not reproduce: %s" % mm)
        for mm in srep["mismatches"]:
            # reproduce with the behaviour prefix since the last step=1
            c = mm["case"]
            s = c
            while s > 0 and strs[s]["step"] != 1:
                s -= 1
            p = os.path.join(sc, "confirm2.ndjson")
            lib.write_ndjson(p, strs[s:c + 1])
            rr = lib.run_report([binp, "-file", p, "-mode", "behaviours", "-seed", str(lib.seed())] + dom)
            if rr["mismatches"]:
                mm["behaviour_prefix"] = strs[s:c + 1]
                v.add("sim/" + mm["signature"], mm)
            else:
                raise lib.Inconclusive("simulated mismatch did not reproduce: %s" % mm)
        rc = v.finish()
        lib.write_evidence("C47", tier, "model_checking", {
            "states": r.distinct, "transitions": len(trs),
            "traces_validated_against_impl": len(trs) + srep["extra"]["materialisations"],
            "samples": rep["samples"][:3] or trs[:2],
            "exhaustive": True,
            "evaluations": rep["cases"] + srep["cases"],
            "distinct_nontrivial": rep["nontrivial"],
            "rule": "every transition of the bounded state graph (TLC VIEW = abstract set) replayed once; non-trivial = changes the cardinality or returns a non-ok reply; plus %d simulated behaviours of depth %d (%d steps)" % (nsim, depth, srep["cases"]),
            "by_action": rep["extra"]["by_action"],
            "tlc_generated": r.generated, "tlc_wall_s": round(r.wall, 1),
            "constants": cfg,
        }, time.time() - t0, violations=len(v.violations),
            assumptions=["Put is only called when no equal element is present (caller discipline documented in multimapeditors.go)",
                         "EdUpdate's old row is a stored row and its new key is the old key or unused"])
        return rc
