"""C27 — storing a value keeps it exactly or reports the change.
Spec: spec/StoreConv.tla (Store(type, value, mode) in {Stored, Rejected, Adjusted} + the Idempotent law).
TLC enumerates (type, value, mode) over boundary-heavy domains (MC_StoreConv), checks the laws of the
relation on the specification itself and prints each case with the expected outcome class and stored
value.  Binding A: every case runs CREATE TABLE / INSERT [IGNORE] / SHOW WARNINGS / SELECT on the engine;
class and canonical stored value are compared with TLC's expectation.  Binding B (Trace_StoreConv): for
every value the engine stored and for values of the types the specification does not interpret
(temporal, JSON, floating point, TEXT/BLOB) TLC validates  read-back = Convert(read-back) =
Convert(Convert(read-back))."""
import json, os, time
import lib, valcommon as vc

PID = "C27"
META = {
    "property_id": PID,
    "level": "model_checking",
    "technique": "TLA+ spec StoreConv.tla (store relation per column type, strict and IGNORE, idempotence law) model-checked over bounded (type, value, mode) domains; every enumerated case replayed on the real engine (binding A: INSERT [IGNORE] + SHOW WARNINGS + SELECT); recorded Type.Convert applications validated by TLC (binding B, idempotence)",
    "text": "For the ten integer types (range by digit comparison, IGNORE clamps), CHAR/VARCHAR/BINARY/VARBINARY(n) (length in characters/bytes, IGNORE truncates), ENUM, SET, BIT(n<=16), YEAR (two-digit rule) and DECIMAL(p,s) (half away from zero, reported): strict INSERT stores the value exactly or rejects the statement, INSERT IGNORE stores the nearest representable value with a warning, the value read back equals the specified one, a warning is raised iff the stored value differs from the input; converting a stored value again never changes it (also for DATE/DATETIME/TIMESTAMP/TIME/JSON/FLOAT/DOUBLE/TEXT/BLOB, where only this law is checked).",
    "note": "Crisp region only (see the header of StoreConv.tla): no over-long strings that differ by trailing spaces only, no CHAR values ending in spaces, no case variants of ENUM/SET members, no fractional literals into integer columns, default sql_mode (strict). Trusted: TLC, the literal renderer and the read-back canonicaliser in harness/cmd/c27 (representation only).",
    "design_ref": "§7 C27",
}


def key_of(c):
    v = c["val"]
    return "%s|%s|%s|%s|%s|%s" % (c["ddl"], c["mode"], v["k"], v["num"], "[" + " ".join(str(x) for x in v["cps"]) + "]", v["list"])


def run_cases(binp, cases, scd, name, opaque=True):
    p = os.path.join(scd, name + ".ndjson")
    tr = os.path.join(scd, name + ".trace.ndjson")
    lib.write_ndjson(p, cases)
    rep = lib.run_report([binp, "-file", p, "-trace", tr] + (["-opaque"] if opaque else []), timeout=3000)
    return rep, tr


def validate_idem(trace):
    """TLC validates the idempotence trace; returns ([(event, what)], states)."""
    evs = lib.read_ndjson(trace)
    if not evs:
        return [], 0
    r = lib.tlc("Trace_StoreConv", "Trace_StoreConv.cfg", workers=1, timeout=900, heap="2g", extra_files=[("trace.ndjson", trace)])
    if r.error or not r.completed or r.postcondition_failed:
        raise lib.Inconclusive("trace validation did not complete: %s\n%s" % (r.error, r.out[-2000:]))
    return [(evs[m["l"] - 1], "+".join(sorted(m["what"]))) for m in r.jsons("MM")], r.distinct


def check(tier):
    t0 = time.time()
    binp = lib.build("c27")
    v = lib.Verdict(PID)
    with lib.Scratch() as scd:
        cfg = "MC_StoreConv_quick.cfg" if tier == "quick" else "MC_StoreConv_big.cfg"
        res = vc.tlc_jobs({"enum": dict(module="MC_StoreConv", cfg=cfg, workers=vc.workers(0.5), timeout=3000, heap="4g",
                                         coverage=(tier == "thorough"))})
        r = res["enum"]
        if tier == "thorough" and r.coverage_zero():
            raise lib.Inconclusive("vacuous: actions never taken: %s" % r.coverage_zero())
        cases = r.jsons("CASE")
        if len(cases) < 1000:
            raise lib.Inconclusive("only %d cases enumerated" % len(cases))
        lib.log("[C27] %d cases from TLC in %.1fs" % (len(cases), time.time() - t0))
        rep, trace = run_cases(binp, cases, scd, "cases")
        # binding self-test: a falsified expectation must be reported
        agree = [c for i, c in enumerate(cases) if i not in {m["case"] for m in rep["mismatches"]} and c["exp"]["o"] == "Stored" and c["exp"]["kind"] == "num"]
        if not agree:
            raise lib.Inconclusive("binding self-test: no agreeing case")
        c2 = json.loads(json.dumps(agree[0]))
        c2["exp"]["s"] = c2["exp"]["s"] + "0"
        st, _ = run_cases(binp, [c2], scd, "selftest", opaque=False)
        if not st["mismatches"]:
            raise lib.Inconclusive("binding self-test: a falsified expectation was not reported")
        # binding A disagreements, confirmed in a fresh process
        bad = [m["input"] for m in rep["mismatches"]]
        again = vc.confirm_cases(binp, bad, scd, key_of)
        kept = 0
        for m in rep["mismatches"]:
            if m["signature"] not in again.get(key_of(m["input"]), []):
                raise lib.Inconclusive("mismatch did not reproduce in isolation: %s" % m["signature"])
            detail = {"sql": m["got"]["sql"], "engine": m["got"], "expected": m["expected"], "case": m["input"]}
            if v.add(m["signature"], detail) == "violation" and kept < 8:
                kept += 1
                detail["case_file"] = vc.keep_replay(PID, "case-seed%d-%d.json" % (lib.seed(), kept), m["input"])
        # binding B: idempotence trace
        mms, states = validate_idem(trace)
        if mms:
            keys = {e["in"][len("stored:"):] for e, _ in mms if e["in"].startswith("stored:")}
            rep2, trace2 = run_cases(binp, [c for c in cases if key_of_go(c) in keys], scd, "confirm-idem")
            mms2, _ = validate_idem(trace2)
            seen2 = {(e["type"], e["in"], w) for e, w in mms2}
            for e, w in mms:
                if (e["type"], e["in"], w) not in seen2:
                    raise lib.Inconclusive("idempotence mismatch did not reproduce: %s" % e)
                v.add("C27|idem|%s|%s" % (e["type"].replace(" ", "_"), w), {"event": e, "broken": w})
        # witnesses of recorded findings
        mism_keys = {key_of(m["input"]) for m in rep["mismatches"]}
        all_keys = {key_of(c) for c in cases}
        gone = []
        for f, ws in vc.load_witnesses(PID):
            for w in ws:
                if w["key"] not in all_keys:
                    raise lib.Inconclusive("witness %s of finding %s was not enumerated this run" % (w["key"], f["id"]))
                if w["key"] not in mism_keys:
                    gone.append(f["id"] + ": " + w["key"])
        for g in gone:
            print("NOTE: property=C27 witness no longer disagrees (finding fixed?): " + g)
        rc = v.finish()
        ex = rep["extra"]
        cov = {
            "states": r.distinct, "transitions": r.generated,
            "traces_validated_against_impl": rep["cases"] + ex["idem_events"],
            "samples": rep["samples"] or cases[:2],
            "exhaustive": True,
            "evaluations": rep["cases"] + ex["idem_events"], "distinct_nontrivial": rep["nontrivial"],
            "rule": "every (type, value, mode) state of MC_StoreConv (%s) is one case: laws (Idempotent, strict/IGNORE coherence) checked by TLC as invariants, then replayed on the engine; non-trivial = the expected outcome is Rejected/Adjusted or the stored value has more than 2 digits / 1 character; plus %d Convert-twice/read-back events (%d of uninterpreted types) validated by TLC" % (cfg, ex["idem_events"], ex.get("opaque_values_recorded", 0)),
            "by_type": ex["by_type"], "by_expected_outcome": ex["by_expected"], "by_engine_outcome": ex["by_engine_outcome"],
            "engine_statements": ex["statements"], "idem_trace_states": states, "idem_mismatches": len(mms),
            "disagreements_reproduced": len(rep["mismatches"]), "known_finding_occurrences": {k: len(x) for k, x in v.known.items()},
            "witnesses_gone": gone, "tlc_wall_s": round(r.wall, 1),
        }
        lib.write_evidence(PID, tier, "model_checking", cov, time.time() - t0, violations=len(v.violations),
                           assumptions=["default sql_mode (STRICT_TRANS_TABLES etc.); a statement error = Rejected, success with SHOW WARNINGS rows = Adjusted, success without = Stored",
                                        "inputs stay in the crisp region listed in spec/StoreConv.tla",
                                        "DECIMAL: MySQL reports the rounding of excess fraction digits with a note (1265); the specification demands that report",
                                        "SET under IGNORE keeps the valid members (MySQL); ENUM error value '' and BIT/DECIMAL/integer clamping as documented by MySQL"])
        return rc


def key_of_go(c):
    """The key the harness prints into the trace (Case.Key in harness/cmd/c27)."""
    v = c["val"]
    return "%s|%s|%s|%s|%s|%s" % (c["ddl"], c["mode"], v["k"], v["num"], "[" + " ".join(str(x) for x in v["cps"]) + "]", v["list"])


def replay(path):
    binp = lib.build("c27")
    obj = json.load(open(path))
    case = obj.get("first", {}).get("detail", {}).get("case") or obj
    with lib.Scratch() as scd:
        rep, _ = run_cases(binp, [case], scd, "replay", opaque=False)
        for m in rep["mismatches"]:
            print("VIOLATION property=C27 replay=%s" % path)
            print(json.dumps({"signature": m["signature"], "got": m["got"], "expected": m["expected"]}))
        return 1 if rep["mismatches"] else 0
