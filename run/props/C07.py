"""C07 — grouping and de-duplication use the same equality as '='.
Spec: spec/Trace_Eq.tla (EXTENDS SQLSem): the engine's own '=' matrix over a value set must be an
equivalence relation, must equal the specification's equality on the modelled families, and every
hashing operator (GROUP BY, DISTINCT, COUNT(DISTINCT), UNION/INTERSECT/EXCEPT [ALL], IN list, IN
subquery, hash / lookup / merge / nested-loop joins) must induce exactly the partition into the
classes of that matrix.  Binding B: harness/cmd/c07 records seeded value sets of every family;
binding A: spec/MC_Eq.tla enumerates small value multisets with their expected partition (and checks
the law on the query specification itself), the driver executes them.  TLC decides every verdict."""
import json, os, random, time
import lib, sqlcommon as sc

PID = "C07"
META = {
    "property_id": PID,
    "level": "model_checking",
    "technique": "TLA+ trace validation: TLC checks the recorded '=' matrix (equivalence laws, equality with SQLSem!CmpNN on the modelled families) and every hashing operator's partition of row ids against the classes of the matrix (spec/Trace_Eq.tla); TLC-enumerated value multisets with their expected partition (spec/MC_Eq.tla) are executed on the engine",
    "text": "For value sets of one comparison family (INT, DECIMAL, DOUBLE, mixed numeric columns, VARCHAR under utf8mb4_0900_bin / _0900_ai_ci / _0900_as_cs / general_ci with case, accent and trailing-space variants, NULLs) the groups of GROUP BY, the rows of DISTINCT / UNION / INTERSECT / EXCEPT [ALL], COUNT(DISTINCT), the matches of IN (list / subquery) and of hash, lookup, merge and nested-loop equi-joins are exactly the classes of the engine's own '=' (which is an equivalence relation and, on the modelled alphabet, the specification's equality); NULLs form one group and never match.",
    "note": "general_ci and characters outside [0-9A-Za-z ] + e-acute are opaque (only the equivalence laws and the operator partitions are checked there); numbers are exact hundredths; known engine defects are listed in known_findings.jsonl with witnesses replayed every run. Trusted: TLC, the driver's re-encoding of results (ids, counts).",
}

PROCS = int(os.environ.get("VERIF_PROCS", "0")) or max(1, lib.NCPU - 2)


WIT_BASE, MC_BASE = 900000, 500000


def origin_of(case):
    return "witness" if case > WIT_BASE else "MC_Eq" if case > MC_BASE else "generated"


def validate(path):
    n = sum(1 for _ in open(path))
    chunk = max(150, -(-n // PROCS))          # one TLC start per worker: the start-up dominates small chunks
    return sc.validate_trace(path, module="Trace_Eq", cfg="Trace_Eq.cfg", chunk=chunk, procs=PROCS)


def mm_keys(mms):
    """{(event id, kind)} of a list of MM records."""
    return {(m["id"], k) for m in mms for k in m["kinds"]}


def filter_trace(src, dst, keep_ids):
    """Copy the db lines and the events with the given ids (isolation re-validation)."""
    with open(dst, "w") as out:
        for line in open(src):
            if line.startswith('{"ev":"db"'):
                out.write(line)
            elif line.strip():
                e = json.loads(line)
                if e.get("id") in keep_ids:
                    out.write(line)


def run_and_judge(binp, verdict, scd, tag, args):
    """Run the driver, validate, confirm every disagreement in a fresh process, report. Returns
    (report, states, disagreeing events per origin)."""
    trace = os.path.join(scd, tag + ".ndjson")
    t0 = time.time()
    rep = lib.run_report([binp] + args + ["-out", trace], timeout=3000)
    t1 = time.time()
    mms, states = validate(trace)
    lib.log("[%s] %s: %d cases, %d op events (%.1fs), %d disagreeing events (validation %.1fs)"
            % (PID, tag, rep["cases"], rep["extra"]["op_events"], t1 - t0, len(mms), time.time() - t1))
    per = {}
    if mms:
        evs = sc.load_events(trace)
        cases = sorted({m["case"] for m in mms})
        again_trace = os.path.join(scd, tag + "-confirm.ndjson")
        lib.run_report([binp] + args + ["-only", ",".join(map(str, cases)), "-out", again_trace], timeout=3000)
        small = os.path.join(scd, tag + "-confirm-f.ndjson")
        filter_trace(again_trace, small, {m["id"] for m in mms})
        mms2, _ = validate(small)
        again = mm_keys(mms2)
        dbs = {}
        for line in open(again_trace):
            if line.startswith('{"ev":"db"'):
                e = json.loads(line)
                dbs[e["case"]] = e
        for m in mms:
            ev = evs[m["line"]]
            origin = origin_of(m["case"])
            per[origin] = per.get(origin, 0) + 1
            for kind in m["kinds"]:
                if (m["id"], kind) not in again:
                    raise lib.Inconclusive("disagreement did not reproduce in isolation: case %s %s %s" % (m["case"], m["op"], kind))
                sig = "%s|%s|%s|%s" % (PID, m["op"], m["fam"], kind)
                db = dbs.get(m["case"], {})
                detail = {"origin": origin, "case": m["case"], "op": m["op"], "family": m["fam"], "kind": kind,
                          "setup_sql": [q for q in db.get("sql", []) if not q.startswith("SELECT")],
                          "sql": ev.get("sql"), "plan": ev.get("plan"),
                          "got": {k: v for k, v in ev.items() if k in ("groups", "cnt", "nulls", "back", "res", "rows", "pairs", "err") and v not in ([], "")},
                          "expected": m.get("exp"), "eq_matrix": db.get("eq"), "seed": lib.seed()}
                if verdict.add(sig, detail) == "violation":
                    d = os.path.join(lib.VERIF, "replays", PID)
                    os.makedirs(d, exist_ok=True)
                    keep = os.path.join(d, "case-seed%d-%d.ndjson" % (lib.seed(), m["case"]))
                    with open(keep, "w") as f:
                        f.write(json.dumps(db.get("src")) + "\n")
                    detail["case_file"] = keep
    return rep, states, per


def witness_cases():
    out = []
    fs = [f for f in lib.load_findings(PID) if f.get("witness_file")]
    for wf in sorted({f["witness_file"] for f in fs}):
        for line in open(os.path.join(lib.VERIF, wf)):
            if line.strip():
                e = json.loads(line)
                e["id"] = WIT_BASE + len(out) + 1
                out.append(e)
    return out


def mc_cases(tier):
    """Binding A: TLC enumerates (thorough) or samples (quick) the value multisets of MC_Eq, checks the
    laws on the specification itself and emits the cases."""
    if tier == "quick":
        r = lib.tlc("MC_Eq", "MC_Eq_sim.cfg", workers=1, timeout=600, simulate="num=40", depth=3, tlc_seed=lib.seed(), heap="3g")
    else:
        r = lib.tlc("MC_Eq", "MC_Eq_full.cfg", workers=min(6, PROCS), timeout=1800, heap="4g")
    if r.error or r.invariant_violated or not r.completed:
        raise lib.Inconclusive("MC_Eq: %s\n%s" % (r.error or r.invariant_violated or "did not complete", r.out[-2000:]))
    cases = r.jsons("CASE")
    seen, out = set(), []
    for c in cases:
        key = json.dumps(c, sort_keys=True)
        if key in seen:
            continue
        seen.add(key)
        typ = c["fam"]
        coll = {"bin": "bin", "ci": "ai_ci"}.get(c["coll"], "none")
        out.append({"ev": "case", "id": MC_BASE + len(out) + 1, "fam": c["fam"], "coll": coll, "expcls": c["expcls"],
                    "tables": [{"name": "t1", "type": typ, "vals": c["v"]}, {"name": "t2", "type": typ, "vals": c["w"]}]})
    if not out:
        raise lib.Inconclusive("MC_Eq emitted no case")
    return r, len(cases), out


def check(tier):
    t0 = time.time()
    binp = lib.build("c07")
    v = lib.Verdict(PID)
    ncases = 80 if tier == "quick" else 1200
    with lib.Scratch() as scd:
        wit = witness_cases()
        r, drawn, mc = mc_cases(tier)
        lib.log("[%s] MC_Eq: %d cases drawn, %d distinct, %.1fs" % (PID, drawn, len(mc), r.wall))
        given = os.path.join(scd, "given-cases.ndjson")
        lib.write_ndjson(given, wit + mc)
        rep, states, per = run_and_judge(binp, v, scd, "trace", ["-mode", "gen", "-seed", str(lib.seed()), "-cases", str(ncases), "-in", given])
        rc = v.finish()
        cov = {
            "states": states + (r.distinct or 0), "transitions": states + (r.generated or 0),
            "traces_validated_against_impl": rep["cases"],
            "samples": rep["samples"][:4] or ["(no sample met the sampling rule this run)"],
            "evaluations": rep["extra"]["op_events"],
            "distinct_nontrivial": rep["nontrivial"],
            "rule": "a case = tables (id, x) of one comparison family (generated: INT / DECIMAL(6,2) / DOUBLE / 2-3 mixed numeric columns / VARCHAR under 4 collations, 2-8 + 1-5 rows with NULLs, case/accent/trailing-space variants, seeded; enumerated: TLC draws value multisets of <= 4 values over {NULL,'a','A','b','a '} x {bin, ci}, {NULL,0,1}, {NULL,0,1,1.5} with the shifted copy as second table; plus the witnesses of the known findings); evaluations = operator events (one hashing operator over one case) validated by TLC against the classes of the engine's '=' matrix; distinct_nontrivial = cases (distinct by construction: distinct seeds / distinct multisets / distinct witnesses) in which two different rows of different stored representation or of different tables are '='-equal",
            "cases_generated": ncases, "cases_enumerated": len(mc), "cases_witness": len(wit), "mc_eq_cases_drawn": drawn,
            "mc_eq_exhaustive": tier != "quick", "mc_eq_tlc_wall_s": round(r.wall, 1),
            "operator_events": rep["extra"]["ops"], "join_plans": rep["extra"]["join_plans"], "families": rep["extra"]["families"],
            "engine_errors": rep["extra"]["engine_errors"],
            "disagreeing_events_reproduced": per, "known_findings_hit": {k: len(d) for k, d in v.known.items()},
        }
        lib.write_evidence(PID, tier, "model_checking", cov, time.time() - t0, violations=len(v.violations),
                           assumptions=["TLC and the Json community module", "harness/cmd/c07 re-encodes results only (ids, counts, TRUE/FALSE/NULL); it computes no expectation",
                                        "the join back that maps result rows of DISTINCT / set operations to ids uses the engine's '=' (whose matrix is itself validated)"])
        return rc


def replay(path):
    binp = lib.build("c07")
    if path.endswith(".json"):
        path = json.load(open(path))["first"]["detail"]["case_file"]
    with lib.Scratch() as scd:
        out = os.path.join(scd, "replay.ndjson")
        lib.run_report([binp, "-mode", "exec", "-in", path, "-out", out])
        mms, _ = validate(out)
        for m in mms:
            print("VIOLATION property=%s replay=%s" % (PID, path))
            print(json.dumps({"op": m["op"], "family": m["fam"], "kinds": m["kinds"], "expected": m.get("exp")})[:2000])
        return 1 if mms else 0
