"""C22 — SHOW CREATE output recreates an identical object.
Spec: spec/Recreate.tla (state = the observable projection of one schema object: printed statement, catalog
rows, probe replies; the action Recreate = DROP + execute the printed statement is allowed only as a
stuttering step: the statement is accepted, text' = text, proj' = proj, probe' = probe).  TLC checks the
action property Fixpoint on a small universe (MC_Recreate) and, binding B, judges every re-creation
recorded from the real engine (spec/Trace_Recreate.tla): harness/cmd/c22 generates CREATE TABLE / VIEW /
TRIGGER / PROCEDURE statements, records SHOW CREATE text, information_schema rows and the replies of a
DML probe list, executes the printed statement in a FRESH engine and records the same again."""
import json, os, re, sys, time
sys.path.insert(0, os.path.dirname(os.path.dirname(os.path.abspath(__file__))))
import lib, sqlcommon

META = {
    "property_id": "C22",
    "level": "model_checking",
    "technique": "TLA+ spec Recreate.tla: the re-creation of an object from its SHOW CREATE text must be a stuttering step of (printed text, catalog projection, probe replies); action property checked by TLC on a small universe; trace validation (Trace_Recreate.tla) of recorded re-creations of generated tables (13 column types, defaults, collations, keys with prefixes, checks, foreign keys, generated columns), views, triggers and procedures on the real engine",
    "text": "For every generated object the driver records the statement SHOW CREATE TABLE/VIEW/TRIGGER/PROCEDURE prints, the object's rows in information_schema (COLUMNS with type, nullability, default, extra, character set, collation, comment, generation expression; STATISTICS incl. prefix length; TABLE_CONSTRAINTS; KEY_COLUMN_USAGE; REFERENTIAL_CONSTRAINTS with rules; CHECK_CONSTRAINTS; TABLES collation and comment; VIEWS / TRIGGERS / ROUTINES / PARAMETERS definition fields) and the replies of a fixed list of DML probes (default rows, duplicate key, NULL into each column, check-violating and foreign-key-violating values, read-back; SELECT through a view; DML firing a trigger; CALL of a procedure), then throws the database away, executes the printed statement in a fresh engine with the same prerequisites and records everything again. TLC validates every recorded re-creation against the specification: the printed statement must be accepted, the second printed text must equal the first (a fixpoint), every catalog table must hold the same set of rows and every probe must get the same reply; a disagreement names the differing components.",
    "note": "the first observation is the reference (the property relates two observations of the engine, the specification contributes the law, not the values); generated statements the engine rejects are counted and dropped; one object per case with fixed names; probes run after the text and the catalog were read (they change AUTO_INCREMENT); trusted: TLC, the information_schema queries and the reply normaliser in harness/cmd/c22; the difference labels (which catalog field differs) are computed by run/props/C22.py for the signature only",
    "design_ref": "§7 C22",
}

PID = "C22"

# field names of the projection queries of harness/cmd/c22 (labels of a disagreement only)
FIELDS = {
    "TABLES": ["table_type", "engine", "table_collation", "table_comment"],
    "COLUMNS": ["column_name", "ordinal_position", "column_default", "is_nullable", "data_type", "character_maximum_length", "numeric_precision",
                "numeric_scale", "datetime_precision", "character_set_name", "collation_name", "column_type", "column_key", "extra", "column_comment",
                "generation_expression"],
    "STATISTICS": ["index_name", "seq_in_index", "column_name", "non_unique", "sub_part", "nullable", "index_type", "index_comment"],
    "TABLE_CONSTRAINTS": ["constraint_name", "constraint_type", "enforced"],
    "KEY_COLUMN_USAGE": ["constraint_name", "column_name", "ordinal_position", "position_in_unique_constraint", "referenced_table_name", "referenced_column_name"],
    "REFERENTIAL_CONSTRAINTS": ["constraint_name", "unique_constraint_name", "match_option", "update_rule", "delete_rule", "referenced_table_name"],
    "CHECK_CONSTRAINTS": ["constraint_name", "check_clause"],
}


def msg_class(m):
    m = re.sub(r"`[^`]*`|'[^']*'|\"[^\"]*\"", "_", (m or "").lower())
    m = re.sub(r"[0-9]+", "n", m)
    return " ".join(m.split())[:70]


def proj_label(w, missing, extra, kind):
    """Which fields of catalog table w differ: rows are paired by their leading identity fields."""
    names = FIELDS.get(w) if kind == "table" else None
    nkey = {"STATISTICS": 3, "KEY_COLUMN_USAGE": 2}.get(w, 1)
    if not names or w == "TABLES":
        nkey = 0
    mk = {tuple(r[:nkey]): r for r in missing}
    ek = {tuple(r[:nkey]): r for r in extra}
    labels = set()
    for k in set(mk) | set(ek):
        if k in mk and k in ek:
            for i, (a, b) in enumerate(zip(mk[k], ek[k])):
                if a != b:
                    labels.add(names[i] if names and i < len(names) else "f%d" % i)
        elif k in mk:
            labels.add("-row")
        else:
            labels.add("+row")
    return "%s[%s]" % (w, "+".join(sorted(labels)))


def features(ev_obj):
    """Features of the object that the recorded findings are about, read off the generated statement and the
    printed text (labels of a disagreement only)."""
    t1, create = ev_obj["obs"]["text"], ev_obj.get("create") or ""
    f = []
    if re.search(r"enum\([^)]*\)[^,\n]* DEFAULT '\d+'", t1):
        f.append("enum-default-as-index")
    if re.search(r"set\([^)]*\)[^,\n]* DEFAULT '\d+'", t1):
        f.append("set-default-as-number")
    if re.search(r"GENERATED ALWAYS AS \([^,]*\) VIRTUAL", create):
        f.append("virtual-generated")
    if re.match(r"CREATE VIEW \w+ \(", create):
        f.append("view-column-list")
    return f


def signatures(ev_obj, ev_re, m):
    """One signature per differing component: C22|<kind>|<component>|feat=<features>."""
    feat = ",".join(features(ev_obj))
    out = []
    for w in m["what"]:
        if w == "rejected":
            comp = "rejected:" + msg_class(ev_re.get("msg"))
        elif w.startswith("proj:"):
            t = w[5:]
            comp = "proj:" + proj_label(t, m["missing"].get(t, []), m["extra"].get(t, []), ev_obj["kind"])
        else:
            comp = w
        out.append("C22|%s|%s|feat=%s" % (ev_obj["kind"], comp, feat))
    return out


def validate(path):
    mms, states = sqlcommon.validate_trace(path, module="Trace_Recreate", cfg="Trace_Recreate.cfg", chunk=400, procs=3, timeout=900)
    return mms, states


def judge(path):
    """TLC-validate a recorded trace; returns [(signature, detail, id)] for every rejected re-creation."""
    mms, states = validate(path)
    evs = sqlcommon.load_events(path)
    out = []
    for m in mms:
        re_ev, obj = evs[m["line"]], evs[m["line"] - 1]
        det = {"create": obj.get("create"), "prereq": obj.get("prereq"), "show_create": obj["obs"]["text"], "what": m["what"],
               "rejected_with": re_ev.get("msg"), "show_create_after": re_ev["obs"]["text"] if re_ev["obs"]["text"] != obj["obs"]["text"] else "(identical)",
               "catalog_rows_lost": m["missing"], "catalog_rows_new": m["extra"],
               "probes_differing": [{"sql": (obj.get("probes") or [])[i - 1] if 0 < i <= len(obj.get("probes") or []) else "?",
                                     "before": obj["obs"]["probe"][i - 1] if 0 < i <= len(obj["obs"]["probe"]) else None,
                                     "after": re_ev["obs"]["probe"][i - 1] if 0 < i <= len(re_ev["obs"]["probe"]) else None} for i in sorted(m.get("probes") or [])][:6],
               "case": {k: obj.get(k) for k in ("kind", "name", "prereq", "create", "probes", "tags")}, "id": obj["id"], "seed": lib.seed()}
        det["case"]["name"] = {"table": "t1", "view": "v1", "trigger": "tr1", "procedure": "p1"}[obj["kind"]]
        det["tags"] = obj.get("tags")
        for sig in signatures(obj, re_ev, m):
            out.append((sig, det, obj["id"]))
    return out, states, len(evs) // 2


def witness_cases(sc):
    fs = [f for f in lib.load_findings(PID) if f.get("witness_file")]
    allp = os.path.join(sc, "witness-cases.ndjson")
    owner = []
    with open(allp, "w") as out:
        for f in fs:
            for line in open(os.path.join(lib.VERIF, f["witness_file"])):
                if line.strip():
                    out.write(line.strip() + "\n")
                    owner.append(f["id"])
    return fs, allp, owner


def record(binp, sc, tag, gen_args, wit_cases, only=None):
    """One recording round: the witness cases and the generated cases (all, or only the given ids), each in
    its own fresh driver process, concatenated into one trace for one TLC validation."""
    parts = []
    rep = None
    if wit_cases and os.path.getsize(wit_cases) > 0:
        wt = os.path.join(sc, "wit-%s.ndjson" % tag)
        lib.run_report([binp, "-cases", wit_cases, "-out", wt], timeout=900)
        parts.append(wt)
    if only is None or only:
        mt = os.path.join(sc, "gen-%s.ndjson" % tag)
        args = [binp] + gen_args + (["-only", ",".join(map(str, sorted(only)))] if only else []) + ["-out", mt]
        rep = lib.run_report(args, timeout=3000)
        parts.append(mt)
    allt = os.path.join(sc, "trace-%s.ndjson" % tag)
    with open(allt, "w") as out:
        for p in parts:
            out.write(open(p).read())
    return allt, rep


def check(tier):
    t0 = time.time()
    binp = lib.build("c22")
    v = lib.Verdict(PID)
    n = 300 if tier == "quick" else 6000
    import concurrent.futures as cf
    with lib.Scratch() as sc, cf.ThreadPoolExecutor(max_workers=1) as ex:
        fm = ex.submit(lib.tlc, "MC_Recreate", "MC_Recreate.cfg", workers=1, timeout=300, heap="1g")
        fs, wit_cases, owner = witness_cases(sc)
        gen_args = ["-n", str(n), "-seed", str(lib.seed())]
        trace, rep = record(binp, sc, "main", gen_args, wit_cases)
        lib.log("[C22] %d objects recorded (%d rejected by the engine), %.1fs" % (rep["cases"], rep["extra"]["rejected_by_engine"], time.time() - t0))
        res, states, ncases = judge(trace)
        lib.log("[C22] validated, %d disagreements, %.1fs" % (len(res), time.time() - t0))
        nw = 0
        if res:
            # every disagreement again in fresh processes (the witnesses all, the generated cases alone)
            ctr, _ = record(binp, sc, "confirm", gen_args, wit_cases, only={cid for _, _, cid in res if cid < 9000000})
            again, _, _ = judge(ctr)
            seen = {(cid, sig) for sig, _, cid in again}
            hit = set()
            for sig, det, cid in res:
                if (cid, sig) not in seen:
                    raise lib.Inconclusive("disagreement did not reproduce in a fresh process: %s" % det["create"])
                if cid > 9000000:
                    det["witness_of"] = owner[cid - 9000001]
                    hit.add(det["witness_of"])
                    nw += 1
                v.add(sig, det)
            for f in fs:
                if f["id"] not in hit:
                    lib.log("[C22] NOTE: the witness of %s no longer disagrees with the specification" % f["id"])
        rm = fm.result()
        lib.tlc_ok(rm, "MC_Recreate")
        if rep["cases"] < n * 0.8 or rep["nontrivial"] < n * 0.5:
            raise lib.Inconclusive("vacuous: %d of %d generated objects recorded, %d distinct printed statements" % (rep["cases"], n, rep["nontrivial"]))
        rc = v.finish()
        lib.write_evidence(PID, tier, "model_checking", {
            "states": states + rm.distinct, "transitions": states + rm.generated,
            "traces_validated_against_impl": ncases,
            "samples": rep["samples"][:3] or ["(no sample met the sampling rule this run)"],
            "evaluations": ncases, "distinct_nontrivial": rep["nontrivial"],
            "rule": "one case = one object (generated, or a recorded witness) observed, re-created from its printed statement in a fresh engine and observed again; non-trivial = distinct printed statements among the generated objects",
            "by_kind": rep["extra"]["by_kind"], "features": rep["extra"]["tags"], "rejected_by_engine": rep["extra"]["rejected_by_engine"],
            "rejected_classes": rep["extra"]["rejected_classes"], "disagreements_reproduced": len(res), "witness_disagreements": nw,
            "mc_distinct_states": rm.distinct,
        }, time.time() - t0, violations=len(v.violations),
            assumptions=["SHOW CREATE of an object is a complete, re-executable description of it (MySQL manual: SHOW CREATE TABLE shows the CREATE TABLE statement that creates the named table)"])
        return rc


def replay(path):
    rec = json.load(open(path))
    det = rec["first"]["detail"]
    binp = lib.build("c22")
    with lib.Scratch() as sc:
        p = os.path.join(sc, "case.ndjson")
        lib.write_ndjson(p, [det["case"]])
        tr = os.path.join(sc, "trace.ndjson")
        lib.run_report([binp, "-cases", p, "-out", tr])
        res, _, _ = judge(tr)
        for sig, d, _ in res:
            print("VIOLATION property=C22 replay=%s" % path)
            print(json.dumps({"signature": sig, "create": d["create"], "show_create": d["show_create"], "rejected_with": d["rejected_with"], "what": d["what"]})[:3000])
        return 1 if res else 0
