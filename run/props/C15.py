"""C15 — a failed data-modifying statement has no effect (level: fault_enumeration).

Specification: spec/Trace_Faults.tla (EXTENDS Trace_Tables / SQLTables): the action StmtWithFault(stmt, k)
has exactly two allowed outcomes — the injected storage fault fired => reply = error and every table
UNCHANGED (rows as bags, and every index lookup afterwards is the filter over those rows); it did not
fire => one of the outcomes SQLTables!Outcomes allows.  A naturally failed statement (duplicate, NOT NULL,
CHECK at any row position) must leave everything unchanged too, a succeeded one must carry the tables of a
successful outcome.  spec/MC_Faults.tla (EXTENDS MC_Tables) executes the bounded grammars row by row with a
fault action at every row position and model-checks FailedStmtNoEffectF and StepsRefineStatement; its
"checkpoint" configuration (per-row begin/complete of IGNORE statements, as the engine does) is REQUIRED to
be refuted by TLC — the design-level image of the recorded finding.

Driver: harness/cmd/dml2 -prop c15.  For every statement of a steered dmlgen history (multi-row INSERT /
REPLACE / INSERT IGNORE / ON DUPLICATE KEY UPDATE / UPDATE / DELETE on tables with unique and secondary
indexes, NOT NULL, CHECKs) plus placed families whose natural failure sits at every row position j of m:
count the row-edit calls N of the unfaulted run (verifhook.EditFaultFn in counting mode), then for
k = 1..N run the statement on a FRESH copy of the state (new engine, history prefix replayed) with the
storage error injected at the k-th row-edit call; tables and C16-style index probes are recorded before
and after.  TLC judges every run; every disagreement is re-run in isolation before it counts."""
import os, time
import lib, dml2common as d2

PID = "C15"
MODULE = "Trace_Faults"
META = {
    "property_id": PID,
    "level": "fault_enumeration",
    "technique": "TLA+ specification (SQLTables + Trace_Faults: StmtWithFault(stmt, k) allows exactly 'error and UNCHANGED' when the fault fired, the normal Outcomes otherwise) evaluated by TLC on every recorded run of an exhaustive enumeration of storage-fault positions (the k-th row-edit call of the in-memory table editor, k = 1..N, each on a fresh copy of the state) plus natural failures placed at every row position; bounded row-level model MC_Faults model-checked (FailedStmtNoEffectF, StepsRefineStatement)",
    "text": "A data-modifying statement that fails — duplicate key, NOT NULL, CHECK at any row of a multi-row statement, a failure of the statement's row source at any source row (BEFORE trigger SIGNAL, run-time error of INSERT .. SELECT), or a storage error injected at any row-edit call — leaves every table exactly as before (rows as bags and all index lookups); a statement that succeeds has the table contents of a successful outcome of the specification.",
    "note": "Row-source failures (BEFORE trigger SIGNAL, run-time error of INSERT .. SELECT at source row k) are generated through the real mechanisms. Storage faults are injected at the entry of memory.tableEditor.Insert/Update/Delete (hook verifhook.EditFaultFn); faults inside StatementComplete/ApplyEdits are not injected (stage 2, not built). Conversion errors and trigger errors are covered by C27 / C23. IGNORE statements keep the rows before the fault (recorded finding).",
}

RULE = ("steered dmlgen histories (8-16 statements; single/composite/no primary key, unique and plain secondary indexes, NOT NULL, CHECK) plus placed "
        "families with the natural failure (duplicate / NOT NULL / colliding UPDATE) at every row position j of m; for every statement the fault "
        "positions k = 1..N (N = row-edit calls of the unfaulted run, all of them up to 12, evenly sampled beyond) each on a fresh copy of the state. "
        "Row-source failures: at random points of a history a family of non-IGNORE INSERT / REPLACE statements of m fresh rows whose ROW SOURCE fails at source row k = 1..m "
        "(BEFORE INSERT trigger SIGNAL on the k-th VALUES row; INSERT / REPLACE .. SELECT .. ORDER BY with a BIGINT overflow on the k-th row), in autocommit mode and inside "
        "START TRANSACTION .. COMMIT, each on a fresh copy of the state, with index probes afterwards. "
        "The same enumeration runs over foreign-key histories (cascades) and trigger histories (audit table), judged by 'a failed statement changes no table'. "
        "A case = one run (statement, fault position). Non-trivial = the injected fault fired, or the statement failed naturally.")


def signature(m, ev):
    k = "k=0" if ev["k"] == 0 else ("k=first" if ev["k"] == 1 else "k=later")
    if ev["ev"] == "sfault":
        # row-source failure: tags = mechanism (signal | select), statement (insert | replace), mode (autocommit | txn)
        r = ev["reply"]
        return "C15|sfault|%s|got=%s|%s|%s" % ("+".join(m["what"]), r["kind"] + (":" + r["class"] if r.get("class") else ""), k, ",".join(ev.get("tags", [])))
    r = ev["reply"]
    got = r["kind"] + (":" + r["class"] if r.get("class") else "")
    # statement-shape tags only (the table-shape tags start with keyless / pk1 / pkN)
    tags = []
    for t in ev.get("tags", []):
        if t in ("keyless", "pk1", "pkN"):
            break
        tags.append(t)
    return "C15|%s|%s|got=%s|%s|%s" % (ev["ev"], "+".join(m["what"]), got, k, ",".join(tags))


def key(m, ev):
    return (ev["id"], ev["ev"], ev["k"], tuple(m["what"]), tuple(ev.get("tags", [])) if ev["ev"] == "sfault" else ())


def detail(m, ev):
    d = {"id": ev["id"], "history": ev["h"], "event": ev["ev"], "sql": ev.get("sql"), "fault_at_call": ev["k"], "calls": ev["calls"],
         "row_edit_calls": ev.get("ops"), "reply": ev["reply"], "what": m["what"], "changed_tables": m.get("changed"),
         "pre": d2.pretty_tabs(ev.get("pre")), "post": d2.pretty_tabs(ev.get("post"))}
    if m.get("badprobes"):
        p = ev["probes"][m["badprobes"][0] - 1]
        d["probe"] = {"sql": p["sql"], "via": p["via"], "idx": p["idx"], "got": d2.pretty_rows(p["res"].get("rows", []))}
    return d


def mc_runs(quick):
    if quick:
        return [("MC_Faults", "MC_Faults_keys_q.cfg", {"workers": 3}), ("MC_Faults", "MC_Faults_ckpt.cfg", {"workers": 2})]
    return [("MC_Faults", "MC_Faults_keys.cfg", {"workers": 4}), ("MC_Faults", "MC_Faults_cons.cfg", {"workers": 4}),
            ("MC_Faults", "MC_Faults_ckpt.cfg", {"workers": 2})]


def check(tier):
    t0 = time.time()
    quick = tier == "quick"
    binp = lib.build("dml2")
    v = lib.Verdict(PID)
    mc = d2.MC(mc_runs(quick), workers=6)
    mc.start()
    try:
        with lib.Scratch() as scd:
            wit = d2.Witnesses(binp, PID, "c15", MODULE, scd, signature, detail)
            wit.start()
            nh = 20 if quick else 120
            trace, rep = d2.run_gen(binp, "c15", nh, scd, procs=4 if quick else 8)
            ex = rep["extra"]
            lib.log("[C15] %d histories: %d runs, %d fault runs (%d fired), natural failures %s, %.1fs"
                    % (nh, rep["cases"], ex.get("fault_runs", 0), ex.get("faults_fired", 0), ex.get("natural_failures"), time.time() - t0))
            stats = d2.judge_trace(PID, binp, "c15", MODULE, trace, v, scd, signature, key, detail,
                                   per_chunk=(nh + 4) // 5 if quick else 8, procs=5 if quick else 10)
            # histories outside the SQLTables grammar: foreign-key cascades and trigger targets
            nx = 8 if quick else 48
            xtrace, xrep = d2.run_gen(binp, "c15", nx, scd, procs=2 if quick else 6, extra=["-x"], tag="x")
            xex = xrep["extra"]
            xstats = d2.judge_trace(PID, binp, "c15", MODULE, xtrace, v, scd, signature, key, detail, per_chunk=(nx + 1) // 2 if quick else 8,
                                    procs=2 if quick else 6, tag="x", extra=["-x"])
            lib.log("[C15] foreign-key / trigger histories %s: %d runs, %d fault runs (%d reached a cascade or trigger target), %d disagreement(s), %.1fs"
                    % (xex.get("x_histories"), xrep["cases"], xex.get("fault_runs", 0), xex.get("x_fault_runs_reaching_other_tables", 0),
                       xstats["mismatches"], time.time() - t0))
            lib.log("[C15] validated %d events: %d disagreement(s), %d signature(s), %.1fs"
                    % (stats["events"], stats["mismatches"], len(stats["signatures"]), time.time() - t0))
            nat = ex.get("natural_failures", {})
            pos = ex.get("natural_failure_positions", {})
            floors = {"fault runs": (ex.get("fault_runs", 0), 200), "fired faults": (ex.get("faults_fired", 0), 200),
                      "fault positions beyond the first row edit": (sum(1 for e in d2.load_events(trace).values() if e["ev"] == "fault" and e["k"] >= 2), 40),
                      "natural duplicate failures": (nat.get("dup", 0), 10), "natural NOT NULL failures": (nat.get("notnull", 0), 3),
                      "natural failures after at least one row edit": (sum(n for k, n in pos.items() if not k.endswith("@edit0") and not k.endswith("@edit1")), 5),
                      "index probes through an index": (ex.get("probes_via_index", 0), 200),
                      "fault runs over cascades / trigger targets": (xex.get("x_fault_runs_reaching_other_tables", 0), 15),
                      "row-source failures": (ex.get("source_fault_runs", 0), 60),
                      "row-source failures at a later source row": (ex.get("source_fault_runs_later_row", 0), 30),
                      "row-source failures inside a transaction": (ex.get("source_fault_runs_in_txn", 0), 15)}
            for what, (got, floor) in floors.items():
                if got < floor and not v.violations:      # (a reproduced disagreement is a verdict even in a thin run)
                    raise lib.Inconclusive("vacuous run: %s = %d < %d" % (what, got, floor))
            nw = wit.finish(v)
            # bounded models
            mstates = mtrans = 0
            refuted = False
            for module, cfg, r in mc.finish():
                if cfg == "MC_Faults_ckpt.cfg":
                    if r.error or "FailedStmtNoEffectF" not in r.action_prop_violated:
                        raise lib.Inconclusive("MC_Faults/%s: TLC did not refute FailedStmtNoEffectF for the per-row checkpoint mechanism\n%s" % (cfg, r.out[-2000:]))
                    refuted = True
                    continue
                lib.tlc_ok(r, "MC_Faults/" + cfg)
                kc = r.jsons("KC")
                if r.distinct < 1000 or not kc or min(kc[-1][k] for k in ("fault", "fail", "ok", "row")) < 1:
                    raise lib.Inconclusive("MC_Faults/%s is vacuous: %d states, step kinds %s" % (cfg, r.distinct, kc))
                mstates += r.distinct
                mtrans += r.generated
            rc = v.finish()
            cov = {"evaluations": rep["cases"] + xrep["cases"], "distinct_nontrivial": rep["nontrivial"] + xrep["nontrivial"], "rule": RULE,
                   "foreign_key_and_trigger_histories": {"histories": xex.get("x_histories"), "runs": xrep["cases"], "fault_runs": xex.get("fault_runs"),
                                                         "fault_runs_reaching_cascade_or_trigger_targets": xex.get("x_fault_runs_reaching_other_tables"),
                                                         "natural_failures": xex.get("natural_failures"), "disagreements": xstats["mismatches"],
                                                         "signatures": xstats["signatures"]},
                   "samples": rep["samples"] or [{"note": "no sample"}],
                   "exhaustive": ex.get("statements_with_sampled_positions", 0) == 0,
                   "histories": nh, "fault_runs": ex.get("fault_runs"), "faults_fired": ex.get("faults_fired"),
                   "max_row_edit_calls_of_a_statement": ex.get("max_calls"), "statements_with_sampled_positions": ex.get("statements_with_sampled_positions"),
                   "natural_failures": nat, "natural_failure_positions": pos,
                   "source_fault_runs": ex.get("source_fault_runs"), "source_fault_mechanisms": ex.get("source_fault_kinds"),
                   "source_fault_runs_later_row": ex.get("source_fault_runs_later_row"), "source_fault_runs_in_txn": ex.get("source_fault_runs_in_txn"), "reply_kinds": ex.get("reply_kinds"),
                   "probes": ex.get("probes"), "probes_via_index": ex.get("probes_via_index"),
                   "events_validated_by_tlc": stats["events"], "validation_states": stats["states"],
                   "disagreements": stats["mismatches"], "confirmed_in_isolation": stats["confirmed"], "signatures": stats["signatures"],
                   "witness_mismatches": nw, "model_states": mstates, "model_transitions": mtrans,
                   "models": [c for _, c, _ in mc.results], "checkpoint_mechanism_refuted_by_tlc": refuted}
            lib.write_evidence(PID, tier, "fault_enumeration", cov, time.time() - t0, violations=len(v.violations),
                               assumptions=["TLC; the SQL renderer and value normaliser in harness/lib (representation only)",
                                            "fault injection point = entry of memory.tableEditor.Insert/Update/Delete (verifhook.EditFaultFn); a copy of the state = a fresh engine with the history prefix replayed",
                                            "interpreted fragment of SQLTables (INT / VARCHAR(32) under utf8mb4_0900_bin and _ai_ci); shapes of the DML findings recorded under C13/C14/C19 are not generated"])
            return rc
    finally:
        mc.join()


def replay(path):
    return d2.replay(PID, "c15", MODULE, path, signature, detail)
