"""C31 — date and time values parse, format and compute consistently.
Spec: spec/Calendar.tla (proleptic Gregorian day numbers, month lengths, interval addition with
end-of-month clamping, complete-unit differences, validity).
Model checking: spec/MC_Calendar.tla checks the calendar's own laws on every date of a year range.
Binding A: TLC enumerates the boundary-heavy cases with the accepted canonical result strings;
harness/cmd/c31 executes each through SQL (string membership only).
Binding B: seeded random values / formats / intervals are executed and recorded; every recorded line
is judged by spec/Trace_Calendar.tla with the same operators."""
import concurrent.futures as cf
import json, os, time
import lib

PID = "C31"
META = {
    "property_id": PID,
    "level": "model_checking",
    "technique": "TLA+ spec Calendar.tla (integer calendar algorithms); TLC model-checks its laws over every date of a year range, enumerates boundary-heavy (date, interval / date pair / invalid date) cases with the accepted results, which are executed on the engine through SQL; random recorded executions (DATE_FORMAT/STR_TO_DATE, DATE_ADD/DATE_SUB, DATEDIFF/TIMESTAMPDIFF) are validated by Trace_Calendar.tla with TLC",
    "text": "Day-granular calendar arithmetic of the engine is compared with an explicit calendar specification: DATE_ADD/DATE_SUB for DAY/WEEK/MONTH/QUARTER/YEAR (end-of-month clamping) and small HOUR/MINUTE/SECOND intervals, DATEDIFF, TIMESTAMPDIFF in complete units with sign, LAST_DAY, DAYOFWEEK, WEEKDAY, DAYOFYEAR, TO_DAYS/FROM_DAYS, CAST/INSERT/STR_TO_DATE of valid dates, and rejection (error or NULL) of dates that do not exist, on years {1,1000,1900,1999,2000,2024,2100,9999} x months {1,2,3,4,12} x days {1,28..31} x intervals +-{1,11,12,13,48}. On random values the laws STR_TO_DATE(DATE_FORMAT(v,f),f) = v for complete unambiguous formats, DATE_SUB(DATE_ADD(v,i),i) = v when the specification's NoClamp holds, the sums themselves, DATEDIFF = day-count difference and TIMESTAMPDIFF = complete-unit difference are judged by TLC on the recorded strings.",
    "note": "Partial claim (DESIGN 7 C31): day-granular arithmetic in 0001-01-01..9999-12-31, second arithmetic for values at most 24000 days apart (32-bit integers in TLC); no time zones, no TIMESTAMP type, no zero dates, no week-based format specifiers, no 12-hour clock. Results before 0001-01-01 are not judged. Trusted: TLC, the SQL rendering and the splitting of canonical strings into integers in harness/cmd/c31.",
    "design_ref": "§7 C31",
}

CONFIRM_CAP = 40
ASSUMPTIONS = [
    "session time zone +00:00, process TZ=UTC, default sql_mode (strict)",
    "a canonical string is the wire rendering (Type.SQL) of the result column; NULL and errors are the outcomes NULL / ERROR",
    "results before 0001-01-01 are not judged (MySQL itself yields year-0 dates or NULL depending on the unit)",
]


# ---------------------------------------------------------------- TLC pieces

def run_sanity(tier, workers):
    cfg = "MC_Calendar_sanity.cfg" if tier == "quick" else "MC_Calendar_sanityall.cfg"
    r = lib.tlc("MC_Calendar", cfg, workers=workers, timeout=3000, coverage=(tier == "thorough"), heap="4g")
    lib.tlc_ok(r, "MC_Calendar/" + cfg)
    if r.distinct < 1000:
        raise lib.Inconclusive("sanity model explored only %d states" % r.distinct)
    return r


def run_enum(sc, cfg, workers, simulate=None, coverage=False):
    path = os.path.join(sc, cfg + ".ndjson")
    kw = dict(workers=workers, timeout=3000, heap="6g", coverage=coverage)
    if simulate:
        kw.update(workers=1, simulate="num=%d" % simulate, depth=3, tlc_seed=lib.seed(), coverage=False)
        r = lib.tlc("MC_Calendar", cfg, **kw)
        if r.error or r.invariant_violated:
            raise lib.Inconclusive("%s: %s\n%s" % (cfg, r.error or r.invariant_violated, r.out[-1500:]))
        cases = r.jsons("CASE")
        lib.write_ndjson(path, cases)
    else:
        r, cases = lib.dump_transitions("MC_Calendar", cfg, path, prefix="CASE", **kw)
    return r, cases, path


def validate(rows, sc, tag, timeout=1200):
    """Judge recorded lines with Trace_Calendar. Returns (MM list, ST list); l is 1-based in rows."""
    if not rows:
        return [], []
    d = os.path.join(sc, "tv-" + tag)
    os.makedirs(d, exist_ok=True)
    p = os.path.join(d, "c31_trace.ndjson")
    lib.write_ndjson(p, rows)
    r = lib.tlc("Trace_Calendar", "Trace_Calendar.cfg", workers=1, timeout=timeout, heap="2g",
                extra_files=[("c31_trace.ndjson", p)])
    lib.tlc_ok(r, "Trace_Calendar[%s]" % tag)
    st = r.jsons("ST")
    if r.postcondition_failed or len(st) != len(rows) or r.distinct != len(rows) + 1:
        raise lib.Inconclusive("trace %s: %d lines judged of %d (states %d)\n%s" % (tag, len(st), len(rows), r.distinct, r.out[-1200:]))
    return r.jsons("MM"), st


def validate_parallel(rows, sc, tag, nchunks):
    n = max(1, (len(rows) + nchunks - 1) // nchunks)
    parts = [rows[i:i + n] for i in range(0, len(rows), n)]
    mm, st = [], []
    with cf.ThreadPoolExecutor(max_workers=len(parts) or 1) as ex:
        futs = [ex.submit(validate, part, sc, "%s%d" % (tag, i)) for i, part in enumerate(parts)]
        off = 0
        for part, f in zip(parts, futs):
            m, s = f.result()
            for x in m + s:
                x["l"] += off
            mm += m
            st += s
            off += len(part)
    return mm, st


def sig_b(m, row):
    s = "B|%s|%s|%s|form=%s" % (m["ev"], m["what"], m["tag"], m.get("form", "?"))
    if m["what"] == "datediff":
        dd = row.get("dd", {})
        s += "|got=%s" % (dd.get("v") if dd.get("t") == "i" else dd.get("t"))
    return s


def detail_b(m, row):
    keep = {k: row.get(k) for k in ("ev", "id", "v", "b", "kind", "form", "specs", "n", "u", "vs", "f", "back", "backraw",
                                    "nest", "add", "dd", "ts", "sql") if row.get(k) not in (None, "", {})}
    return {"what": m["what"], "tag": m["tag"], "specification_expects": m["exp"], "recorded": keep}


# ---------------------------------------------------------------- binding A

def replay_cases(binp, path):
    return lib.run_report([binp, "replay", "-file", path], timeout=3000)


def confirm_a(binp, v, rep, sc, tag):
    """Every kept example of every signature alone in one fresh process; must disagree again."""
    ex = rep["mismatches"]
    if not ex:
        return 0
    p = os.path.join(sc, "confirm-a-%s.ndjson" % tag)
    lib.write_ndjson(p, [m["input"] for m in ex])
    again = replay_cases(binp, p)
    sigs = {(m["input"]["e"], m["signature"]) for m in again["mismatches"]}
    total = 0
    for m in ex:
        if (m["input"]["e"], m["signature"]) not in sigs:
            raise lib.Inconclusive("enumerated mismatch did not reproduce: %s" % m)
    for sig, n in rep["extra"]["by_signature"].items():
        first = [m for m in ex if m["signature"] == sig]
        if not first:
            raise lib.Inconclusive("no example kept for signature %s" % sig)
        v.add("C31|" + sig, {"sql": first[0]["input"]["e"], "accepted": first[0]["expected"], "engine": first[0]["got"],
                             "occurrences": n, "more": [[m["input"]["e"], m["got"]] for m in first[1:]], "case": first[0]["input"]})
        total += n
    return total


# ---------------------------------------------------------------- binding B

def run_b(binp, sc, n, nchunks):
    tpath = os.path.join(sc, "b.ndjson")
    grep = lib.run_report([binp, "gen", "-seed", str(lib.seed()), "-n", str(n), "-out", tpath], timeout=3000)
    rows = lib.read_ndjson(tpath)
    mm, st = validate_parallel(rows, sc, "b", nchunks)
    return grep, rows, mm, st


def confirm_b(binp, v, rows, mm, sc, n):
    if not mm:
        return
    by_sig = {}
    for m in mm:
        by_sig.setdefault(sig_b(m, rows[m["l"] - 1]), []).append(m)
    picked = []
    for sig, ms in by_sig.items():
        picked += ms[:2]
    picked = picked[:CONFIRM_CAP * 2]
    ids = sorted({m["id"] for m in picked})
    out = os.path.join(sc, "confirm-b.ndjson")
    lib.run_report([binp, "gen", "-seed", str(lib.seed()), "-n", str(n), "-only", ",".join(map(str, ids)), "-out", out])
    again_rows = lib.read_ndjson(out)
    again, _ = validate(again_rows, sc, "confirm-b")
    seen = {(m["id"], m["what"]) for m in again}
    for m in picked:
        if (m["id"], m["what"]) not in seen:
            raise lib.Inconclusive("recorded mismatch did not reproduce in a fresh process: %s" % m)
    for sig, ms in by_sig.items():
        d = detail_b(ms[0], rows[ms[0]["l"] - 1])
        d["occurrences"] = len(ms)
        d["seed"] = lib.seed()
        v.add("C31|" + sig, d)


def run_witnesses(binp, sc):
    """Replays the witness of every finding of C31 (CASE lines through replay, events through exec +
    Trace_Calendar; one engine process and one TLC run for all of them).  Returns
    [(finding id, signature, detail)] of the disagreements and the ids of the findings replayed; a
    witness that still disagrees goes through the verdict (-> KNOWN-FINDING while the finding is
    open, VIOLATION if it was marked fixed)."""
    cases, evs, ids = [], [], []
    for f in lib.load_findings(PID):
        wf = f.get("witness_file")
        if not wf:
            continue
        ids.append(f["id"])
        for x in lib.read_ndjson(os.path.join(lib.VERIF, wf)):
            if "op" in x:
                cases.append((f["id"], x))
            elif "ev" in x:
                evs.append((f["id"], dict(x, id=len(evs) + 1)))
    out = []
    if cases:
        p = os.path.join(sc, "w-cases.ndjson")
        lib.write_ndjson(p, [c for _, c in cases])
        rep = lib.run_report([binp, "replay", "-file", p, "-keep", "1000"])
        for m in rep["mismatches"]:
            out.append((cases[m["case"]][0], "C31|" + m["signature"],
                        {"witness_of": cases[m["case"]][0], "sql": m["input"]["e"], "accepted": m["expected"], "engine": m["got"]}))
    if evs:
        pin, pout = os.path.join(sc, "w-ev.in"), os.path.join(sc, "w-ev.out")
        lib.write_ndjson(pin, [e for _, e in evs])
        lib.run_report([binp, "exec", "-in", pin, "-out", pout])
        rows = lib.read_ndjson(pout)
        mm, _ = validate(rows, sc, "witness")
        for m in mm:
            fid = evs[m["l"] - 1][0]
            d = detail_b(m, rows[m["l"] - 1])
            d["witness_of"] = fid
            out.append((fid, "C31|" + sig_b(m, rows[m["l"] - 1]), d))
    return out, ids


def binding_selftest(binp, cases, rows, sc):
    """DESIGN 9: an expected result flipped (binding A) and a recorded field corrupted (binding B) must
    both be rejected."""
    good = [c for c in cases if c["op"] == "sel" and c["tag"].startswith("date_add-") and len(c["ok"]) == 1 and c["ok"][0] != "NULL"][:20]
    flipped = [dict(c, ok=["1999-09-09"], dev=[]) for c in good]
    p = os.path.join(sc, "selftest-a.ndjson")
    lib.write_ndjson(p, flipped)
    rep = replay_cases(binp, p)
    na = sum(rep["extra"]["by_signature"].values())
    if na != len(flipped) or not flipped:
        raise lib.Inconclusive("binding self-test A: %d of %d flipped expectations were noticed" % (na, len(flipped)))
    goodb = [r for r in rows if r["ev"] == "addsub" and r.get("addok") and r.get("backok")][:20]
    bad = []
    for r in goodb:
        r2 = json.loads(json.dumps(r))
        r2["addp"]["d"] = r2["addp"]["d"] % 28 + 1
        bad.append(r2)
    mm, _ = validate(bad, sc, "selftest-b")
    judged = {m["l"] for m in mm if m["what"] == "date_add"}
    # a corrupted line whose expectation is not judged (result before year 1) cannot be noticed
    if len(judged) < len(bad) - 2 or not bad:
        raise lib.Inconclusive("binding self-test B: %d of %d corrupted lines were rejected" % (len(judged), len(bad)))
    return {"flipped_expectations": len(flipped), "noticed": na, "corrupted_lines": len(bad), "rejected": len(judged)}


# ---------------------------------------------------------------- the check

def check(tier):
    t0 = time.time()
    binp = lib.build("c31")
    v = lib.Verdict(PID)
    quick = tier == "quick"
    nb = 1500 if quick else 20000
    w_big = 4 if quick else max(4, lib.NCPU - 4)
    with lib.Scratch() as sc:
        with cf.ThreadPoolExecutor(max_workers=5) as ex:
            f_wit = ex.submit(run_witnesses, binp, sc)
            f_san = ex.submit(run_sanity, tier, w_big)
            f_enum = ex.submit(run_enum, sc, "MC_Calendar_enum.cfg", 3 if quick else w_big, None, not quick)
            if quick:
                f_pair = ex.submit(run_enum, sc, "MC_Calendar_pairsim.cfg", 1, 400)
            else:
                f_pair = ex.submit(run_enum, sc, "MC_Calendar_pairs.cfg", w_big, None, True)
            f_b = ex.submit(run_b, binp, sc, nb, 3 if quick else max(4, lib.NCPU - 4))
            rs = f_san.result()
            re_, cases, cpath = f_enum.result()
            rp, pairs, ppath = f_pair.result()
            grep, rows, mm, st = f_b.result()
            wit, wit_ids = f_wit.result()
        lib.log("[C31] TLC done %.1fs: sanity %d states, %d cases, %d pair cases, %d recorded lines (%d MM)"
                % (time.time() - t0, rs.distinct, len(cases), len(pairs), len(rows), len(mm)))
        if not quick:
            z = rs.coverage_zero() + re_.coverage_zero() + rp.coverage_zero()
            z = [a for a in z if a not in ("PNext", "PInit", "SNext", "SInit", "ENext", "EInit")]
            if z:
                raise lib.Inconclusive("vacuous: actions never taken: %s" % z)
        if len(cases) < 30000 or len(pairs) < (1500 if quick else 150000):
            raise lib.Inconclusive("too few enumerated cases: %d + %d" % (len(cases), len(pairs)))
        rep_c = replay_cases(binp, cpath)
        rep_p = replay_cases(binp, ppath)
        if rep_c["cases"] != len(cases) or rep_p["cases"] != len(pairs):
            raise lib.Inconclusive("cases dumped and replayed differ")
        nt_b = sum(1 for s in st if s["nt"])
        if len(st) != nb or nt_b < nb // 2:
            raise lib.Inconclusive("recorded lines: %d judged of %d, %d non-trivial" % (len(st), nb, nt_b))
        for fid, sig, d in wit:
            v.add(sig, d)
        nw, nw_dis = len(wit_ids), len({fid for fid, _, _ in wit})
        for fid in wit_ids:
            if fid not in {x for x, _, _ in wit}:
                lib.log("[C31] NOTE: the witness of finding %s no longer disagrees with the specification" % fid)
        n_a = confirm_a(binp, v, rep_c, sc, "c") + confirm_a(binp, v, rep_p, sc, "p")
        confirm_b(binp, v, rows, mm, sc, nb)
        selftest = binding_selftest(binp, cases, rows, sc) if not quick else None
        for x in v.violations:
            lib.log("[C31] unlisted disagreement: %s  %s" % (x["signature"], json.dumps(x["detail"], default=str)[:300]))
        rc = v.finish()
        by_ev = grep["extra"]["by_event"]
        lib.write_evidence(PID, tier, "model_checking", {
            "states": rs.distinct + re_.distinct + rp.distinct + len(st),
            "transitions": len(cases) + len(pairs),
            "traces_validated_against_impl": len(cases) + len(pairs) + len(st),
            "samples": (rep_c["samples"][:3] + [{k: r.get(k) for k in ("ev", "v", "specs", "vs", "f", "back", "sql")}
                                                for r in rows if r["ev"] == "fmt"][:1]) or cases[:2],
            "exhaustive": not quick,
            "evaluations": len(cases) + len(pairs) + len(st),
            "distinct_nontrivial": rep_c["nontrivial"] + rep_p["nontrivial"] + nt_b,
            "rule": "binding A: every case of the boundary grid (MC_Calendar_enum: unary functions, DATE_ADD/DATE_SUB x 5 date units x +-{1,11,12,13,48}, HOUR/MINUTE/SECOND x +-{1,23,24,25,59,60,61} on 3 times of day, invalid dates x 15 functions) once, plus %s; non-trivial (decided by TLC, field nt) = a clamp, a month/year boundary day, a carry into another date, an invalid input, a pair in different months; distinct by SQL text. Binding B: %d seeded random lines (fmt / addsub / diff in turn), non-trivial (decided by TLC, ST lines) = at least one law applicable (valid value, complete unambiguous format / in-range sum / two different dates)"
                    % ("all %d ordered pairs of valid grid dates x (DATEDIFF + TIMESTAMPDIFF in 5 units)" % (len(pairs) // 6) if not quick
                       else "%d random ordered pairs of valid grid dates x 6 functions drawn by TLC (-simulate)" % (len(pairs) // 6), nb),
            "sanity_model": {"cfg": "MC_Calendar_sanity%s.cfg" % ("" if quick else "all"), "states": rs.distinct, "tlc_wall_s": round(rs.wall, 1)},
            "enumerated": {"cases": len(cases), "pair_cases": len(pairs), "by_tag": rep_c["extra"]["by_tag"],
                           "pair_by_tag": rep_p["extra"]["by_tag"], "tlc_wall_s": round(re_.wall + rp.wall, 1),
                           "disagreements": n_a, "by_signature": dict(rep_c["extra"]["by_signature"], **rep_p["extra"]["by_signature"])},
            "recorded": {"lines": len(st), "by_event": by_ev, "nontrivial": nt_b, "disagreements": len(mm)},
            "witnesses": {"findings_with_witness": nw, "still_disagreeing": nw_dis},
            "binding_selftest": selftest,
        }, time.time() - t0, violations=len(v.violations), assumptions=ASSUMPTIONS)
        return rc


def replay(path):
    """Re-run a recorded violation on the current tree."""
    d = json.load(open(path))
    det = d["first"]["detail"]
    binp = lib.build("c31")
    with lib.Scratch() as sc:
        if "case" in det:
            p = os.path.join(sc, "case.ndjson")
            lib.write_ndjson(p, [det["case"]])
            rep = replay_cases(binp, p)
            print(json.dumps(rep["mismatches"], indent=1))
            bad = bool(rep["mismatches"])
        else:
            pin, pout = os.path.join(sc, "ev.in"), os.path.join(sc, "ev.out")
            lib.write_ndjson(pin, [det["recorded"]])
            lib.run_report([binp, "exec", "-in", pin, "-out", pout])
            mm, _ = validate(lib.read_ndjson(pout), sc, "replay")
            print(json.dumps(mm, indent=1))
            bad = bool(mm)
    print("VIOLATION reproduced" if bad else "not reproduced on this tree")
    return 1 if bad else 0
