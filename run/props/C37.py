"""C37 — process list, KILL, Threads_connected / Threads_running.
Spec: spec/ProcessList.tla (one action per ProcessList method as coded + ground-truth ghosts).
Binding A: every transition of the bounded state graph, each with the history that reaches its
pre-state, and random behaviours from `-simulate`, are executed on a real sqle.ProcessList
(harness/cmd/c37) and every observable is compared with the expectation TLC computed.

The invariants the model satisfies (PidIndex, ListShowsLive, ConnectedCounter, KillTargeted, ...) are
checked exhaustively by TLC. RunningCounter is violated by the design itself (model-level
counterexample from ProcessList_design*.cfg); it is therefore judged per replayed step on the REAL
object against the ground truth |running| and reported through lib.Verdict."""
import json, os, re, shutil, subprocess, tempfile, time, glob
from concurrent.futures import ThreadPoolExecutor
import lib

META = {
    "property_id": "C37",
    "level": "model_checking",
    "technique": "TLA+ spec ProcessList.tla (one atomic action per ProcessList method as coded, ghost ground truth live/running); TLC exhaustive state graph with invariants and action properties; every TLC transition (with its history) and simulated behaviours replayed on the real sqle.ProcessList comparing Processes(), byQueryPid, ctx.Err() of every issued context and the two status counters",
    "text": "TLC enumerates every interleaving of AddConnection, ConnectionReady, BeginQuery, EndQuery (also after RemoveConnection), BeginOperation, EndOperation, Kill and RemoveConnection for a few connection ids and query pids up to a bound on issued contexts, and checks on the model that the pid index is the inverse of the listed queries, the list shows exactly the live connections with their running query, Threads_connected = |live|, a step cancels only the current context of the connection it targets, a fresh context is never born cancelled and only a Kill aimed at the holder cancels a held context. Every one of those transitions is then executed on a real ProcessList (history first, then the step) and the list, the pid index, the cancelled/uncancelled status of every context ever issued and both counters are compared with TLC's expectation; Threads_running is judged against the ground-truth number of running queries.",
    "note": "Connection ids and pids come from 2-3 element sets; at most MaxTok contexts and MaxErr failing BeginQuery calls per history. The environment follows server/handler.go: one command at a time per connection, EndQuery for every begun query (possibly after RemoveConnection, possibly repeated as the server does), fresh pids (or the coded pid-collision error). Threads_running must lie between the number of running queries of live connections and the number of all queries not yet ended. Two reproduced counter drifts are listed as known findings (public-API histories; the stock server's call order avoids them, which binding B confirms). Progress-tracking methods are not modelled. Binding B: an in-process server (server.NewServer, memory provider, go-sql-driver clients doing SELECT SLEEP, KILL QUERY/CONNECTION, USE, prepared statements, disconnects mid-query) whose ProcessList is wrapped by a recorder; the recorded call sequences are validated by Trace_ProcessList.tla, which also checks that the handler obeys the environment discipline assumed by the specification. Trusted: TLC, the 60-line observation/projection code in harness/cmd/c37.",
    "design_ref": "§7 C37",
}

ACTIONS = ["AddConnection", "ConnectionReady", "BeginQuery", "EndQuery", "BeginOperation", "EndOperation", "Kill", "RemoveConnection"]


def tlc_pipe(binp, module, cfg, sc, workers, timeout, simulate=None, depth=None, tlc_seed=None, heap="6g", keep=50):
    """Run TLC with the spec's Emit action constraint and stream its output straight into the
    replayer (no multi-hundred-MB intermediate file, no Python-side decoding). Returns
    (lib.TLCResult of TLC's own output lines, the replayer's report)."""
    workdir = tempfile.mkdtemp(prefix="tlc-", dir=sc)
    for f in glob.glob(os.path.join(lib.SPEC, "*.tla")) + glob.glob(os.path.join(lib.SPEC, "*.cfg")):
        shutil.copy(f, workdir)
    args = ["timeout", str(timeout), "tlc", "-metadir", os.path.join(workdir, "meta"), "-workers", str(workers),
            "-config", cfg, "-noGenerateSpecTE"]
    if simulate:
        args += ["-simulate", simulate]
    if depth:
        args += ["-depth", str(depth)]
    if tlc_seed is not None:
        args += ["-seed", str(tlc_seed)]
    args.append(module)
    env = dict(os.environ)
    env["JAVA_TOOL_OPTIONS"] = "-Xmx%s -Xss64m" % heap
    log = os.path.join(workdir, "tlc.log")
    t0 = time.time()
    p1 = subprocess.Popen(args, cwd=workdir, env=env, stdout=subprocess.PIPE, stderr=subprocess.STDOUT)
    p2 = subprocess.Popen([binp, "-file", "-", "-tlclog", log, "-keep", str(keep)], stdin=p1.stdout,
                          stdout=subprocess.PIPE, stderr=subprocess.PIPE, env=lib.goenv(), text=True)
    p1.stdout.close()
    try:
        out, err = p2.communicate(timeout=timeout + 600)
    except subprocess.TimeoutExpired:
        p1.kill(); p2.kill()
        raise lib.Inconclusive("replayer behind %s timed out" % cfg)
    p1.wait()
    tlcout = open(log, errors="replace").read() if os.path.exists(log) else ""
    r = lib.TLCResult(tlcout, p1.returncode, time.time() - t0)
    if p1.returncode == 124:
        r.error = "TLC timed out after %ss" % timeout
    rep = None
    for line in out.splitlines():
        if line.startswith("REPORT "):
            rep = json.loads(line[7:])
    if rep is None:
        raise lib.Inconclusive("c37 produced no report behind %s (exit %d):\n%s\n%s" % (cfg, p2.returncode, err[-2500:], tlcout[-1500:]))
    return r, rep


def run_cases(binp, cases, sc, name):
    p = os.path.join(sc, name)
    lib.write_ndjson(p, cases)
    return lib.run_report([binp, "-file", p, "-keep", "1000000"])


def confirm(binp, mms, sc, name):
    """Re-run the mismatching cases alone in a fresh process; every one must fail the same way."""
    if not mms:
        return
    rep = run_cases(binp, [m["input"] for m in mms], sc, name)
    got = {m["case"]: m["signature"] for m in rep["mismatches"]}
    for j, m in enumerate(mms):
        if got.get(j) != m["signature"]:
            raise lib.Inconclusive("mismatch did not reproduce in isolation: %s (re-run gave %s)" % (json.dumps(m)[:1500], got.get(j)))


def compact(m, origin):
    i = m["input"]
    return {"origin": origin, "history": i["h"], "step": i["a"], "spec_reply": i["r"], "expected": m["expected"], "got": m["got"], "input": i}


def design_counterexample(r):
    """What TLC's model-level counterexample to RunningCounter looks like (never a verdict)."""
    steps = []
    for rec in re.findall(r"^/\\ act = \[([^\]]*)\]", r.out, re.M):
        kv = dict(x.strip().split(" |-> ") for x in rec.split(","))
        if kv.get("name") != '"init"':
            steps.append("%s(c=%s,p=%s,t=%s)%s" % (kv["name"].strip('"'), kv["c"], kv["p"], kv["t"],
                                                  (" " + kv["cls"].strip('"')) if kv["cls"] != '""' else ""))
    return {"violated": r.invariant_violated, "length": len(steps), "actions": steps}


def selftest_binding(binp, sample, sc):
    """§9: a flipped expectation must be rejected by the replayer."""
    bad = json.loads(json.dumps(sample))
    bad["post"]["cancelled"] = sorted(set(bad["post"]["cancelled"]) ^ {1})
    bad["post"]["ntok"] = max(bad["post"]["ntok"], 1)
    bad2 = json.loads(json.dumps(sample))
    bad2["post"]["nrun"] += 1
    bad2["post"]["nrunl"] += 1
    rep = run_cases(binp, [sample, bad, bad2], sc, "selftest.ndjson")
    cases = sorted(m["case"] for m in rep["mismatches"])
    if not {1, 2} <= set(cases):       # case 0 is the untouched sample (it fails only if the code is broken)
        raise lib.Inconclusive("binding self-test: corrupted expectations not rejected (mismatching cases %s)" % cases)


# ---------------------------------------------------------------- binding B (server traces)

def validate_trace(path):
    """TLC on Trace_ProcessList with the recorded log. Returns (accepted, stopped_at, expected) where
    stopped_at is the 1-based line of the first event that is not a step of the specification."""
    r = lib.tlc("Trace_ProcessList", "Trace_ProcessList.cfg", workers=1, timeout=900, heap="4g -XX:ParallelGCThreads=2",
                extra_files=[("c37_trace.ndjson", path)], extra_args=["-noGenerateSpecTE"])
    stopped = [int(x.split()[1]) for x in r.prints if x.startswith("STOPPED ")]
    mm = r.jsons("MM")
    if r.error and not stopped:
        raise lib.Inconclusive("trace validation: TLC error: %s\n%s" % (r.error, r.out[-2500:]))
    if not r.completed and not stopped:
        raise lib.Inconclusive("trace validation did not complete:\n%s" % r.out[-2500:])
    if stopped:
        return False, stopped[0], ([m for m in mm if m["l"] == stopped[0]] or [None])[0], r
    if r.invariant_violated or r.action_prop_violated or r.deadlock:
        raise lib.Inconclusive("trace validation: %s" % r.out[-2500:])
    return True, None, None, r


def record(binp, sc, name, seed, rounds):
    path = os.path.join(sc, name)
    rep = lib.run_report([binp, "-mode", "server", "-out", path, "-seed", str(seed), "-rounds", str(rounds)], timeout=900)
    return path, rep


def rejection(path, at, expected):
    ev = lib.read_ndjson(path)
    e = ev[at - 1]
    s = at - 1
    while s > 0 and ev[s]["name"] != "reset":
        s -= 1
    return {"signature": "trace/%s/%s" % (e["name"], "observation" if expected else "not-a-step"),
            "event": e, "line": at, "expected_by_spec": expected,
            "trace_since_reset": [{k: x[k] for k in ("name", "c", "p", "t", "r")} for x in ev[s:at]][-40:]}


def binding_b(binp, sc, tier, v):
    quick = tier == "quick"
    rounds = 3 if quick else 12
    path, rep = record(binp, sc, "trace.ndjson", lib.seed(), rounds)
    ev = lib.read_ndjson(path)
    if len(ev) < 20:
        raise lib.Inconclusive("server traces empty: %s" % json.dumps(rep["extra"]))
    futs = {}
    with ThreadPoolExecutor(max_workers=3) as ex:
        futs["trace"] = ex.submit(validate_trace, path)
        if not quick:
            # sensitivity (§9): a corrupted field and a dropped event must be rejected where they are
            i = next((k for k, e in enumerate(ev) if e["name"] == "Kill" and e["obs"]["cancelled"]), None)
            j = next((k for k, e in enumerate(ev) if e["name"] == "BeginQuery" and k > 20), None)
            if i is None or j is None:
                raise lib.Inconclusive("server traces too thin for the self-test: %s" % json.dumps(rep["extra"]))
            bad = json.loads(json.dumps(ev))
            bad[i]["obs"]["cancelled"] = []
            lib.write_ndjson(os.path.join(sc, "bad1.ndjson"), bad)
            lib.write_ndjson(os.path.join(sc, "bad2.ndjson"), ev[:j] + ev[j + 1:])
            futs["bad1"] = ex.submit(validate_trace, os.path.join(sc, "bad1.ndjson"))
            futs["bad2"] = ex.submit(validate_trace, os.path.join(sc, "bad2.ndjson"))
        ok, at, exp, r = futs["trace"].result()
        if not quick:
            b1, b2 = futs["bad1"].result(), futs["bad2"].result()
            if ok and (b1[0] or b1[1] != i + 1 or b2[0] or b2[1] not in (j + 1, j + 2)):
                raise lib.Inconclusive("trace self-test: corrupted traces not rejected where expected (%s at %s, wanted %d; %s at %s, wanted %d)"
                                       % (b1[0], b1[1], i + 1, b2[0], b2[1], j + 1))
    info = {"server_traces": rep["extra"]["traces"], "server_events": rep["cases"], "server_events_by_kind": rep["extra"]["by_event"],
            "server_kills_hitting_a_running_context": rep["nontrivial"], "server_scenario_outcomes": rep["extra"]["scenario_outcomes"],
            "server_trace_sample": rep["samples"][:1], "trace_validation_wall_s": round(r.wall, 1), "trace_accepted": ok}
    if not ok:
        first = rejection(path, at, exp)
        # reproduce: record again in a fresh server process and validate again
        path2, _ = record(binp, sc, "trace2.ndjson", lib.seed(), rounds)
        ok2, at2, exp2, _ = validate_trace(path2)
        if ok2:
            raise lib.Inconclusive("a recorded server trace was rejected but a second recording was accepted: %s" % json.dumps(first)[:3000])
        second = rejection(path2, at2, exp2)
        if second["signature"] != first["signature"]:
            raise lib.Inconclusive("server traces rejected in two different ways: %s / %s" % (first["signature"], second["signature"]))
        v.add(first["signature"], first)
        return info
    # accepted: it only counts if the traces were not vacuous
    if (rep["cases"] < 150 * rounds or rep["nontrivial"] < 1 or rep["extra"]["scenario_outcomes"].get("aborted")
            or min(rep["extra"]["by_event"].get(a, 0) for a in ACTIONS) < 3):
        raise lib.Inconclusive("server traces too thin: %s" % json.dumps(rep["extra"]))
    return info


def merge_counts(dicts):
    out = {}
    for d in dicts:
        for k, n in d.items():
            out[k] = out.get(k, 0) + n
    return out


def check(tier):
    t0 = time.time()
    quick = tier == "quick"
    binp = lib.build("c37")
    v = lib.Verdict("C37")
    dump_cfgs = ["ProcessList_dump.cfg"] if quick else ["ProcessList_big.cfg", "ProcessList_mid.cfg"]
    mc_cfg = "ProcessList_mc.cfg" if quick else "ProcessList_mcbig.cfg"
    nsim, depth = (300, 20) if quick else (4000, 30)
    w = max(2, min(4 if quick else 6, lib.NCPU // 2 - 1))
    gc = " -XX:ParallelGCThreads=4"     # several JVMs run side by side
    with lib.Scratch() as sc:
        with ThreadPoolExecutor(max_workers=4) as ex:
            f_dumps = [ex.submit(tlc_pipe, binp, "ProcessList", cfg, sc, w, 900 if quick else 5000, heap=("6g" if quick else "10g") + gc)
                       for cfg in dump_cfgs]
            f_mc = ex.submit(lib.tlc, "ProcessList", mc_cfg, workers=w, timeout=600 if quick else 5000,
                             coverage=not quick, heap=("6g" if quick else "12g") + gc, extra_args=["-noGenerateSpecTE"])
            f_sim = ex.submit(tlc_pipe, binp, "ProcessList", "ProcessList_sim.cfg", sc, 1, 900 if quick else 3000,
                              simulate="num=%d" % nsim, depth=depth, tlc_seed=lib.seed(), heap="2g" + gc)
            f_b = ex.submit(binding_b, binp, sc, tier, v)
            f_d1 = ex.submit(lib.tlc, "ProcessList", "ProcessList_design.cfg", workers=1, timeout=300, heap="1g" + gc, extra_args=["-noGenerateSpecTE"])
            f_d2 = ex.submit(lib.tlc, "ProcessList", "ProcessList_design2.cfg", workers=1, timeout=300, heap="1g" + gc, extra_args=["-noGenerateSpecTE"])
            dumps = [f.result() for f in f_dumps]
            rmc = f_mc.result()
            d1, d2 = f_d1.result(), f_d2.result()
            rs, srep = f_sim.result()
            try:
                binfo, b_trouble = f_b.result(), None
            except lib.Inconclusive as e:       # decided below: a reproduced violation of binding A outranks it
                binfo, b_trouble = {"server_traces": 0, "server_events": 0, "inconclusive": str(e)[:2000]}, e

        # ---- the model: invariants that must hold, exhaustively ------------------------------------
        for cfg, (r, rep) in zip(dump_cfgs, dumps):
            lib.tlc_ok(r, "ProcessList/" + cfg)
            if rep["cases"] != r.generated - 1:
                raise lib.Inconclusive("%s: dump incomplete: %d cases replayed, TLC generated %d transitions" % (cfg, rep["cases"], r.generated - 1))
        lib.tlc_ok(rmc, "ProcessList/" + mc_cfg)
        if rs.error or rs.invariant_violated or rs.action_prop_violated:
            raise lib.Inconclusive("simulate: %s\n%s" % (rs.error or rs.invariant_violated or rs.action_prop_violated, rs.out[-2000:]))
        if not quick:
            z = rmc.coverage_zero()
            if z:
                raise lib.Inconclusive("vacuous: actions never taken: %s" % z)
        # the design-level counterexamples (model only; they count through the replay below)
        design = []
        for d, cfg in ((d1, "ProcessList_design.cfg"), (d2, "ProcessList_design2.cfg")):
            if d.error:
                raise lib.Inconclusive("%s: %s" % (cfg, d.error))
            if [x for x in d.invariant_violated if x != "RunningCounter"] or d.action_prop_violated:
                raise lib.Inconclusive("%s: the model violates %s" % (cfg, d.invariant_violated + d.action_prop_violated))
            ce = design_counterexample(d)
            ce["cfg"] = cfg
            design.append(ce)

        # ---- vacuity guards -----------------------------------------------------------------------
        reps = [rep for _, rep in dumps]
        cases = sum(rep["cases"] for rep in reps)
        nontrivial = sum(rep["nontrivial"] for rep in reps)
        by_action = merge_counts(rep["extra"]["by_action"] for rep in reps)
        if cases < 20000 or nontrivial < 5000:
            raise lib.Inconclusive("too few transitions: %d (%d non-trivial)" % (cases, nontrivial))
        for a in ACTIONS:
            if by_action.get(a, 0) < 100 or srep["extra"]["by_action"].get(a, 0) < 5:
                raise lib.Inconclusive("vacuous: action %s replayed %d / %d times" % (a, by_action.get(a, 0), srep["extra"]["by_action"].get(a, 0)))
        if srep["extra"]["behaviours"] < nsim or srep["cases"] < nsim * (depth - 1):
            raise lib.Inconclusive("simulation too short: %d behaviours, %d steps" % (srep["extra"]["behaviours"], srep["cases"]))
        samples = [s for rep in reps for s in rep["samples"]]
        if not samples:
            raise lib.Inconclusive("no samples")
        selftest_binding(binp, next((s for s in samples if s["post"]["nrun"] == s["pre"]["nrun"] - 1 and s["a"]["cls"] == "normal"), samples[0]), sc)

        # ---- the real object: every disagreement is re-run alone in a fresh process first ----------
        origins = [("transition/" + cfg, rep) for cfg, rep in zip(dump_cfgs, reps)] + [("simulated", srep)]
        for k, (origin, rp) in enumerate(origins):
            confirm(binp, rp["mismatches"], sc, "confirm-%d.ndjson" % k)
            for m in rp["mismatches"]:
                v.add(m["signature"], compact(m, origin))
        occ = merge_counts(rp["extra"]["by_signature"] for _, rp in origins)
        for f in v.findings:
            if f["id"] not in v.known:
                lib.log("[C37] NOTE: known finding %s did not occur in this run (repaired in /repo? then mark it fixed)" % f["id"])
        ascoded = sum(rp["extra"]["ascoded_disagree"] for _, rp in origins)
        if ascoded:
            lib.log("[C37] NOTE: on %d steps the real Threads_running differs from the specification's as-coded counter `trun`"
                    " (informational: the verdict judges the counter against the ground truth only)" % ascoded)
        rc = v.finish()
        if b_trouble is not None:
            if rc != 1:
                raise b_trouble
            lib.log("[C37] binding B was inconclusive (the verdict comes from binding A): %s" % str(b_trouble)[:600])
        shortest = {}
        for rep in reps:
            for s, m in rep["extra"]["shortest"].items():
                if s not in shortest or len(m["input"]["h"]) < len(shortest[s]["history"]):
                    shortest[s] = {"history": m["input"]["h"], "step": m["input"]["a"], "got": m["got"], "expected": m["expected"]}
        mc = {cfg: {"distinct": r.distinct, "generated": r.generated, "depth": r.depth, "wall_s": round(r.wall, 1), "replayed": rep["cases"]}
              for cfg, (r, rep) in zip(dump_cfgs, dumps)}
        mc[mc_cfg] = {"distinct": rmc.distinct, "generated": rmc.generated, "depth": rmc.depth, "wall_s": round(rmc.wall, 1)}
        lib.write_evidence("C37", tier, "model_checking", {
            "states": sum(x["distinct"] for x in mc.values()), "transitions": sum(x["generated"] - 1 for x in mc.values()),
            "traces_validated_against_impl": cases + srep["cases"] + binfo["server_traces"],
            "samples": samples[:3],
            "exhaustive": True,
            "evaluations": cases + srep["cases"],
            "distinct_nontrivial": nontrivial,
            "rule": "one case = (history from the initial state, one more ProcessList call) replayed on a fresh real ProcessList; the transition dump of %s yields every transition of the bounded graph exactly once (TLC VIEW = model state), plus %d simulated behaviours of depth %d from ProcessList_sim.cfg (%d steps, %d distinct, %d non-trivial); non-trivial = the step changes the set of cancelled contexts or one of the two counters; distinct_nontrivial counts the exhaustive dump(s) only; binding B: %d recorded server traces (%d ProcessList calls) validated by Trace_ProcessList.tla" % (" and ".join(dump_cfgs), nsim, depth, srep["cases"], srep["extra"]["distinct"], srep["nontrivial"], binfo["server_traces"], binfo["server_events"]),
            "by_action": by_action, "by_action_simulated": srep["extra"]["by_action"],
            "max_history": max([rep["extra"]["max_history"] for rep in reps] + [srep["extra"]["max_history"]]),
            "model_checked": mc,
            "model_invariants": "TypeOK PidIndex ListShowsLive ConnectedCounter; action properties KillTargeted FreshNotCancelled OnlyKillCancelsCurrent KillHits",
            "design_counterexamples_model_only": design,
            "real_object_disagreements_by_signature": occ,
            "shortest_failing_history_by_signature": shortest,
            "ascoded_counter_disagreements": ascoded,
            "simulate_seed": lib.seed(),
            "binding_B": binfo,
        }, time.time() - t0, violations=len(v.violations),
            assumptions=["a connection executes one command at a time (no BeginQuery/ConnectionReady while its query is in flight; ConnectionReady may come during an operation, as in SessionManager.SetDB); binding B checks this against the real handler",
                         "EndQuery is called for every successful BeginQuery, possibly after RemoveConnection, and may be repeated for a query that already ended (the server calls it twice); EndOperation only before the connection id is re-added",
                         "query pids are fresh with respect to every query not yet ended, except for the deliberate collision with a listed pid (ErrPidAlreadyUsed path)",
                         "connection ids may be reused after RemoveConnection",
                         "Threads_running ground truth is the interval [running queries of live connections, all queries not yet ended]: whether a query whose connection is already removed still counts is left open",
                         "byQueryPid is read through reflect (read-only) because the type does not export it",
                         "progress-tracking methods (Add/Update/Remove*Progress) and interpreted contexts are not modelled"])
        return rc


def replay(path):
    """Re-run a recorded violation on the current /repo tree: a binding-A case is executed again; for a
    rejected server trace new traces are recorded and validated again."""
    rec = json.load(open(path))
    detail = rec["first"]["detail"]
    binp = lib.build("c37")
    with lib.Scratch() as sc:
        if "input" not in detail:
            v = lib.Verdict("C37")
            binding_b(binp, sc, "quick", v)
            sigs = [x["signature"] for x in v.violations]
            print("REPRODUCED %s" % sigs if sigs else "not reproduced (server traces accepted)")
            return 1 if sigs else 0
        rep = run_cases(binp, [detail["input"]], sc, "replay.ndjson")
    for m in rep["mismatches"]:
        print("REPRODUCED %s expected=%s got=%s" % (m["signature"], json.dumps(m["expected"]), json.dumps(m["got"])))
    if not rep["mismatches"]:
        print("not reproduced")
    return 1 if rep["mismatches"] else 0
