"""C10 — no SQL input crashes the engine.
Spec: spec/SessionProtocol.tla (a statement has outcome rows/ok/error and the session stays usable;
no action exists for panic, hang or process death).  Binding B: a parent process feeds generated and
mutated statement texts to a child process running the real engine; every recorded execution must be
an Exec step of the protocol (spec/Trace_Session.tla)."""
import json, os, time
import lib, sqlcommon as sc

PID = "C10"
META = {
    "property_id": PID,
    "level": "exploration",
    "technique": "TLA+ session-protocol spec (outcomes rows/ok/error only, session stays usable); TLC trace validation of recorded executions of seeded mutational statement generators run in a crash-isolating child process",
    "text": "Token soup from the parser's keyword table, every registered built-in function with random argument counts/types/boundary values, templates for every statement class with hostile operands, mutations of valid queries, deep nesting and charset/collation introducers are executed with a deadline; a recovered panic, a dead process or a statement that never returns has no transition in the specification and is rejected, as is a session that no longer answers SELECT 1.",
    "note": "The specification contributes only the protocol here (DESIGN.md 7 C10 says so); statements that block by design (SLEEP, GET_LOCK, BENCHMARK) or write files are excluded; string-multiplying arguments are capped to avoid memory bombs; trusted: the child/parent marker protocol.",
}


def validate(path):
    return sc.validate_trace(path, module="Trace_Session", chunk=2000, procs=4)


def check(tier):
    t0 = time.time()
    binp = lib.build("c10")
    v = lib.Verdict(PID)
    n = 3000 if tier == "quick" else 60000
    with lib.Scratch() as scd:
        # witnesses of recorded findings (open and fixed)
        nw = 0
        for f in lib.load_findings(PID):
            if not f.get("witness_file"):
                continue
            out = os.path.join(scd, "wit-%s.ndjson" % f["id"])
            lib.run_report([binp, "-in", os.path.join(lib.VERIF, f["witness_file"]), "-out", out], timeout=900)
            mms, _ = validate(out)
            evs = sc.load_events(out)
            for m in mms:
                e = evs[m["line"]]
                v.add("%s|%s|%s|witness|fn:%s" % (PID, e["outcome"], sc.msg_class(e["msg"]), e.get("fn", "")), {"sql": e["sql"], "outcome": e["outcome"], "msg": e["msg"]})
                nw += 1
        trace = os.path.join(scd, "trace.ndjson")
        gen = ["-seed", str(lib.seed()), "-n", str(n), "-systematic", "-sysfrac", "0.5" if tier == "quick" else "1"]
        rep = lib.run_report([binp] + gen + ["-out", trace], timeout=3000)
        mms, states = validate(trace)
        evs = sc.load_events(trace)
        bad = [evs[m["line"]] for m in mms]
        if bad:
            # isolation: each suspicious statement alone, in a fresh child, with a 10x deadline
            out = os.path.join(scd, "confirm.ndjson")
            lib.run_report([binp] + gen + ["-only", ",".join(str(e["id"]) for e in bad), "-out", out], timeout=3000)
            mm2, _ = validate(out)
            cevs = sc.load_events(out)
            again = {cevs[m["line"]]["id"]: cevs[m["line"]] for m in mm2}
            for e in bad:
                if e["id"] not in again:
                    if e["outcome"] == "hang":
                        lib.log("[C10] slow statement (returned within the 10x deadline alone): %s" % e["sql"][:200])
                        continue
                    raise lib.Inconclusive("outcome %s did not reproduce in isolation: %s" % (e["outcome"], e["sql"][:300]))
                a = again[e["id"]]
                v.add("%s|%s|%s|%s|fn:%s" % (PID, a["outcome"], sc.msg_class(a["msg"]), e["kind"], e.get("fn", "")),
                      {"sql": e["sql"], "outcome": a["outcome"], "probe": a["probe"], "msg": a["msg"][:1500], "id": e["id"], "seed": lib.seed()})
        rc = v.finish()
        lib.write_evidence(PID, tier, "exploration", {
            "evaluations": rep["cases"], "distinct_nontrivial": rep["nontrivial"],
            "rule": "every registered function x 33 hostile first arguments (arity 0, 1, 2) systematically, plus seeded generators: keyword soup, every built-in function x random arguments, statement templates, mutated valid queries, nesting; non-trivial = the statement was accepted by the engine (rows or ok) rather than rejected",
            "samples": rep["samples"], "outcomes": rep["extra"]["outcomes"], "generator_kinds": rep["extra"]["generator_kinds"],
            "states": states, "suspicious": len(bad), "witness_mismatches": nw,
        }, time.time() - t0, violations=len(v.violations))
        return rc


def replay(path):
    binp = lib.build("c10")
    d = json.load(open(path))
    sql = d["first"]["detail"]["sql"]
    with lib.Scratch() as scd:
        src = os.path.join(scd, "in.ndjson")
        lib.write_ndjson(src, [{"ev": "stmt", "id": 1, "kind": "replay", "sql": sql}])
        out = os.path.join(scd, "out.ndjson")
        lib.run_report([binp, "-in", src, "-out", out])
        mms, _ = validate(out)
        for m in mms:
            print("VIOLATION property=%s replay=%s" % (PID, path))
        return 1 if mms else 0
