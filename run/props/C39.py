"""C39 — privilege checks allow exactly what the grants permit.
Spec: spec/Privileges.tla (state, GRANT/REVOKE/role actions, Requirement from the MySQL manual,
Allowed = hierarchy global -> database -> table).  Binding: TLC-generated histories replayed as
real SQL by harness/cmd/priv on an engine with the privilege database enabled, stored state read
back after every step, a probe matrix (one statement of every privilege class per object as every
user) after every step; Trace_Privileges.tla judges every recorded outcome."""
import concurrent.futures, glob, os, random, time
import lib, privcommon as pc

META = {
    "property_id": "C39",
    "level": "model_checking",
    "technique": "TLA+ spec Privileges.tla model-checked by TLC (bounded exhaustive + simulated histories with invariants); TLC-generated grant/revoke/role histories and the exhaustive transition dump of a small vocabulary replayed as real SQL on an engine with the mysql privilege database enabled; stored access-control state and a probe matrix (every statement class x object x user) recorded after every step and validated by TLC against Trace_Privileges.tla (Allowed/Requirement)",
    "text": "TLC checks the privilege model (hierarchy monotone, revoke inverts grant, no orphan grants, denied statement has no effect, strict role activation within all-roles-active) on a bounded vocabulary, and generates histories of CREATE/DROP USER/ROLE, GRANT/REVOKE of privilege sets and ALL at global/database/table level, GRANT/REVOKE of the dynamic privileges REPLICATION_SLAVE_ADMIN / CLONE_ADMIN ON *.* (own grant-option flag each), GRANT/REVOKE role (WITH ADMIN OPTION), SET ROLE, SET DEFAULT ROLE and reconnects. Each history is executed by a super user on the real engine; after every step the engine's stored privilege sets and role edges are compared with the specification state and 37 statements per user (SELECT/INSERT/UPDATE/DELETE/DROP/ALTER/CREATE INDEX/GRANT per table, CREATE TABLE per database, CREATE USER, GRANT role, STOP REPLICA) are run in that user's own session, recording allow / access-denied / other error and whether the data projection is unchanged; the stored state is read back once more after the probes (running statements as the users must leave it alone); TLC decides every expected outcome from Allowed(user, Requirement(class, object)). Generation is stratified towards the state in which a session's privilege set merges two entries for one table (an account and a role granted to it both hold table-level privileges on the same table): a simulate configuration steered into it (Privileges_simov.cfg), and the dumped transitions the specification marks as leading into it are sampled as their own stratum (next to an equal share per action kind and a uniform sample). A second vocabulary with one user name at two hosts (u1@localhost, u1@%) checks that account-management statements act on exactly the account they name.",
    "note": "Requirement is written from the MySQL manual (statement pages), not from auth_default.go. Documented engine behaviours modelled as named operators: AllGrantedRolesActive (no SET ROLE; a probe allowed only through a role that SET ROLE NONE deactivated is reported as its own mismatch kind) and SuperAllowsEverything. Dynamic privileges as modelled in Privileges.tla (global only; GRANT ALL ON *.* is static-only as grant.go documents, where MySQL's ALL includes them; WITH GRANT OPTION on a dynamic grant also is the static global GRANT OPTION); STOP REPLICA counts as allowed when it ends in 'no replication controller available'. Not judged: column/routine privileges, who may GRANT a dynamic privilege, re-GRANT of a dynamic privilege without the option it is held with, GRANT/REVOKE of the static global GRANT OPTION while dynamic privileges are held, role-to-role grants, REVOKE ALL while GRANT OPTION is held at that level, re-GRANT of a role with a different ADMIN OPTION, sessions of dropped accounts (closed by the replayer). Probes use statements that read no column (UPDATE .. SET b = const, DELETE .. WHERE 1 = 1). Trusted: TLC, the SQL rendering and the reading of mysql_db's PrivilegeSet in harness/cmd/priv (about 150 lines).",
    "design_ref": "§7 C39, §3.3",
}

KINDS = ("ret", "state", "matrix-state", "probe", "nonactive-role", "effect")


def relevant(m):
    return m["kind"] in KINDS


def witnesses():
    """findings/C39-*.ndjson: minimal histories of the known findings, replayed every run."""
    trs = []
    for p in sorted(glob.glob(os.path.join(lib.VERIF, "findings", "C39-*.ndjson"))):
        if not os.path.basename(p).startswith("C39-exact-"):      # those use the account-name vocabulary
            trs += lib.read_ndjson(p)
    return trs


def check(tier):
    t0 = time.time()
    rnd = random.Random(lib.seed())
    binp = lib.build("priv")
    v = lib.Verdict("C39")
    quick = tier == "quick"
    with lib.Scratch() as sc, concurrent.futures.ThreadPoolExecutor(max_workers=4) as pool:
        # 1. in the background: the model itself (bounded exhaustive, invariants + action properties)
        #    and the exhaustive transition dump of the small vocabulary
        mc_cfg = "Privileges_mc.cfg" if quick else "Privileges_mc4.cfg"
        mc = pool.submit(lib.tlc, "Privileges", mc_cfg, workers=3 if quick else 6, timeout=1500 if quick else 7200,
                         coverage=not quick, heap="6g")
        # thorough: the dynamic privileges (both, own flags) exhaustively in their own small vocabulary
        mcd = None if quick else pool.submit(lib.tlc, "Privileges", "Privileges_mcdyn.cfg", workers=3, timeout=7200, coverage=True, heap="6g")
        dump = pool.submit(lib.dump_transitions, "Privileges", "Privileges_dump.cfg", os.path.join(sc, "dump.ndjson"),
                           workers=2 if quick else 4, timeout=1500)
        # 1a. histories steered into the state where a session's privilege set merges two entries for ONE table
        #     (an account and a role granted to it both hold table-level privileges there)
        nov, dov = (12, 6) if quick else (120, 8)
        ovsim = pool.submit(pc.simulate, "Privileges_simov.cfg", nov, dov, lib.seed() + 500)
        #     and every transition out of the states with such an overlap (role granted to the user or not yet)
        ovdump = pool.submit(lib.dump_transitions, "Privileges", "Privileges_dumpov.cfg", os.path.join(sc, "dumpov.ndjson"),
                             workers=2, timeout=900)
        # 2. simulated histories of the bounded vocabulary, probe matrix after every step
        sim_cfg, nsim, depth = ("Privileges_simq.cfg", 30, 8) if quick else ("Privileges_sim.cfg", 300, 12)
        rs, strs = pc.simulate(sim_cfg, nsim, depth, lib.seed())
        lib.log("[C39] simulate: %d steps %.0fs" % (len(strs), time.time() - t0))
        b = pc.Batch(binp, sc, "c39")
        srep = b.add("sim", strs, pc.FULL, matrix="every")
        lib.log("[C39] replay sim: %s %.0fs" % (srep["extra"], time.time() - t0))
        # 3. transitions of the small vocabulary (sampled in quick): materialise pre, one step, matrix
        rd, dtrs = dump.result()
        if len(dtrs) < 2000:
            raise lib.Inconclusive("too few transitions dumped: %d" % len(dtrs))
        # stratified: an equal share of every action kind and a uniform sample of the rest, plus the
        # transitions around the table overlap (Privileges_dumpov.cfg; strata = action kind x the specification's
        # mark of the pre / post state; where pre is marked the replayer runs a probe matrix BEFORE the step too)
        ndump = 170 if quick else 3000
        by_act = {}
        for t in dtrs:
            by_act.setdefault(t["act"]["name"], []).append(t)
        dsel = []
        for name in sorted(by_act):
            dsel += lib.sample(by_act[name], max(1, (3 * ndump // 10) // len(by_act)), rnd)
        dsel += lib.sample(dtrs, ndump - len(dsel), rnd)
        rov, ovtrs = ovdump.result()
        strata = {}
        for t in ovtrs:
            strata.setdefault((t["act"]["name"], t["ov"]["pre"], t["ov"]["post"]), []).append(t)
        nov_tr = 40 if quick else 1500
        osel = []
        for k in sorted(strata):
            osel += lib.sample(strata[k], -(-nov_tr // len(strata)), rnd)
        if len(ovtrs) < 1000 or len(strata) < 10:
            raise lib.Inconclusive("too few transitions around the table overlap: %d in %d strata" % (len(ovtrs), len(strata)))
        dsel += osel
        drep = b.add("dump", dsel, pc.SMALL, rmode="transitions", matrix="every")
        lib.log("[C39] replay dump: %s %.0fs" % (drep["extra"], time.time() - t0))
        ro, otrs = ovsim.result()
        orep = b.add("overlap", otrs, pc.FULL, matrix="every")
        lib.log("[C39] replay overlap: %s %.0fs" % (orep["extra"], time.time() - t0))
        # 3a. thorough: a larger vocabulary (3 users, 2 roles)
        if not quick:
            rb, btrs = pc.simulate("Privileges_simbig.cfg", 150, 12, lib.seed() + 1000)
            brep = b.add("big", btrs, pc.BIG, matrix="every")
            lib.log("[C39] replay big: %s %.0fs" % (brep["extra"], time.time() - t0))
        # 3b. account names are exact: the same user name at two hosts, stored state after every step
        re_, etrs = pc.simulate("Privileges_exact.cfg", 30 if quick else 600, 8 if quick else 12, lib.seed())
        erep = b.add("exact", etrs, pc.EXACT, matrix="none")
        lib.log("[C39] replay exact: %s %.0fs" % (erep["extra"], time.time() - t0))
        # 4. witnesses of the known findings
        wtrs = witnesses()
        if wtrs:
            b.add("witness", wtrs, pc.FULL, matrix="every")
        xtrs = lib.read_ndjson(os.path.join(lib.VERIF, "findings", "C39-exact-account-statements-use-connection-matching.ndjson"))
        b.add("exact", xtrs, pc.EXACT, matrix="none")
        mms, sts, und = b.validate()
        lib.log("[C39] validated %d lines: %d MM %.0fs" % (len(b.events), len(mms), time.time() - t0))
        sigs = pc.judge("C39", v, b, mms, relevant, per_sig=1 if quick else 2)
        missing = [f["id"] for f in v.findings if f["id"] not in v.known]
        if missing:
            lib.log("[C39] note: known finding(s) %s did not show this run (fixed?)" % missing)
        forged = pc.forged_selftest(b, mms) if not quick else None
        # 5. the model run
        r = mc.result()
        lib.tlc_ok(r, "Privileges/" + mc_cfg)
        rdyn = None
        if not quick:
            z = [a for a in r.coverage_zero() if a != "DynStep"]      # (no dynamic privileges in mc4: they are in mcdyn)
            if z:
                raise lib.Inconclusive("vacuous: actions never taken in %s: %s" % (mc_cfg, z))
            rdyn = mcd.result()
            lib.tlc_ok(rdyn, "Privileges/Privileges_mcdyn.cfg")
            if rdyn.coverage_zero():
                raise lib.Inconclusive("vacuous: actions never taken in Privileges_mcdyn.cfg: %s" % rdyn.coverage_zero())
        rows = sum(s["rows"] for s in sts)
        allowed = sum(s["allowed"] for s in sts)
        nontrivial = srep["nontrivial"] + drep["nontrivial"]
        if rows < 5000 or allowed < rows // 50 or nontrivial < 50:
            raise lib.Inconclusive("vacuous: %d probe rows, %d expected-allowed, %d user-distinguishing probes" % (rows, allowed, nontrivial))
        overlap_steps = orep["extra"]["steps_into_table_overlap"] + srep["extra"]["steps_into_table_overlap"]
        overlap_trans = sum(1 for t in osel if t["ov"]["pre"] or t["ov"]["post"])
        if overlap_steps < 3 or overlap_trans < 10:
            raise lib.Inconclusive("vacuous: %d simulated steps and %d replayed transitions with an account and its role holding table privileges on one table" % (overlap_steps, overlap_trans))
        rc = v.finish()
        lib.write_evidence("C39", tier, "model_checking", {
            "states": r.distinct, "transitions": r.generated,
            "traces_validated_against_impl": len(b.hist),
            "samples": [{"history": [t["act"] for t in pc.histories(strs, "behaviours")[0]]},
                        {"transition": {"pre": dsel[0]["pre"], "act": dsel[0]["act"]}}],
            "evaluations": rows,
            "distinct_nontrivial": nontrivial,
            "rule": "evaluations = probe outcomes judged by TLC against Allowed (expected allow: %d); non-trivial = a probe (class, object) of one matrix whose outcome differs between at least two users" % allowed,
            "model_check_dynamic_privileges": None if rdyn is None else {"config": "Privileges_mcdyn.cfg", "states": rdyn.distinct, "transitions": rdyn.generated, "depth": rdyn.depth, "tlc_wall_s": round(rdyn.wall, 1)},
            "model_check": {"config": mc_cfg, "depth": r.depth, "tlc_wall_s": round(r.wall, 1)},
            "simulated": {"config": sim_cfg, "histories": srep["extra"]["histories"], "depth": depth,
                          "steps": srep["cases"], "matrices": srep["extra"]["matrices"], "by_action": srep["extra"]["by_action"]},
            "account_name_exactness": {"config": "Privileges_exact.cfg", "histories": erep["extra"]["histories"], "steps": erep["cases"],
                                       "by_action": erep["extra"]["by_action"]},
            "transition_dump": {"config": "Privileges_dump.cfg", "states": rd.distinct, "transitions": len(dtrs),
                                "replayed": len(dsel), "by_action": drep["extra"]["by_action"],
                                "around_table_overlap": {"config": "Privileges_dumpov.cfg", "transitions": len(ovtrs), "strata": len(strata),
                                                         "replayed": len(osel), "of_them_from_or_into_overlap": overlap_trans}},
            "table_overlap_histories": {"config": "Privileges_simov.cfg", "histories": orep["extra"]["histories"], "depth": dov,
                                        "steps": orep["cases"], "steps_in_table_overlap": orep["extra"]["steps_into_table_overlap"],
                                        "by_action": orep["extra"]["by_action"]},
            "trace_lines_validated": len(b.events), "trace_tlc_wall_s": round(b.tlc_wall, 1),
            "mismatch_signatures": sigs, "forged_trace_selftest": forged,
        }, time.time() - t0, violations=len(v.violations),
            assumptions=["every granted role is active (documented go-mysql-server behaviour; SET ROLE histories are judged against it and the strict reading separately)",
                         "a holder of global SUPER passes every privilege check (documented engine behaviour)",
                         "statement requirements as in the MySQL 8.0 reference manual; probes read no column"])
        return rc
