"""C51 — MATCH ... AGAINST in natural-language mode returns exactly the rows sharing a word with the
search string, and the FULLTEXT index stays consistent across DML histories.
Spec: spec/FullText.tla (tokenizer state machine, Words, Match, MatchIds), spec/MC_FullText.tla
(exhaustive tokenizer sanity on strings of <= 6 characters), spec/MC_FullTextCases.tla (cases for
binding A), spec/Trace_FullText.tla (binding B: recorded DML histories judged after every step)."""
import json, os, threading, time, collections
import lib, sqlcommon as sc

PID = "C51"
META = {
    "property_id": PID,
    "level": "model_checking",
    "technique": "TLA+ spec FullText.tla (three-state tokenizer over character classes, minimum word length, collation folding, Match = shared word); tokenizer facts model-checked exhaustively by TLC; TLC-built tables/queries with expected row ids executed on the engine (binding A); seeded DML histories on a FULLTEXT table with an index-free twin validated by TLC after every step (binding B)",
    "text": "The index has no abstract state: after every statement of a history (INSERT, multi-row INSERT, INSERT under a previously deleted key, failing INSERT, INSERT IGNORE, UPDATE of either indexed column / of many rows / of the primary key, DELETE, REPLACE, ON DUPLICATE KEY UPDATE, TRUNCATE, DROP + ADD of the index; single-column FULLTEXT(a) and FULLTEXT(a, b); utf8mb4_0900_ai_ci and utf8mb4_bin) the ids returned by WHERE MATCH(..) AGAINST(q) (index-driven plan) and by WHERE MATCH(..) AGAINST(q) > 0 (row-by-row evaluation) must be exactly, and once each, the ids of the current rows whose document shares a word with q under the specification's tokenizer (words of 3..84 characters; the vocabulary contains words of 2, 3, 4, 83, 84 and 85 characters) and collation; the FULLTEXT table must hold the same rows as its twin. TLC also enumerates every string of <= 6 characters over {a, b, ', space, _, 1, A} and checks the tokenizer facts (well-formed words, idempotence, apostrophe rules).",
    "note": "ASCII documents only (byte length = character count); nothing generated is on MySQL's stopword list (the engine has no stopwords); relevance values and their order are not compared; boolean mode and query expansion are outside the property; trusted: TLC, the SQL rendering and integer-list comparison in harness/cmd/c51.",
    "design_ref": "§7 C51",
}

SIZES = {"quick": dict(ncases=150, nhist=40, steps=25, chunk=170),
         "thorough": dict(ncases=1000, nhist=300, steps=30, chunk=1500)}


def text(cps):
    return "".join(chr(c) for c in cps)


def docs(rows):
    return [[r["id"]] + [None if c["n"] else text(c["v"]) for c in r["cols"]] for r in rows]


# ------------------------------------------------------------------ binding B helpers

def judge_trace(path, chunk):
    """TLC validation of a step trace. Returns {(hid, k): (mismatch, event)} and the number of states."""
    mms, states = sc.validate_trace(path, module="Trace_FullText", chunk=chunk, procs=min(6, max(2, lib.NCPU // 2)))
    evs = sc.load_events(path)
    return {(m["hid"], m["k"]): (m, evs[m["line"]]) for m in mms}, states


def problems(m):
    """(duplicate-only problems, other problems) of one mismatching step as sorted 'what:kind' lists."""
    dup = sorted({"%s:%s" % (b["what"], b["kind"]) for b in m["bad"] if b["kind"] == "duplicate"})
    other = sorted({"%s:%s" % (b["what"], b["kind"]) for b in m["bad"] if b["kind"] != "duplicate"})
    return dup, other


def first_real(by):
    """Per history the first step with a problem other than a duplicated id (later steps of that
    history see an index that is already inconsistent and are consequences)."""
    first = {}
    for (hid, k), (m, e) in sorted(by.items()):
        if problems(m)[1] and hid not in first:
            first[hid] = k
    return first


def step_detail(m, e, history=None):
    qs = []
    for b in sorted(m["bad"], key=lambda b: (b["q"], b["what"])):
        if b["q"] == 0:
            qs.append({"what": "twin", "ft_rows": docs(e["rows"]), "twin_rows": docs(e["twin"]), "res": e["res"], "twres": e["twres"]})
            continue
        q = e["qs"][b["q"] - 1]
        qs.append({"what": b["what"], "kind": b["kind"], "query": text(q["q"]), "got": q[b["what"]],
                   "error": q["werr"] if b["what"] == "where" else q["serr"], "expected_ids": sorted(m["exp"][b["q"] - 1])})
    d = {"history": e["hid"], "step": e["k"], "sql": e["sql"], "op": e["op"], "collation": e["coll"], "multi_column": e["multi"],
         "rows_after_step": docs(e["rows"]), "disagreements": qs[:8], "seed": lib.seed()}
    if history:
        d["statements"] = history
    return d


def sig_b(kinds, e):
    return "C51|B|%s|op=%s|dirty=%s|coll=%s|multi=%s" % ("+".join(kinds), e["op"], e["dirty"] or "none", e["coll"], str(e["multi"]).lower())


def add_history_verdicts(by, evs_by_hist, v, source):
    """Signatures of a judged trace: every duplicate-only problem, and per history the first real one."""
    n = 0
    first = first_real(by)
    for (hid, k), (m, e) in sorted(by.items()):
        dup, other = problems(m)
        stmts = ["%s  -- %s" % (x["sql"], x["res"]) for x in evs_by_hist.get(hid, []) if x["k"] <= k]
        if dup and (hid not in first or k < first[hid]):
            v.add(sig_b(dup, e), dict(step_detail(m, e, stmts), source=source))
            n += 1
        if other and first.get(hid) == k:
            v.add(sig_b(other, e), dict(step_detail(m, e, stmts), source=source))
            n += 1
    return n


def by_hist(path):
    res = collections.defaultdict(list)
    for e in sc.load_events(path).values():
        res[e["hid"]].append(e)
    return res


def binding_selftest(binp, scd, cases):
    """DESIGN 9: flipping one expected id set of a binding A case must be reported by the driver, and
    removing one returned id from a recorded step must be rejected by Trace_FullText."""
    good = [c for c in cases if any(q["exp"] for q in c["qs"])][:1]
    if not good:
        raise lib.Inconclusive("binding self-test: no case with a non-empty expectation")
    c = json.loads(json.dumps(good[0]))
    for q in c["qs"]:
        if q["exp"]:
            q["exp"] = q["exp"][1:]
            break
    p = os.path.join(scd, "selftest-case.ndjson")
    lib.write_ndjson(p, [c])
    if not lib.run_report([binp, "-mode", "cases", "-in", p])["mismatches"]:
        raise lib.Inconclusive("binding self-test: a flipped expectation was not reported by the driver")
    wp = os.path.join(scd, "selftest-script.ndjson")
    lib.write_ndjson(wp, [{"hid": 1, "coll": "bin", "multi": False, "queries": ["abc"],
                           "stmts": [{"op": "insert", "sql": "INSERT INTO %T (id, a, b) VALUES (1, 'abc', NULL)"}]}])
    wt = os.path.join(scd, "selftest-trace.ndjson")
    lib.run_report([binp, "-mode", "script", "-in", wp, "-out", wt])
    by, _ = judge_trace(wt, 10)
    if by:
        raise lib.Inconclusive("binding self-test: a plain one-row history is rejected: %s" % by)
    ev = lib.read_ndjson(wt)[0]
    ev["qs"][0]["where"] = []
    lib.write_ndjson(wt, [ev])
    by, _ = judge_trace(wt, 10)
    if not by:
        raise lib.Inconclusive("binding self-test: a corrupted trace was accepted by Trace_FullText")


def check(tier):
    t0 = time.time()
    sz = SIZES[tier]
    binp = lib.build("c51")
    v = lib.Verdict(PID)
    with lib.Scratch() as scd:
        box = {}

        def mc():
            try:
                box["r"] = lib.tlc("MC_FullText", "MC_FullText.cfg", workers=min(8, lib.NCPU), timeout=3000, heap="4g")
            except Exception as e:
                box["e"] = e
        th = threading.Thread(target=mc)
        th.start()
        try:
            # ---- binding A: TLC-built cases with expected ids
            rs = lib.tlc("MC_FullTextCases", "MC_FullTextCases.cfg", workers=1, timeout=1500, simulate="num=%d" % sz["ncases"],
                         depth=3, tlc_seed=lib.seed(), heap="2g")
            if rs.error or rs.invariant_violated:
                raise lib.Inconclusive("MC_FullTextCases: %s\n%s" % (rs.error or rs.invariant_violated, rs.out[-2000:]))
            cases = rs.jsons("CASE")
            if len(cases) < sz["ncases"] * 0.9:
                raise lib.Inconclusive("MC_FullTextCases emitted only %d cases" % len(cases))
            cpath = os.path.join(scd, "cases.ndjson")
            lib.write_ndjson(cpath, cases)
            repa = lib.run_report([binp, "-mode", "cases", "-in", cpath], timeout=1500)
            if repa["mismatches"]:
                idx = sorted({m["case"] for m in repa["mismatches"]})
                again = lib.run_report([binp, "-mode", "cases", "-in", cpath, "-only", ",".join(map(str, idx))], timeout=1500)
                got = {(m["case"], m["input"]["query"], m["signature"]) for m in again["mismatches"]}
                for m in repa["mismatches"]:
                    if (m["case"], m["input"]["query"], m["signature"]) not in got:
                        raise lib.Inconclusive("binding A disagreement did not reproduce in a fresh process: %s" % m["input"]["sql"])
                    c = m["input"]["case"]
                    q = c["qs"][m["input"]["query"]]
                    v.add(m["signature"], {"sql": m["input"]["sql"], "docs": docs(c["rows"]), "query": text(q["q"]),
                                           "query_words": [text(w) for w in q.get("words", [])], "expected_ids": m["expected"], "got": m["got"],
                                           "collation": c["coll"], "multi_column": c["multi"], "case": c, "seed": lib.seed()})
            if tier == "thorough":
                binding_selftest(binp, scd, cases)
            lib.log("[C51] binding A: %d cases, %d queries, %d disagreements, %.1fs" % (repa["cases"], repa["extra"]["queries"], len(repa["mismatches"]), time.time() - t0))

            # ---- witnesses of the findings (recorded histories), judged with the binding B trace below
            fs = [f for f in lib.load_findings(PID) if f.get("witness_file")]
            owner = {}
            wt = os.path.join(scd, "witness-trace.ndjson")
            open(wt, "w").close()
            if fs:
                wp = os.path.join(scd, "witness-in.ndjson")
                with open(wp, "w") as out:
                    for k, f in enumerate(fs):
                        for i, line in enumerate(lib.read_ndjson(os.path.join(lib.VERIF, f["witness_file"]))):
                            line["hid"] = 9000 + 10 * k + i
                            owner[line["hid"]] = f
                            out.write(json.dumps(line) + "\n")
                lib.run_report([binp, "-mode", "script", "-in", wp, "-out", wt])

            # ---- binding B: seeded DML histories
            trace = os.path.join(scd, "trace.ndjson")
            gen = ["-mode", "hist", "-seed", str(lib.seed()), "-n", str(sz["nhist"]), "-steps", str(sz["steps"])]
            repb = lib.run_report([binp] + gen + ["-out", trace], timeout=3000)
            both = os.path.join(scd, "trace-all.ndjson")
            with open(both, "w") as out:
                out.write(open(trace).read() + open(wt).read())
            by, states = judge_trace(both, sz["chunk"])
            wby = {key: x for key, x in by.items() if key[0] in owner}
            by = {key: x for key, x in by.items() if key[0] not in owner}
            nw = add_history_verdicts(wby, by_hist(wt), v, "witness")
            for hid, f in owner.items():
                if hid not in {h for (h, k) in wby} and f.get("status", "open") == "open":
                    lib.log("[C51] NOTE: a witness of finding %s no longer fails (defect repaired?)" % f["id"])
            lib.log("[C51] binding B: %d steps, %d steps disagree, %.1fs" % (repb["cases"], len(by), time.time() - t0))
            nb = 0
            if by:
                hids = sorted({hid for (hid, k) in by})
                ctrace = os.path.join(scd, "confirm.ndjson")
                lib.run_report([binp] + gen + ["-only", ",".join(map(str, hids)), "-out", ctrace], timeout=3000)
                cby, _ = judge_trace(ctrace, sz["chunk"])
                first, cfirst = first_real(by), first_real(cby)
                for key, (m, e) in by.items():
                    dup, other = problems(m)
                    relevant = (other and first.get(key[0]) == key[1]) or (dup and (key[0] not in first or key[1] < first[key[0]]))
                    if relevant and (key not in cby or problems(cby[key][0]) != (dup, other)):
                        raise lib.Inconclusive("binding B disagreement did not reproduce in a fresh process: history %d step %d %s" % (key[0], key[1], e["sql"]))
                if first != cfirst:
                    raise lib.Inconclusive("first disagreeing steps differ between the run and its repetition")
                nb = add_history_verdicts(cby, by_hist(ctrace), v, "history seed %d" % lib.seed())
        finally:
            th.join()
        if "e" in box:
            raise box["e"]
        r = lib.tlc_ok(box["r"], "MC_FullText")
        if r.distinct < 100000:
            raise lib.Inconclusive("tokenizer enumeration too small: %d" % r.distinct)
        ops = repb["extra"]["ops"]
        need = ["insert", "insert-reuse", "update-a", "update-b", "delete", "replace-new", "replace-hit", "upsert-hit", "truncate", "drop-index", "add-index", "update-id", "insert-dup"]
        if tier == "thorough":
            missing = [o for o in need if not ops.get(o)]
            if missing:
                raise lib.Inconclusive("vacuous: operations never generated: %s" % missing)
        if repa["nontrivial"] < repa["extra"]["queries"] // 10 or repb["nontrivial"] < repb["cases"]:
            raise lib.Inconclusive("too few selective queries: A %d, B %d" % (repa["nontrivial"], repb["nontrivial"]))
        rc = v.finish()
        lib.write_evidence(PID, tier, "model_checking", {
            "states": r.distinct, "transitions": r.generated,
            "traces_validated_against_impl": repb["cases"] + repa["cases"],
            "samples": (repa["samples"][:2] + repb["samples"][:1]) or ["none"],
            "evaluations": repa["extra"]["queries"] * 2 + repb["cases"] * 16,
            "distinct_nontrivial": repa["nontrivial"] + repb["nontrivial"],
            "rule": "model: every string of <= 6 characters over {a b ' space _ 1 A} satisfies TokenizerSane (exhaustive, %d states); binding A: %d TLC-built tables (2-5 documents of <= 3 vocabulary words x 8 separators, or raw strings; 1 or 2 indexed columns; ci/bin) x 4 queries x 2 query forms compared with TLC's MatchIds; binding B: %d seeded histories x %d statements, after each statement 8 query strings (two of them made of the 83/84/85-character boundary words) x 2 query forms validated by TLC against the current rows; non-trivial = a query selecting some but not all rows (counted per executed query)" % (r.distinct, repa["cases"], sz["nhist"], sz["steps"]),
            "binding_a_cases": repa["cases"], "binding_a_queries": repa["extra"]["queries"], "binding_a_disagreements": len(repa["mismatches"]),
            "binding_a_plans": repa["extra"].get("plans"),
            "binding_b_steps": repb["cases"], "binding_b_ops": ops, "binding_b_steps_disagreeing": len(by), "binding_b_reported": nb,
            "witness_disagreements": nw, "trace_states": states, "tlc_model_wall_s": round(r.wall, 1),
        }, time.time() - t0, violations=len(v.violations),
            assumptions=["documents and queries are ASCII; the vocabulary avoids MySQL's stopword list",
                         "SELECT id, a, b FROM ft (full scan) shows the current rows of the FULLTEXT table; it is also compared with the index-free twin"])
        return rc


def replay(path):
    d = json.load(open(path))["first"]["detail"]
    binp = lib.build("c51")
    with lib.Scratch() as scd:
        if "case" in d:
            p = os.path.join(scd, "case.ndjson")
            lib.write_ndjson(p, [d["case"]])
            rep = lib.run_report([binp, "-mode", "cases", "-in", p])
            for m in rep["mismatches"]:
                print("VIOLATION property=%s replay=%s" % (PID, path))
                print(json.dumps({"sql": m["input"]["sql"], "expected": m["expected"], "got": m["got"]}))
            return 1 if rep["mismatches"] else 0
        tr = os.path.join(scd, "t.ndjson")
        lib.run_report([binp, "-mode", "hist", "-seed", str(d["seed"]), "-n", str(d["history"]), "-steps", "30", "-only", str(d["history"]), "-out", tr])
        by, _ = judge_trace(tr, 1000)
        for (hid, k), (m, e) in sorted(by.items()):
            print("VIOLATION property=%s replay=%s" % (PID, path))
            print(json.dumps(step_detail(m, e))[:2000])
        return 1 if by else 0
