"""C14 — primary and unique keys are enforced exactly.
Spec: spec/SQLTables.tla (PKUnique, UniqueIdx: keys compared under the column collation and prefix
length, NULLs exempt; which statements must fail / skip / replace / update on a collision).
Projection: ok / duplicate-failure of every statement (error class, never the message) and the key
invariants PKUniqueT / UniqueIdxT evaluated by TLC on the LOGGED tables after every statement.
For INSERT IGNORE / REPLACE / ON DUPLICATE KEY UPDATE on a keyed table the table contents are part of
the projection too (a row skipped / replaced / updated without a key collision, or not although there
is one), unless a key invariant already reports the statement.
Histories are key-collision heavy: composite keys, case variants under _ai_ci and _bin, prefix
keys, NULLs in unique columns, multi-row statements colliding inside the statement, key-swapping
updates, REPLACE / ON DUPLICATE KEY UPDATE hitting several keys.  Prefix keys: 45 % of the tables
carry UNIQUE KEY (c(n)), n = 2..4 (alone or behind an INT column), whose column is fed from a family
of strings around n: proper prefixes shorter than n, the string of length n, longer strings that
differ only behind position n, strings that differ inside the prefix, '' (dmlgen.prefixPool), by
INSERT / INSERT IGNORE / REPLACE / ON DUPLICATE KEY UPDATE / UPDATE alike.  The bounded models
MC_Tables "prefix" (UNIQUE (c2(2))) and "prefixpk" (PRIMARY KEY (c1(2)), model only: the engine
refuses a prefix length in a PRIMARY KEY) check the key invariants of the specification itself."""
import dmlcommon as dc

PID = "C14"
META = {
    "property_id": PID,
    "level": "model_checking",
    "technique": "TLA+ table/statement spec SQLTables.tla: invariants PKUnique/UniqueIdx model-checked on bounded exhaustive models; TLC evaluates the same invariants on the tables logged from the real engine after every statement and decides for every statement whether ok / duplicate-key failure is an allowed outcome",
    "text": "No logged table state contains two rows with equal primary-key values or equal non-NULL values in a unique index (compared under the columns' collations and prefix lengths); a statement fails as a duplicate (or skips / replaces / updates under IGNORE / REPLACE / ON DUPLICATE KEY UPDATE) exactly when the specification says a key collision occurs.",
    "note": "Error texts are not compared. UPDATE without ORDER BY may legitimately fail on a transient collision: both outcomes are allowed there. Prefix lengths are exercised on unique keys only: the engine refuses PRIMARY KEY (c(n)) ('prefix index on string column unsupported'), so that vocabulary of the specification (pkplen) is model-checked but not bound to the engine.",
}

RULE = ("seeded random schemas (composite / single / no primary key over INT and VARCHAR under _bin and _ai_ci; unique keys incl. multi-column and "
        "prefix keys (c(n)), n = 1..4, fed with values shorter than / as long as / longer than n that share prefixes) "
        "x key-collision-heavy histories of 10-40 statements; ok/dup-failure, the skip/replace/update effect of IGNORE / REPLACE / ODKU and the key invariants on the logged tables decided by TLC.")


def count(evs):
    n = sum(1 for e in evs if e["ev"] == "stmt" and ("uniq" in e.get("tags", []) or "pkN" in e.get("tags", []) or "pk1" in e.get("tags", [])))
    pre = [e for e in evs if e["ev"] == "stmt" and "prefix" in e.get("tags", [])]
    return {"statements_on_keyed_tables": n, "statements_on_prefix_key_tables": len(pre),
            "changed_on_prefix_key_tables": sum(1 for e in pre if e["reply"]["kind"] == "ok" and e["reply"]["affected"] > 0),
            "dup_on_prefix_key_tables": sum(1 for e in pre if e["reply"].get("class") == "dup")}


def check(tier):
    return dc.check(PID, tier, "c14", ["MC_Tables_keys_q.cfg", "MC_Tables_prefix_q.cfg"],
                    ["MC_Tables_keys_t.cfg", "MC_Tables_both_t.cfg", "MC_Tables_prefix_t.cfg", "MC_Tables_prefixpk_t.cfg"], "MC_Tables_keys_dump.cfg",
                    floors={"statements": 300, "changed": 100, "err:dup": 40, "ok:": 150, "statements_on_prefix_key_tables": 100}, rule=RULE, count=count)


def replay(path):
    return dc.replay(PID, path)
