"""C29 — collation comparison is a total preorder coherent with hashing.
Spec: spec/Collation.tla (laws over a logged comparison matrix, weight strings and hashes; code-point order,
ASCII case folding, the utf8mb4_0900_ai_ci order on [0-9A-Za-z ], the PAD attribute; SQL operators agree),
spec/Trace_Collation.tla (one recorded line per collation).
Binding B: harness/cmd/c29 iterates EVERY collation the engine implements (those with a sort function), builds
a string set from characters the collation's character set can encode, records StringType.Compare for all
pairs, WriteWeightString / HashToUint per string and a = b, a < b, a LIKE b, a IN (b) over a VARCHAR column of
the collation; TLC judges every line."""
import json, os, time
import lib, fncommon as fc

PID = "C29"
META = {
    "property_id": PID,
    "level": "exploration",
    "technique": "TLA+ laws (Collation.tla) evaluated by TLC on recorded observations of every implemented collation (trace validation, Trace_Collation.tla): comparison matrix, weight strings, hashes and SQL operator results of a sampled string set per collation",
    "text": "For every collation with a sort function and a string set of about 30 strings (all strings of length <= 2 over {a, A, space, one non-ASCII character of the character set}, single characters b B e 0 z and accented / Cyrillic letters, seeded random longer strings with a case variant and a space-padded variant): StringType.Compare is a total preorder (reflexive, sign-antisymmetric, transitive including ties); two strings compare equal exactly when their weight strings are equal and exactly when their hashes are equal; _bin collations order by code point; _ci collations equate strings that differ only in ASCII letter case; utf8mb4_0900_ai_ci orders [0-9A-Za-z ] like the specification's ci order; trailing spaces are ignored iff the collation's metadata says PAD SPACE; and a = b, a < b, a LIKE b (no wildcards) and a IN (b) over a VARCHAR column of the collation agree with the matrix.",
    "note": "Sampled strings only: the exhaustive per-code-point sweep of the weight tables is not claimed (DESIGN 7 C29); collations without a sort function are counted and skipped; _bin collations of non-Unicode character sets other than ascii / latin1 are judged on ASCII strings only (their byte order is not the code-point order). Multi-character expansions and contractions (sharp s = ss, Danish aa) are outside the property. Trusted: TLC, the recording code in harness/cmd/c29.",
    "design_ref": "§7 C29",
}

ASSUMPTIONS = [
    "the PAD attribute and the _bin / _ci class of a collation are read from the engine's own collation metadata and name",
    "a hash collision of two different weight strings (xxhash64) is taken to be impossible",
]
STRIP = ("text", "sqlnote", "charset")


def sigs(m):
    return [(law, "%s|%s|%s" % (law, m["cls"], "pad" if m["pad"] else "nopad")) for law in sorted(m["bad"])]


def record(binp, sc, tag, seed, only=None):
    p = os.path.join(sc, "trace-%s.ndjson" % tag)
    args = [binp, "gen", "-seed", str(seed), "-out", p]
    if only:
        args += ["-only", ",".join(only)]
    rep = lib.run_report(args, timeout=3000)
    return rep, lib.read_ndjson(p)


def detail(law, row):
    d = {"law": law, "collation": row["name"], "charset": row.get("charset"), "class": row["cls"], "pad_space": row["pad"], "strings": row.get("text")}
    M, strs = row["M"], row.get("text") or []
    ex = []
    for i in range(len(M)):
        for j in range(len(M)):
            if len(ex) < 6 and i < j and strs:
                a, b = strs[i], strs[j]
                if law == "pad-attribute" and a.rstrip(" ") == b.rstrip(" ") and a != b:
                    ex.append({"a": a, "b": b, "compare": M[i][j]})
                elif law.startswith("sql-") and row.get("sqlok"):
                    key = {"sql-eq": "EQ", "sql-lt": "LT", "sql-like": "LIKE", "sql-in": "IN"}[law]
                    want = (M[i][j] < 0) if key == "LT" else (M[i][j] == 0)
                    if bool(row[key][i][j]) != want:
                        ex.append({"a": a, "b": b, "compare": M[i][j], key: row[key][i][j]})
                elif law in ("equal-iff-same-weight", "equal-iff-same-hash"):
                    same = (row["W"][i] == row["W"][j]) if law.endswith("weight") else (row["H"][i] == row["H"][j])
                    if (M[i][j] == 0) != same:
                        ex.append({"a": a, "b": b, "compare": M[i][j], "weights": [row["W"][i], row["W"][j]], "hashes": [row["H"][i], row["H"][j]]})
                elif law == "ci-case-fold-equal" and a.lower() == b.lower() and M[i][j] != 0:
                    ex.append({"a": a, "b": b, "compare": M[i][j]})
    d["examples"] = ex
    return d


def check(tier):
    t0 = time.time()
    binp = lib.build("c29")
    v = lib.Verdict(PID)
    quick = tier == "quick"
    seeds = [lib.seed()] if quick else [lib.seed() * 100 + k for k in range(8)]
    with lib.Scratch() as sc:
        # witnesses of the findings: the named collations, recorded and judged alone
        wit_ids, wit_bad = [], set()
        for fid, status, lines in fc.witness_files(PID):
            wit_ids.append(fid)
            names = [n for x in lines for n in x.get("collations", [])]
            _, wrows = record(binp, sc, "w-" + fid, 1, names)
            wmm, _, _ = fc.validate_rows(wrows, "Trace_Collation", nchunks=1, strip=STRIP)
            for m in wmm:
                for law, sig in sigs(m):
                    d = detail(law, wrows[m["l"] - 1])
                    d["witness_of"] = fid
                    v.add("%s|%s" % (PID, sig), d)
                    wit_bad.add(fid)
        rows, rep = [], None
        for sd in seeds:
            rep, rs = record(binp, sc, "s%d" % sd, sd)
            for r in rs:
                r["seed"] = sd
            rows += rs
        ex = rep["extra"]
        lib.log("[C29] recorded %d lines (%d collations with a sort function of %d, %d without) in %.1fs"
                % (len(rows), rep["cases"], ex["collations_total"], ex["without_sorter"], time.time() - t0))
        if rep["cases"] < 150 or ex["sql_unavailable"] > rep["cases"] // 10:
            raise lib.Inconclusive("vacuous: %d collations recorded, SQL unavailable for %d" % (rep["cases"], ex["sql_unavailable"]))
        mm, st, states = fc.validate_rows(rows, "Trace_Collation", nchunks=6 if quick else max(6, lib.NCPU - 4), strip=STRIP + ("seed",))
        lib.log("[C29] validated, %d lines with failed laws, %.1fs" % (len(mm), time.time() - t0))
        nt = sum(1 for s in st if s["nt"])
        if len(st) != len(rows) or nt < len(rows) // 2:
            raise lib.Inconclusive("recorded lines: %d judged of %d, %d non-trivial" % (len(st), len(rows), nt))
        # confirmation: the failing collations again, in a fresh process
        by_sig = {}
        for m in mm:
            for law, sig in sigs(m):
                by_sig.setdefault(sig, []).append((law, m))
        pick = {}
        for sig, ms in by_sig.items():
            for law, m in ms[:3]:
                pick.setdefault(rows[m["l"] - 1]["seed"], {}).setdefault(m["name"], set()).add(sig)
        for sd, names in pick.items():
            _, crow = record(binp, sc, "confirm-%d" % sd, sd, sorted(names))
            cmm, _, _ = fc.validate_rows(crow, "Trace_Collation", nchunks=1, strip=STRIP)
            seen = {(m["name"], sig) for m in cmm for _, sig in sigs(m)}
            for name, ss in names.items():
                for sig in ss:
                    if (name, sig) not in seen:
                        raise lib.Inconclusive("mismatch did not reproduce in a fresh process: %s %s" % (name, sig))
        for sig, ms in by_sig.items():
            law, m = ms[0]
            d = detail(law, rows[m["l"] - 1])
            d["occurrences"] = len(ms)
            d["collations"] = sorted({x["name"] for _, x in ms})[:40]
            d["seed"] = rows[m["l"] - 1]["seed"]
            v.add("%s|%s" % (PID, sig), d)
        for fid in wit_ids:
            if fid not in wit_bad:
                lib.log("[C29] NOTE: the witness of finding %s no longer disagrees with the specification" % fid)
        for x in v.violations:
            lib.log("[C29] unlisted disagreement: %s  %s" % (x["signature"], json.dumps(x["detail"], default=str, ensure_ascii=False)[:500]))
        rc = v.finish()
        pairs = sum(len(r["M"]) ** 2 for r in rows)
        lib.write_evidence(PID, tier, "exploration", {
            "evaluations": pairs + sum(4 * len(r["M"]) ** 2 for r in rows if r["sqlok"]),
            "distinct_nontrivial": nt,
            "rule": "one recorded line per (collation with a sort function, seed): %d collations x %d seed(s); each line holds the Compare matrix of ~30 strings (all strings of length <= 2 over {a, A, space, one seeded non-ASCII character the character set encodes}, single characters, 4 seeded random strings of length 3..5 plus an upper-cased and a space-padded variant), their weight strings and hashes, and the results of =, <, LIKE, IN for all pairs through a VARCHAR column; evaluations = pairs compared (engine API + 4 SQL operators); a line is non-trivial (decided by TLC, ST lines) when the collation equates two different strings of the set or orders some pair differently from code-point order; distinct_nontrivial counts such lines. %d of the engine's %d collations have no sort function and are skipped. The exhaustive per-code-point sweep is not claimed."
                    % (rep["cases"], len(seeds), ex["without_sorter"], ex["collations_total"]),
            "samples": rep["samples"] or [{"collation": rows[0]["name"], "strings": rows[0]["text"]}],
            "collations": {"total": ex["collations_total"], "with_sort_function": rep["cases"], "without_sort_function": ex["without_sorter"],
                           "sql_unavailable": ex["sql_unavailable"], "by_class": ex["by_class"]},
            "lines": len(rows), "pairs_compared": pairs, "states_validated": states, "lines_with_failed_laws": len(mm),
            "failed_by_signature": {sig: len(ms) for sig, ms in by_sig.items()},
            "witnesses": {"findings_with_witness": len(wit_ids), "still_disagreeing": len(wit_bad)},
        }, time.time() - t0, violations=len(v.violations), assumptions=ASSUMPTIONS)
        return rc


def replay(path):
    d = json.load(open(path))
    det = d["first"]["detail"]
    binp = lib.build("c29")
    with lib.Scratch() as sc:
        _, rows = record(binp, sc, "replay", det.get("seed", 1), [det["collation"]])
        mm, _, _ = fc.validate_rows(rows, "Trace_Collation", nchunks=1, strip=STRIP)
        print(json.dumps(mm, indent=1))
    print("VIOLATION reproduced" if mm else "not reproduced on this tree")
    return 1 if mm else 0
