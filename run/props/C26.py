"""C26 — comparison of values is a consistent total order per type.
Spec: spec/TotalOrder.tla (laws of a logged comparison matrix + the specification's own order for
integers/decimals and for strings under _bin / _ai_ci).  TLC checks the law operators themselves on
every 3x3 matrix (MC_TotalOrder).  Binding B: harness/cmd/c26 calls sql.Type.Compare / Type.Convert and
the ORDER BY sorter directly on seeded value sets of every type (<= 24 values, several representations of
the same value) and records the full matrices; TLC validates every event (spec/Trace_TotalOrder.tla)."""
import json, os, time
import lib, valcommon as vc, sqlcommon as sc

PID = "C26"
META = {
    "property_id": PID,
    "level": "exploration",
    "technique": "TLA+ spec TotalOrder.tla: order laws over logged comparison matrices (model-checked on all 3x3 matrices) and an interpreted order for numbers (digit sequences, DecArith!DCmp) and strings (code points, case/accent folding); recorded Type.Compare / Type.Convert / sorter matrices of the real types validated by TLC (trace validation)",
    "text": "For all integer types, FLOAT/DOUBLE, DECIMAL, CHAR/VARCHAR/TEXT per collation (0900_bin, 0900_ai_ci, general_ci), VARBINARY/BLOB, DATE, DATETIME(0/6), TIMESTAMP, TIME, YEAR, ENUM, SET, BIT and JSON: Type.Compare on raw values and on converted values and the ORDER BY comparison are reflexive, antisymmetric and transitive (all triples, incl. equality classes); ORDER BY places NULL before every non-NULL value (Type.Compare itself keeps the engine's documented-by-use 'NULL is greater' convention); comparing raw values equals comparing the values converted to the type; the sorter agrees with Type.Compare on non-NULL values; for interpreted families the matrix equals the specification's own order.",
    "note": "Value sets are type-correct: a value the type cannot convert (error / out-of-range flag) is left out of that type's matrices (counted); no floats that are not exactly representable in the column's precision, no time.Time values finer than the column's precision, no raw strings for JSON (only JSON documents), no DECIMAL values with more fraction digits than the scale. Values stay opaque to the specification except for the interpreted families. Trusted: TLC, the matrix recorder in harness/cmd/c26 (calls the sql.Type API, records signs).",
    "design_ref": "§7 C26",
}


def record(binp, scd, name, sets, only=None):
    out = os.path.join(scd, name + ".ndjson")
    args = [binp, "-out", out, "-seed", str(lib.seed()), "-sets", str(sets)]
    if only:
        args += ["-only", ",".join(str(i) for i in sorted(only))]
    rep = lib.run_report(args, timeout=3000)
    return rep, out


def validate(path, procs):
    mms, states = sc.validate_trace(path, module="Trace_TotalOrder", cfg="Trace_TotalOrder.cfg", chunk=12, procs=procs, timeout=1800)
    evs = sc.load_events(path)
    return [(evs[m["line"]], m) for m in mms], states


def describe(e, m):
    lab = lambda t: [e["labels"][i - 1] for i in t]
    d = {"type": e["type"], "laws": sorted(m["laws"]), "values": e["labels"], "event_id": e["id"], "seed": lib.seed()}
    if m["trans"]:
        d["not_transitive"] = lab(m["trans"])
    if m["agree"]:
        i, j = m["agree"]
        d["raw_vs_converted"] = {"pair": lab(m["agree"]), "raw": e["m"][i - 1][j - 1], "converted": e["mc"][i - 1][j - 1]}
    if m["spec"]:
        i, j = m["spec"]
        d["vs_spec_order"] = {"pair": lab(m["spec"]), "engine": e["ms"][i - 1][j - 1]}
    if e["errs"]:
        d["errors"] = e["errs"]
    return d


def check(tier):
    t0 = time.time()
    binp = lib.build("c26")
    v = lib.Verdict(PID)
    with lib.Scratch() as scd:
        # the law operators on the specification itself (runs while the engine trace is recorded and validated)
        import concurrent.futures as cf
        pool = cf.ThreadPoolExecutor(max_workers=1)
        laws_f = pool.submit(vc.tlc_jobs, {"laws": dict(module="MC_TotalOrder", cfg="MC_TotalOrder.cfg", workers=vc.workers(0.25), timeout=1800,
                                                          heap="3g", coverage=(tier == "thorough"))})
        sets = 3 if tier == "quick" else 40
        rep, trace = record(binp, scd, "trace", sets)
        if rep["cases"] < 60:
            raise lib.Inconclusive("only %d value sets recorded" % rep["cases"])
        procs = vc.workers(0.6)
        bad, states = validate(trace, procs)
        lib.log("[C26] %d events validated, %d broken, %.1fs" % (rep["cases"], len(bad), time.time() - t0))
        # binding self-test: a corrupted matrix entry must be rejected
        evs = lib.read_ndjson(trace)
        good = next(e for e in evs if e["id"] not in {x[0]["id"] for x in bad} and len(e["labels"]) >= 5)
        e2 = json.loads(json.dumps(good))
        i, j = 1, 2
        e2["m"][i][j] = 1 if e2["m"][i][j] != 1 else -1
        stp = os.path.join(scd, "selftest.ndjson")
        lib.write_ndjson(stp, [e2])
        st, _ = validate(stp, 1)
        if not st:
            raise lib.Inconclusive("binding self-test: a corrupted comparison matrix was accepted")
        # confirm every broken event in a fresh process
        if bad:
            rep2, trace2 = record(binp, scd, "confirm", sets, only={e["id"] for e, _ in bad})
            bad2, _ = validate(trace2, procs)
            again = {(e["id"], law) for e, m in bad2 for law in m["laws"]}
            for e, m in bad:
                for law in sorted(m["laws"]):
                    if (e["id"], law) not in again:
                        raise lib.Inconclusive("broken law did not reproduce in isolation: %s %s" % (e["type"], law))
                    v.add("C26|%s|%s" % (e["type"].replace(" ", "_"), law), describe(e, m))
        laws = laws_f.result()["laws"]
        if laws.distinct < 19000:
            raise lib.Inconclusive("law check explored only %d matrices" % laws.distinct)
        rc = v.finish()
        ex = rep["extra"]
        cov = {
            "evaluations": ex["compare_calls"], "distinct_nontrivial": rep["nontrivial"],
            "rule": "per type %d seeded value sets (random subsets of <= 24 values of a pool that holds boundaries and the same value in several representations, random order); one evaluation = one Type.Compare / sorter call; non-trivial = distinct (type, value list) with >= 3 convertible values; every set validated by TLC against all laws over all pairs and triples" % sets,
            "samples": rep["samples"] or [{"type": evs[0]["type"], "values": evs[0]["labels"]}],
            "states": states + laws.distinct, "transitions": states + laws.generated,
            "traces_validated_against_impl": rep["cases"],
            "value_sets": rep["cases"], "types": len(ex["per_type"]), "per_type": ex["per_type"],
            "values_excluded_not_convertible": ex["values_excluded_not_convertible"],
            "law_matrices_model_checked": laws.distinct, "broken_events": len(bad),
            "tlc_wall_s": {"laws": round(laws.wall, 1)},
        }
        lib.write_evidence(PID, tier, "exploration", cov, time.time() - t0, violations=len(v.violations),
                           assumptions=["value sets are type-correct (see note): inputs a type cannot convert are excluded per type and counted",
                                        "SQL NULL stays NULL (the engine never hands NULL to Type.Convert)",
                                        "Type.Compare orders NULL after non-NULL values by design (types.CompareNulls, used for NULLS LAST); 'NULL first' is demanded of the ORDER BY comparison (sql/sorters RowSorter, ascending, default NULL placement)",
                                        "interpreted alphabets: digits/sign/point for numbers; for _ai_ci only 0-9 A-Z a-z and U+00C9/U+00E9 (other code points make a pair uninterpreted: laws only)"])
        return rc


def replay(path):
    binp = lib.build("c26")
    obj = json.load(open(path))
    d = obj.get("first", {}).get("detail", {})
    os.environ["VERIF_SEED"] = str(d.get("seed", lib.seed()))
    with lib.Scratch() as scd:
        rep, trace = record(binp, scd, "replay", 40, only={d["event_id"]})
        bad, _ = validate(trace, 1)
        for e, m in bad:
            print("VIOLATION property=C26 replay=%s" % path)
            print(json.dumps(describe(e, m)))
        return 1 if bad else 0
