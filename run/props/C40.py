"""C40 — authentication accepts exactly the valid credentials.
Spec: spec/Auth.tla (account matching as GetUser, decision per matched account with the password
abstracted to a label; what the bytes of an auth response ARE is their abstract class under the
negotiated plugin: valid proof of a labelled password / empty / malformed; malformed is rejected, empty
opens only accounts without password).  TLC enumerates
account sets x attempts and checks the property-level invariants; the binding runs the attempts
against the real TCP listener (server in a child process) and Trace_Auth.tla judges every outcome."""
import concurrent.futures, glob, json, os, random, time
import lib

META = {
    "property_id": "C40",
    "level": "model_checking",
    "technique": "TLA+ spec Auth.tla: TLC enumerates every (account set, connection attempt) of a bounded vocabulary and checks the declarative acceptance property against the specification's Authenticate; sampled cases are executed against the real server (engine with the mysql privilege database behind server.NewServer on TCP, in a child process) with go-sql-driver (well-formed logins, with and without TLS) and a raw-socket client (hand-made auth responses: truncated, oversized, garbage, the valid 20-byte scramble on a handshake salt chosen so that it ends or starts with 0x00, the valid scramble with NUL bytes appended or prepended, all-NUL responses, the empty response; mysql_native_password in the clear, caching_sha2_password over TLS); outcomes validated by TLC against Trace_Auth.tla",
    "text": "Accounts: user alice or anonymous, host localhost / 127.0.0.1 / % / 10.% / 127.0.0.%, password or none, mysql_native_password or caching_sha2_password, unlocked / created WITH ACCOUNT LOCK / locked in mysql.user; sets of one or two accounts. Attempts from 127.0.0.1 as alice or bob: right, wrong and empty password with and without TLS, and raw handshakes answering with truncated (1..19 bytes), oversized (21..40) and garbage responses, with exactly the correct scramble for the password on a salt that makes its last (first) byte 0x00 (the driver reconnects until the server draws such a salt, about 256 handshakes), with the correct scramble followed or preceded by NUL bytes, with all-NUL responses of 1, 19, 20, 21 and 32 bytes and with the empty response, against accounts with and without password; over TLS the raw client announces caching_sha2_password and sends the empty response or a lone NUL. The specification decides from the class of the response under the account's plugin: mysql_native_password knows the empty response (no password presented) and the 20-byte scramble, everything else is malformed; for caching_sha2_password the empty response and a lone 0x00 both say \"no password\". For every attempt the connection outcome (OK / ERR packet / connection dropped / server crash) and SELECT CURRENT_USER() are recorded and must be what Authenticate allows: accepted exactly when an unlocked matching account's password is known under a usable plugin, as that account.",
    "note": "The SHA arithmetic is outside TLA+ (password = label; the driver computes the scrambles and searches the salts, the specification only knows 'the valid proof for pw1'); which of several matching accounts of the same tier GetUser takes is left open (documented TODO), so an outcome is accepted when it is right for one of them. caching_sha2_password is only usable over TLS here (no RSA key exchange in the server) and is specified so. The client always comes from 127.0.0.1. A dropped connection (the vitess listener recovers a panic of the connection goroutine) or a dead server is not a rejection the specification knows. In the quick tier the chosen-salt attempts are made for every second sampled account set. A raw client that is asked for the caching_sha2 full authentication round trip is not modelled (the TLS raw client is only generated with the two responses decided at once). Trusted: TLC, go-sql-driver, the 200-line raw handshake client in harness/cmd/priv/auth.go.",
    "design_ref": "§7 C40, §4.2",
}


def relation(a, proof):
    if proof["k"] == "exact":                      # the valid 20-byte scramble for pw1
        return "right" if a["pw"] == "pw1" and a["plugin"] == "native" else "wrong"
    if proof["k"] == "empty":
        return "right" if a["pw"] == "none" else "wrong"
    if proof["k"] != "password":
        return "-"
    return "right" if proof["pw"] == a["pw"] else "wrong"


def cls(a, proof):
    return "%s/%s/%s/%s" % (a["plugin"], "pw" if a["pw"] != "none" else "nopw", a["locked"], relation(a, proof))


def signature(m):
    att, got = m["att"], m["got"]
    o = got["o"]
    if o == "dropped" and "caught panic" in got.get("note", ""):
        o = "dropped(panic)"
    p = att["proof"]
    proof = "password" if p["k"] == "password" else "%s:%s" % (p["k"], p["base"])      # lengths: in the detail
    cand = ",".join(sorted({cls(a, p) for a in m["cand"]})) or "none"
    exp = ",".join(sorted({x["o"] for x in m["allowed"]}))
    if o == "accept":
        # as which account the session runs (CURRENT_USER()); the raw client does not ask
        cu = got.get("cu", "")
        run_as = [cls(a, p) for a in m["cand"] if a["user"] + "@" + a["host"] == cu]
        who = run_as[0] if run_as else "raw" if p["k"] != "password" else "client-address" if cu.endswith("@127.0.0.1") else "other"
        # an account whose host is the literal 127.0.0.1 has the same name as "user@client address";
        # the latter reading is taken when a password-less sha2 candidate could have been logged in over TLS
        if cu == att["user"] + "@127.0.0.1" and att["tls"] and any(a["plugin"] == "sha2" and a["pw"] == "none" and relation(a, p) == "right" for a in m["cand"]):
            who = "client-address"
        return "C40|accept|as=%s|expected=%s|proof=%s|tls=%s|cand=%s" % (who, exp, proof, att["tls"], cand)
    return "C40|%s|expected=%s|proof=%s|tls=%s|cand=%s" % (o, exp, proof, att["tls"], cand)


def run_cases(binp, cases, sc, tag):
    inp = os.path.join(sc, tag + ".cases.ndjson")
    out = os.path.join(sc, tag + ".trace.ndjson")
    lib.write_ndjson(inp, cases)
    rep = lib.run_report([binp, "-mode", "auth", "-file", inp, "-out", out, "-seed", str(lib.seed())], timeout=3000)
    evs = lib.read_ndjson(out)
    begun = {e["id"] for e in evs if e["ev"] == "begin"}
    ends = [e for e in evs if e["ev"] == "end"]
    if begun != {e["id"] for e in ends} or len(ends) != len(cases):
        raise lib.Inconclusive("%s: %d cases, %d begun, %d ended" % (tag, len(cases), len(begun), len(ends)))
    return rep, ends


def validate(ends, sc, tag):
    path = os.path.join(sc, tag + ".tlc.ndjson")
    lib.write_ndjson(path, [{"id": e["id"], "accts": e["accts"], "att": e["att"],
                             "out": {"o": e["out"]["o"], "cu": e["out"].get("cu", ""), "code": e["out"].get("code", 0),
                                     "note": e["out"].get("note", "")[:300]}} for e in ends])
    r = lib.tlc("Trace_Auth", "Trace_Auth.cfg", workers=1, timeout=3000, heap="4g", extra_files=[("auth_trace.ndjson", path)])
    lib.tlc_ok(r, "Trace_Auth[%s]" % tag)
    if r.postcondition_failed:
        raise lib.Inconclusive("%s: the trace was not validated to its end\n%s" % (tag, r.out[-1500:]))
    if r.jsons("BADCASE"):
        raise lib.Inconclusive("%s: recorded case is not a case of the specification: %s" % (tag, r.jsons("BADCASE")[:2]))
    return r.jsons("MM"), r.jsons("ST"), r


def witnesses():
    cs = []
    for p in sorted(glob.glob(os.path.join(lib.VERIF, "findings", "C40-*.ndjson"))):
        cs += lib.read_ndjson(p)
    return cs


def check(tier):
    t0 = time.time()
    rnd = random.Random(lib.seed())
    binp = lib.build("priv")
    v = lib.Verdict("C40")
    quick = tier == "quick"
    with lib.Scratch() as sc, concurrent.futures.ThreadPoolExecutor(max_workers=2) as pool:
        # 1. background: every (account set, attempt) with the property-level invariants
        mc_cfg = "Auth_quick.cfg" if quick else "Auth_thorough.cfg"
        mc = pool.submit(lib.tlc, "Auth", mc_cfg, workers=3 if quick else 8, timeout=3000, coverage=not quick, heap="6g")
        # 2. the account sets and the attempts the cases are drawn from
        rsets = lib.tlc("Auth", "Auth_sets.cfg" if quick else "Auth_sets_all.cfg", workers=2, timeout=900)
        lib.tlc_ok(rsets, "Auth/sets")
        sets = [x["accts"] for x in rsets.jsons("ACCTS")]
        atts = rsets.jsons("ATTEMPTS")
        if len(sets) < 1000 or not atts or len(atts[0]["attempts"]) < 50:
            raise lib.Inconclusive("enumeration too small: %d account sets" % len(sets))
        atts = atts[0]["attempts"]
        key = lambda a: (a["user"], a["tls"], a["proof"]["k"], a["proof"]["base"], a["proof"]["n"], a["proof"]["pw"])
        atts.sort(key=key)
        for s in sets:
            s.sort(key=lambda a: (a["user"], a["host"]))
        sets.sort(key=lambda s: json.dumps(s, sort_keys=True))
        nsets = 80 if quick else 200
        singles = [s for s in sets if len(s) == 1]
        pairs = [s for s in sets if len(s) == 2]
        pick = lib.sample(singles, nsets // 3, rnd) + lib.sample(pairs, nsets - nsets // 3, rnd)
        cases = []
        # an "exact" attempt costs about 256 handshakes (the driver reconnects until the server's salt has
        # the shape): in the quick tier every second sampled account set gets them
        nexact = 0
        for k, s in enumerate(pick):
            for a in atts:
                if a["proof"]["k"] == "exact":
                    if quick and k % 2:
                        continue
                    nexact += 1
                cases.append({"id": len(cases) + 1, "accts": s, "att": a})
        wit = witnesses()
        for c in wit:
            cases.append({"id": len(cases) + 1, "accts": c["accts"], "att": c["att"]})
        lib.log("[C40] %d account sets (of %d) x %d attempts + %d witness cases = %d cases %.0fs" % (len(pick), len(sets), len(atts), len(wit), len(cases), time.time() - t0))
        rep, ends = run_cases(binp, cases, sc, "main")
        lib.log("[C40] driver: %s %.0fs" % (rep["extra"], time.time() - t0))
        mms, sts, rt = validate(ends, sc, "main")
        lib.log("[C40] validated: %d MM %.0fs" % (len(mms), time.time() - t0))
        # 3. every kind of disagreement once more, alone: a fresh driver and a fresh server per case
        by_sig = {}
        for m in mms:
            by_sig.setdefault(signature(m), []).append(m)
        by_id = {c["id"]: c for c in cases}
        conf = []
        for sig, ms in by_sig.items():
            for m in ms[:1 if quick else 2]:
                conf.append((sig, m))
        cends = []
        for k, (sig, m) in enumerate(conf):
            c = dict(by_id[m["id"]])
            c["id"] = k + 1
            _, e = run_cases(binp, [c], sc, "confirm%d" % k)
            cends += e
        unreproduced = []
        if cends:
            cmm, _, _ = validate(cends, sc, "confirm")
            for k, (sig, m) in enumerate(conf):
                again = [x for x in cmm if x["id"] == k + 1]
                if again and signature(again[0]) == sig:
                    d = dict(m)
                    d["accounts"] = by_id[m["id"]]["accts"]
                    d["occurrences_this_run"] = len(by_sig[sig])
                    v.add(sig, d)
                else:
                    unreproduced.append({"signature": sig, "case": by_id[m["id"]], "got": m["got"]})
        # A mismatch that does not show again alone is never a violation. It makes the run inconclusive unless
        # other mismatches WERE reproduced (a well-formed login draws a fresh salt per connection, so an
        # outcome that depends on the salt cannot be had again on demand; the chosen-salt attempts are the
        # reproducible form of that case).
        if unreproduced and not v.violations:
            raise lib.Inconclusive("mismatch did not reproduce in isolation: %s (case %s)" % (unreproduced[0]["signature"], unreproduced[0]["case"]))
        for u in unreproduced:
            lib.log("[C40] note: not reproduced in isolation (not counted): %s" % u["signature"])
        missing = [f["id"] for f in v.findings if f["id"] not in v.known]
        if missing:
            lib.log("[C40] note: known finding(s) %s did not show this run (fixed?)" % missing)
        forged = None
        if not quick:
            # binding demonstrated: a cleanly judged accept turned into a reject (and vice versa) must be rejected
            bad_ids = {m["id"] for m in mms}
            good = [e for e in ends if e["id"] not in bad_ids]
            fa = next(e for e in good if e["out"]["o"] == "accept")
            fr = next(e for e in good if e["out"]["o"] == "reject")
            f1 = json.loads(json.dumps(fa)); f1["id"] = 1; f1["out"] = {"o": "reject", "cu": "", "code": 1045}
            f2 = json.loads(json.dumps(fr)); f2["id"] = 2; f2["out"] = {"o": "accept", "cu": "alice@localhost", "code": 0}
            fmm, _, _ = validate([f1, f2], sc, "forged")
            if {m["id"] for m in fmm} != {1, 2}:
                raise lib.Inconclusive("the trace specification accepted a forged outcome")
            forged = {"accept_to_reject_rejected": True, "reject_to_accept_rejected": True}
        r = mc.result()
        lib.tlc_ok(r, "Auth/" + mc_cfg)
        if not quick and r.coverage_zero():
            raise lib.Inconclusive("vacuous: actions never taken: %s" % r.coverage_zero())
        pattern = sum(1 for s in sts if s["pattern"])
        accepts = sum(1 for s in sts if s["accept"])
        multi = sum(1 for s in sts if s["cands"] > 1)
        if len(sts) != len(cases) or pattern < len(cases) // 10 or accepts < 20:
            raise lib.Inconclusive("vacuous: %d judged of %d, %d through a host pattern, %d expected accepts" % (len(sts), len(cases), pattern, accepts))
        # the hand-made responses must have met the accounts they are about
        by_kind = {}
        for st in sts:
            d = by_kind.setdefault(st["k"], {"cases": 0, "expected_accept": 0, "classes": set()})
            d["cases"] += 1
            d["expected_accept"] += 1 if st["accept"] else 0
            d["classes"] |= set(st["class"])
        for d in by_kind.values():
            d["classes"] = sorted(d["classes"])
        exact_accept = by_kind.get("exact", {}).get("expected_accept", 0)
        padded_pw = sum(1 for st in sts if st["k"] == "padded" and st["natpw"])
        allnul_nopw = sum(1 for st in sts if st["k"] == "allnul" and st["natnopw"])
        empty_accept = by_kind.get("empty", {}).get("expected_accept", 0)
        if min(exact_accept, padded_pw, allnul_nopw, empty_accept) < 4:
            raise lib.Inconclusive("vacuous: %d valid scrambles on a chosen salt expected to be accepted, %d NUL-padded scrambles against a native account with password, "
                                   "%d all-NUL responses against a native account without password, %d empty responses expected to be accepted"
                                   % (exact_accept, padded_pw, allnul_nopw, empty_accept))
        rc = v.finish()
        lib.write_evidence("C40", tier, "model_checking", {
            "states": r.distinct, "transitions": r.generated,
            "traces_validated_against_impl": len(cases),
            "samples": [{"accts": ends[0]["accts"], "att": ends[0]["att"], "out": ends[0]["out"]},
                        {"accts": ends[len(ends) // 2]["accts"], "att": ends[len(ends) // 2]["att"], "out": ends[len(ends) // 2]["out"]}],
            "evaluations": len(sts),
            "distinct_nontrivial": pattern,
            "rule": "evaluations = connection attempts made against the real listener and judged by TLC; non-trivial = the attempt is matched through an account whose host is not the literal 'localhost' (127.0.0.1, %%, 127.0.0.%%: alias or pattern matching decides); %d attempts the specification accepts, %d with more than one candidate account; hand-made responses by kind under by_proof_kind" % (accepts, multi),
            "enumeration": {"config": mc_cfg, "account_sets": len(sets), "attempts_per_set": len(atts), "tlc_wall_s": round(r.wall, 1)},
            "sampled_account_sets": len(pick),
            "by_proof_kind": by_kind,
            "hand_made_responses": {"valid_scramble_on_chosen_salt_cases": nexact, "of_them_expected_accept": exact_accept,
                                    "nul_padded_scramble_vs_native_account_with_password": padded_pw,
                                    "all_nul_vs_native_account_without_password": allnul_nopw,
                                    "empty_response_expected_accept": empty_accept},
            "by_outcome": rep["extra"]["by_outcome"],
            "server_crashes": rep["extra"]["server_crashes"], "server_panics_logged": rep["extra"]["server_panics_logged"],
            "mismatch_signatures": {s: len(ms) for s, ms in by_sig.items()}, "forged_trace_selftest": forged,
            "unreproduced_mismatches": unreproduced,
        }, time.time() - t0, violations=len(v.violations),
            assumptions=["password knowledge abstracted to label equality; the scramble/hash arithmetic is the real code's",
                         "client address 127.0.0.1 only; host patterns are varied on the account side",
                         "among several matching accounts of one tier any may be taken (GetUser leaves it to iteration order)"])
        return rc
