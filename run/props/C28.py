"""C28 — values round-trip through their wire representation.
Spec: spec/WireFormat.tla (per column type: Format, grammar + denotation Parse, announced length,
binary-protocol FormatBin / ParseBin; numbers as digit sequences, base 256 <-> base 10 by long
arithmetic, UTF-8 / cp1252 decoders, a JSON reader in Trace_Wire).
Design half: spec/MC_Wire.tla — TLC checks Parse(Format(v)) = v, Len(Format(v)) <= Announced,
ParseBin(FormatBin(v)) = v, row framing and (cfg pairs) injectivity over bounded value spaces.
Binding A: the (type, value, text) triples TLC printed from Format are stored in the engine and the
server's text must equal the bytes.  Binding B: harness/cmd/c28 stores boundary + seeded random
values in one column of every type, reads them through the REAL TCP server with a raw client (text
protocol and prepared-statement binary protocol) and from the engine directly; spec/Trace_Wire.tla
(TLC) decodes the packets and decides: text in the grammar, denotes the stored value, length <=
announced, binary value (by the announced type code / UNSIGNED flag) denotes the stored value,
NULL <-> NULL."""
import concurrent.futures as cf, json, os, random, shutil, tempfile, threading, time
import lib, valcommon as vc

PID = "C28"
META = {
    "property_id": PID,
    "level": "model_checking",
    "technique": "TLA+ codec specification WireFormat.tla of the MySQL text and binary row formats per column type (digit-sequence arithmetic, no reals / 64-bit integers in TLC); consistency of the codec model-checked by TLC (MC_Wire: round trip, announced length, framing, injectivity); binding A: TLC-computed expected texts replayed into the engine through the real TCP server; binding B: packets recorded from the real server (text protocol + prepared statements) for every column type validated by TLC (Trace_Wire: grammar, denotation = stored value, length bound, binary denotation, NULL)",
    "text": "For one column of every type (all integer widths signed/unsigned, BOOLEAN, DECIMAL of ten (p,s) incl. (65,30) and (p,p), FLOAT, DOUBLE, CHAR/VARCHAR/TEXT in utf8mb4/latin1/ascii/utf8mb3 and several collations, BINARY/VARBINARY/BLOB sizes, DATE, DATETIME(0..6), TIMESTAMP(0..6), TIME, YEAR, BIT(1..64), ENUM, SET (up to 64 members), JSON) boundary and seeded random storable values and NULL are stored; the stored value is read from the engine's row (projected to bytes / fields, never formatted in Go) and the row is fetched through the real server in the text protocol and through a prepared statement, under character_set_results utf8mb4 and latin1. TLC decodes the raw row packets and decides per value: the text is in the column type's grammar, denotes the stored value (digit-sequence / field / code point equality), is not longer than the announced column length, the binary value decoded by the announced type code and UNSIGNED flag denotes the stored value, NULL is sent iff NULL is stored.",
    "note": "FLOAT/DOUBLE: TLC judges at representation level (normal form of the wire numeral = normal form of strconv's shortest round-trip numeral of the stored float; binary = math.Float32bits/Float64bits bytes): that these projections denote the stored IEEE value is assumed. Strings <= 3000 characters (no 3-byte length prefix on the wire). TIME has a single engine type (time(6)). The binary row encoder is the vitess dependency fed by the engine's text and type tag. Trusted: TLC, the raw MySQL client (framing only) and the value projections of harness/cmd/c28, Go's time.Time field accessors.",
    "design_ref": "§7 C28",
}

SIZES = {
    "quick": dict(mc="MC_Wire_emit.cfg", pairs="MC_Wire_pairs.cfg", nrand=4, nreplay=3000, chunk=170, thorough=False),
    "thorough": dict(mc="MC_Wire_emitbig.cfg", pairs="MC_Wire_pairsbig.cfg", nrand=40, nreplay=60000, chunk=400, thorough=True),
}


# ---------------------------------------------------------------- trace validation (MM + NOTE lines)

def _chunk(args):
    lines, nums, timeout = args
    d = tempfile.mkdtemp(prefix="verif-c28-")
    try:
        with open(os.path.join(d, "trace.ndjson"), "w") as f:
            f.write("\n".join(lines) + "\n")
        r = lib.tlc("Trace_Wire", "Trace_Wire.cfg", workdir=d, workers=1, timeout=timeout, heap="3g")
        mms = []
        for m in r.jsons("MM"):
            m["line"] = nums[m["l"] - 1]
            mms.append(m)
        bad = None
        if r.error or not r.completed or r.postcondition_failed:
            bad = (r.error or "TLC did not complete / did not consume the trace") + "\n" + r.out[-1500:]
        return mms, r.jsons("NOTE"), r.distinct, bad
    finally:
        shutil.rmtree(d, ignore_errors=True)


def validate(path, chunk, procs=None, timeout=1500):
    lines = [l.rstrip("\n") for l in open(path) if l.strip()]
    jobs = []
    for i in range(0, len(lines), chunk):
        jobs.append((lines[i:i + chunk], list(range(i + 1, i + 1 + len(lines[i:i + chunk]))), timeout))
    procs = procs or max(2, min(10, lib.NCPU - 4))
    cap = int(os.environ.get("VERIF_TLC_WORKERS", "0") or 0)      # shared machine: VERIF_TLC_WORKERS also caps the parallel validations
    if cap:
        procs = min(procs, max(2, cap))
    mms, notes, states = [], [], 0
    with cf.ThreadPoolExecutor(max_workers=procs) as ex:
        for m, n, st, bad in ex.map(_chunk, jobs):
            if bad:
                raise lib.Inconclusive("trace validation did not complete: " + bad)
            mms.extend(m)
            notes.extend(n)
            states += st
    return mms, notes, states, [json.loads(l) for l in lines]


# ---------------------------------------------------------------- signatures
TIER = ["quick"]


def label(ev):
    ty = ev["ty"]
    k = ty["k"]
    if k == "int":
        return ("uint%d" if ty["uns"] else "int%d") % ty["bits"]
    if k in ("char", "varchar", "text", "enum", "set"):
        return "%s/%s->%s" % (k, ty["cs"], ev["sess"])
    if k == "dec":
        return "dec(p=s)" if ty["p"] == ty["s"] else "dec"
    if k == "bit":
        return "bit"
    return k


def detail_class(ev, m):
    """Descriptive class of the stored value (for precise finding signatures; not a verdict)."""
    st = ev["st"]
    cls = []
    if st.get("t") == "t" and 0 < st["y"] < 1000:
        cls.append("year<1000")
    if st.get("t") == "t" and st["y"] == 0:
        cls.append("year=0")
    if "text-length" in m["tags"]:
        over = m["tlen"] - m["announced"]
        cls.append("over=%d" % over if ev["ty"]["k"] in ("float", "double", "dec", "int", "year", "date", "datetime", "timestamp", "time") else "over")
    if ev["ty"]["k"] == "year" and st.get("t") == "i" and not any(st["be"]):
        cls.append("zero")
    if st.get("t") == "n":
        cls.append("null")
    return ",".join(cls)


def signature(ev, m):
    return "%s|B|%s|%s|%s" % (PID, label(ev), "+".join(sorted(m["tags"])), detail_class(ev, m))


def text_of(row):
    if not row or row == [251]:
        return None
    if row[0] < 251:
        b = row[1:]
    elif row[0] == 252:
        b = row[3:]
    else:
        b = row[4:]
    return bytes(b).decode("utf-8", "replace")


def describe(ev, m):
    return {"column": ev["ddl"], "literal_inserted": ev["lit"], "session_character_set_results": ev["sess"], "failed": sorted(m["tags"]),
            "stored": ev["st"] if len(json.dumps(ev["st"])) < 600 else "(long)", "text_received": text_of(ev["trow"]),
            "text_length": m.get("tlen"), "announced_length": m.get("announced"), "specification_length": m.get("announced_spec"),
            "text_column_definition": ev["tf"], "binary_column_definition": ev["bf"],
            "binary_row": ev["brow"] if len(ev["brow"]) < 80 else ev["brow"][:80] + ["..."],
            "text_error": ev["terr"], "binary_error": ev["berr"], "engine_convert_back": ev["back"], "id": ev["id"], "seed": lib.seed(), "tier": TIER[0]}


# ---------------------------------------------------------------- the check

def run_driver(binp, sz, scd, tag, only=None):
    out = os.path.join(scd, "trace-%s.ndjson" % tag)
    args = [binp, "-mode", "exec", "-seed", str(lib.seed()), "-n", str(sz["nrand"]), "-out", out]
    if sz["thorough"]:
        args.append("-thorough")
    if only:
        args += ["-only", ",".join(map(str, sorted(only)))]
    rep = lib.run_report(args, timeout=2400)
    return out, rep


def binding_selftest(evs, scd):
    """A good recorded event must be accepted; the same event with one corrupted byte of the text row
    and one with a corrupted byte of the binary row must be rejected (DESIGN 9)."""
    good = next((e for e in evs if e["ty"]["k"] == "int" and e["ty"]["bits"] == 32 and e["st"]["t"] != "n" and len(e["trow"]) > 3), None)
    if good is None:
        raise lib.Inconclusive("binding self-test: no INT event recorded")
    t = json.loads(json.dumps(good))
    t["trow"][-1] = 48 + (t["trow"][-1] - 48 + 1) % 10
    b = json.loads(json.dumps(good))
    b["brow"][2] = (b["brow"][2] + 1) % 256
    p = os.path.join(scd, "selftest.ndjson")
    lib.write_ndjson(p, [good, t, b])
    mms, _, _, _ = validate(p, 10, procs=1)
    got = {m["line"]: set(m["tags"]) for m in mms}
    if 1 in got or "text-denote" not in got.get(2, ()) or "bin-denote" not in got.get(3, ()):
        raise lib.Inconclusive("binding self-test failed: %s" % got)


def check(tier):
    t0 = time.time()
    sz = SIZES[tier]
    TIER[0] = tier
    binp = lib.build("c28")
    v = lib.Verdict(PID)
    rnd = random.Random(lib.seed())
    with lib.Scratch() as scd:
        # 1. design half + emission of binding-A cases (one TLC run), injectivity (second run), in the background
        box = {}

        def models():
            try:
                box["res"] = vc.tlc_jobs({
                    "mc": dict(module="MC_Wire", cfg=sz["mc"], workers=vc.workers(0.3), timeout=3000, heap="6g"),
                    "pairs": dict(module="MC_Wire", cfg=sz["pairs"], workers=vc.workers(0.2), timeout=3000, heap="4g"),
                }, max_parallel=2)
            except Exception as e:
                box["e"] = e
        th = threading.Thread(target=models)
        th.start()
        try:
            # 2. binding B
            trace, rep = run_driver(binp, sz, scd, "main")
            lib.log("[C28] %d values recorded, %.1fs" % (rep["cases"], time.time() - t0))
            mms, notes, states, evl = validate(trace, sz["chunk"])
            evs = {i + 1: e for i, e in enumerate(evl)}
            lib.log("[C28] trace validated: %d events disagree, %.1fs" % (len(mms), time.time() - t0))
            confirmed = 0
            if mms:
                ids = {evs[m["line"]]["id"] for m in mms}
                trace2, _ = run_driver(binp, sz, scd, "confirm", only=ids)
                mm2, _, _, evl2 = validate(trace2, sz["chunk"])
                again = {(evl2[m["line"] - 1]["id"], evl2[m["line"] - 1]["sess"]): m for m in mm2}
                for m in mms:
                    ev = evs[m["line"]]
                    m2 = again.get((ev["id"], ev["sess"]))
                    if m2 is None or set(m2["tags"]) != set(m["tags"]):
                        raise lib.Inconclusive("disagreement did not reproduce in a fresh process: %s %s" % (ev["ddl"], ev["lit"]))
                    v.add(signature(ev, m), describe(ev, m))
                    confirmed += 1
            if tier == "thorough" or lib.seed() == 1:
                binding_selftest(evl, scd)
        finally:
            th.join()
        if "e" in box:
            raise box["e"]
        rmc, rpairs = box["res"]["mc"], box["res"]["pairs"]
        cases = rmc.jsons("CASE")
        if rmc.distinct < 5000 or len(cases) < 5000 or rpairs.distinct < 1000:
            raise lib.Inconclusive("model too small: %d states, %d emitted cases, %d pair states" % (rmc.distinct, len(cases), rpairs.distinct))
        # 3. binding A: replay the emitted (type, value, text) triples
        chosen = stratified(cases, sz["nreplay"], rnd)
        cin = os.path.join(scd, "cases.ndjson")
        lib.write_ndjson(cin, chosen)
        arep = lib.run_report([binp, "-mode", "replay", "-in", cin], timeout=2400)
        lib.log("[C28] binding A: %d cases replayed, %d differ, %.1fs" % (arep["cases"], len(arep["mismatches"]), time.time() - t0))
        if arep["mismatches"]:
            idx = sorted({m["case"] for m in arep["mismatches"]})
            arep2 = lib.run_report([binp, "-mode", "replay", "-in", cin, "-only", ",".join(map(str, idx))], timeout=2400)
            again = {m["case"]: m for m in arep2["mismatches"]}
            for m in arep["mismatches"]:
                if m["case"] not in again:
                    raise lib.Inconclusive("binding A difference did not reproduce in a fresh process: %s" % json.dumps(m["input"])[:300])
                v.add(m["signature"] + "|" + a_class(m), {"expected_text": bytes(m["expected"]).decode("utf-8", "replace") if isinstance(m["expected"], list) else m["expected"],
                                                         "got_text": bytes(m["got"]).decode("utf-8", "replace") if isinstance(m["got"], list) else m["got"],
                                                         "column": m["input"]["ddl"], "literal": m["input"]["literal"], "rcs": m["input"]["rcs"], "case": m["input"]["case"], "seed": lib.seed()})
        if arep["cases"] < len(chosen) // 2:
            raise lib.Inconclusive("binding A: only %d of %d cases were storable" % (arep["cases"], len(chosen)))
        rc = v.finish()
        per = rep["extra"]["values_per_type"]
        if len(per) < 35 or rep["nontrivial"] < 800:
            raise lib.Inconclusive("too few values recorded: %d types, %d values" % (len(per), rep["nontrivial"]))
        bad_by_tag = {}
        for m in mms:
            for t in m["tags"]:
                bad_by_tag[t] = bad_by_tag.get(t, 0) + 1
        back_vs_tlc = {}
        badlines = {m["line"] for m in mms if set(m["tags"]) & {"text-grammar", "text-denote", "text-error", "text-frame", "text-null"}}
        for i, e in evs.items():
            k = "engine_back=%s,tlc_text=%s" % (e["back"], "bad" if i in badlines else "ok")
            back_vs_tlc[k] = back_vs_tlc.get(k, 0) + 1
        lib.write_evidence(PID, tier, "model_checking", {
            "states": rmc.distinct + rpairs.distinct, "transitions": rmc.generated + rpairs.generated,
            "traces_validated_against_impl": len(evl) + arep["cases"],
            "samples": rep["samples"][:3] + arep["samples"][:2],
            "evaluations": len(evl) + arep["cases"], "distinct_nontrivial": rep["nontrivial"] + arep["nontrivial"],
            "rule": "model: %s (%d type/value states: round trip, announced length, binary round trip, framing, numeral normal form) + %s (%d value pairs: injectivity); binding B: %d columns, NULL + boundary values + %d seeded random values per column, each read through the real TCP server in both protocols (and under character_set_results = latin1 for latin1-representable character values), every event judged by Trace_Wire; binding A: %d of the %d (type, value, text) triples TLC emitted were stored and the server's text compared byte for byte; non-trivial = a non-NULL value (B) / a non-empty expected text that matched (A)" % (
                sz["mc"], rmc.distinct, sz["pairs"], rpairs.distinct, rep["extra"]["columns"], sz["nrand"], arep["cases"], len(cases)),
            "model_states": rmc.distinct, "pair_states": rpairs.distinct, "model_wall_s": round(rmc.wall, 1), "pairs_wall_s": round(rpairs.wall, 1),
            "events_validated": len(evl), "trace_states": states, "values_per_type": per,
            "values_rejected_by_engine_per_type": rep["extra"]["rejected_by_engine_per_type"],
            "events_disagreeing": len(mms), "disagreements_reproduced": confirmed, "disagreeing_events_by_tag": bad_by_tag,
            "connections_dropped_by_server": rep["extra"]["connections_lost"],
            "binding_a_cases": arep["cases"], "binding_a_values_per_type": arep["extra"]["values_per_type"],
            "binding_a_not_storable_per_type": arep["extra"]["not_storable_per_type"], "binding_a_differences": len(arep["mismatches"]),
            "engine_convert_back_vs_tlc": back_vs_tlc,
            "announced_length_differs_from_specification_formula": sorted({"%s [%s]: engine %d, specification %d" % (n["ddl"], n["sess"], n["announced"], n["spec"]) for n in notes})[:60],
        }, time.time() - t0, violations=len(v.violations), assumptions=[
            "FLOAT/DOUBLE: strconv's shortest round-trip numeral and math.Float32bits/Float64bits of the stored Go float are taken as the stored value (TLC compares normal forms of numerals and IEEE bytes; it does not evaluate binary floating point)",
            "the stored value is the value in the engine's row (Engine.Query on the same table), projected by harness/cmd/c28/exec.go: integer bytes, decimal coefficient bytes + exponent, time.Time fields, UTF-8 bytes, JSON (path, leaf) pairs",
            "JSON numbers are compared as decimal numerals in normal form (strconv's shortest numeral of a stored float64); object member order is not significant",
            "latin1 = Windows-1252 as in MySQL; only values without U+0080..U+009F are read under character_set_results = latin1",
            "strings are at most 3000 characters: length prefixes of 1 and 3 bytes (0xfc) are exercised, 0xfd / 0xfe prefixes are not",
            "the announced length is capped at 2147483647 when recorded (LONGTEXT/LONGBLOB/JSON announce 4294967295); comparisons with text lengths are unaffected",
        ])
        return rc


def stratified(cases, n, rnd):
    """At most n cases, spread over the (type, result character set) groups: small groups entirely."""
    if n is None or len(cases) <= n:
        return list(cases)
    groups = {}
    for c in cases:
        groups.setdefault(json.dumps(c["ty"], sort_keys=True) + c["rcs"], []).append(c)
    per = max(1, n // len(groups))
    chosen, rest = [], []
    for k in sorted(groups):
        g = groups[k]
        rnd.shuffle(g)
        chosen += g[:per]
        rest += g[per:]
    rnd.shuffle(rest)
    return chosen + rest[:max(0, n - len(chosen))]


def a_class(m):
    exp, got = m["expected"], m["got"]
    if not isinstance(got, list) or not isinstance(exp, list):
        return "noresult"
    if len(got) != len(exp):
        return "len%+d" % (len(got) - len(exp))
    return "samelen"


def replay(path):
    d = json.load(open(path))
    det = d["first"]["detail"]
    binp = lib.build("c28")
    if "case" in det:            # binding A
        with lib.Scratch() as scd:
            cin = os.path.join(scd, "case.ndjson")
            lib.write_ndjson(cin, [det["case"]])
            rep = lib.run_report([binp, "-mode", "replay", "-in", cin])
            for m in rep["mismatches"]:
                print("VIOLATION property=%s replay=%s" % (PID, path))
                print(json.dumps(m)[:2000])
            return 1 if rep["mismatches"] else 0
    os.environ["VERIF_SEED"] = str(det["seed"])
    TIER[0] = det.get("tier", "quick")
    with lib.Scratch() as scd:
        trace, _ = run_driver(binp, SIZES[TIER[0]], scd, "replay", only={det["id"]})
        mms, _, _, evl = validate(trace, 50, procs=1)
        for m in mms:
            print("VIOLATION property=%s replay=%s" % (PID, path))
            print(json.dumps(describe(evl[m["line"] - 1], m))[:2500])
        return 1 if mms else 0
