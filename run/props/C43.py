"""C43 — information_schema and SHOW reflect the catalog.
Spec: spec/Catalog.tla (catalog state machine over DDL statements with MySQL preconditions;
InfoRows = the identity columns every information_schema table / SHOW statement must list).
TLC model-checks catalog invariants on a bounded model and emits random DDL behaviours (the SQL text
is built by the specification); binding A: harness/cmd/c43 executes each statement on a real engine
and after every step compares TABLES, COLUMNS, STATISTICS, KEY_COLUMN_USAGE, TABLE_CONSTRAINTS,
REFERENTIAL_CONSTRAINTS, CHECK_CONSTRAINTS, TRIGGERS, ROUTINES, VIEWS and SHOW TABLES / FULL TABLES /
COLUMNS / INDEX / TRIGGERS with TLC's InfoRows of the post-state."""
import json, os, time, concurrent.futures as cf
import lib

META = {
    "property_id": "C43",
    "level": "model_checking",
    "technique": "TLA+ spec Catalog.tla: DDL state machine (21 statement kinds with preconditions) + InfoRows projection; catalog invariants model-checked by TLC; random TLC behaviours of depth 18 replayed as SQL on the engine with all information_schema tables and SHOW statements compared with TLC's expectation after every step",
    "text": "The specification keeps the catalog of one database (tables with ordered typed columns, nullability, primary key, indexes, foreign keys, checks; views; triggers; procedures) under CREATE/DROP/RENAME TABLE, ADD (FIRST/AFTER)/DROP/MODIFY/RENAME COLUMN, CREATE/DROP [UNIQUE] INDEX, ADD/DROP PRIMARY KEY, ADD/DROP FOREIGN KEY, ADD/DROP CHECK, CREATE/DROP VIEW/TRIGGER/PROCEDURE, each succeeding exactly under its MySQL precondition and otherwise failing without effect. TLC checks on a bounded model that indexes and keys never reference missing columns, foreign keys reference existing objects of equal type, names stay unique and a failed statement changes nothing, and emits random behaviours whose statements are executed on a real engine; after every statement 10 information_schema tables and 5 SHOW statements are projected to identity columns (names, ordinals, nullability, normalised type text, key class, uniqueness, referenced objects, rules, timing/event) and compared as sets with the rows TLC derives from the post-state.",
    "note": "statements whose outcome MySQL makes depend on further state (dropping/renaming/modifying a column used by a foreign key, check or view; dropping a table a view selects from; renaming a table with triggers; ADD PRIMARY KEY on nullable columns; DROP INDEX on a table in a foreign key) are not generated; the key class of a table without primary key but with a NOT NULL unique index is unjudged; the privilege database is enabled with a root session because information_schema.TRIGGERS/ROUTINES/VIEWS are privilege-filtered; trusted: TLC, the 15 projection queries and the normalisers in harness/cmd/c43",
    "design_ref": "§7 C43",
}

PID = "C43"


def simulate(n, depth, seed, sc, tag):
    r = lib.tlc("Catalog", "Catalog_sim.cfg", workers=1, timeout=1500, simulate="num=%d" % n, depth=depth + 1, tlc_seed=seed, heap="3g")
    if r.error or r.invariant_violated:
        raise lib.Inconclusive("Catalog simulation: %s\n%s" % (r.error or r.invariant_violated, r.out[-2500:]))
    trs = r.jsons("TR")
    if len(trs) < n * depth * 0.8:
        raise lib.Inconclusive("Catalog simulation emitted only %d steps" % len(trs))
    p = os.path.join(sc, "sim-%s.ndjson" % tag)
    lib.write_ndjson(p, trs)
    return r, trs, p


def replay_file(binp, path, maxmm=60):
    return lib.run_report([binp, "-in", path, "-maxmm", str(maxmm)], timeout=1500)


def confirm(binp, mms, sc, tag):
    """Re-run every disagreement with its behaviour prefix alone, all in ONE fresh process
    (each prefix starts at step 1 = a fresh engine). Returns the confirmed ones."""
    if not mms:
        return []
    cp = os.path.join(sc, "confirm-%s.ndjson" % tag)
    last, n = [], 0
    with open(cp, "w") as f:
        for mm in mms:
            for line in mm["input"]["behaviour"]:
                f.write(json.dumps(line) + "\n")
                n += 1
            last.append(n - 1)
    rr = replay_file(binp, cp, maxmm=10 ** 6)
    got = {(x["case"], x["signature"]) for x in rr["mismatches"]}
    for mm, idx in zip(mms, last):
        if (idx, mm["signature"]) not in got:
            raise lib.Inconclusive("disagreement did not reproduce in a fresh process: %s" % mm["input"]["sql"])
    return mms


def detail(mm):
    return {"sql": mm["input"]["sql"], "history": [l["sql"] + "  -- " + l["ret"] for l in mm["input"]["behaviour"]],
            "expected": mm["expected"], "got": mm["got"], "behaviour": mm["input"]["behaviour"], "seed": lib.seed()}


def run_witnesses(binp, sc, v):
    """Witness files are recorded behaviours (TR lines, each starting at step 1); they are replayed
    together in one process and the disagreement of each must still be there."""
    fs = [f for f in lib.load_findings(PID) if f.get("witness_file")]
    if not fs:
        return 0
    allp = os.path.join(sc, "witnesses.ndjson")
    owner, n = [], 0
    with open(allp, "w") as out:
        for f in fs:
            for line in open(os.path.join(lib.VERIF, f["witness_file"])):
                if line.strip():
                    out.write(line.strip() + "\n")
                    owner.append(f["id"])
                    n += 1
    rep = replay_file(binp, allp, maxmm=10 ** 6)
    mms = confirm(binp, rep["mismatches"], sc, "w")
    hit = set()
    for mm in mms:
        d = detail(mm)
        d["witness_of"] = owner[mm["case"]]
        hit.add(owner[mm["case"]])
        v.add(mm["signature"], d)
    for f in fs:
        if f["id"] not in hit:
            lib.log("[C43] NOTE: the witness of %s no longer disagrees with the specification" % f["id"])
    return len(mms)


def model_check(cfg, workers):
    r = lib.tlc("Catalog", cfg, workers=workers, timeout=1500, heap="4g")
    lib.tlc_ok(r, "Catalog/" + cfg)
    return r


def check(tier):
    t0 = time.time()
    binp = lib.build("c43")
    v = lib.Verdict(PID)
    nsim, depth = (70, 18) if tier == "quick" else (1500, 18)
    with lib.Scratch() as sc:
        with cf.ThreadPoolExecutor(max_workers=2) as ex:
            fm = ex.submit(model_check, "Catalog_mc.cfg" if tier == "quick" else "Catalog_mcbig.cfg", 3 if tier == "quick" else 8)
            fs = ex.submit(simulate, nsim, depth, lib.seed(), sc, "main")
            nw = run_witnesses(binp, sc, v)
            rs, trs, path = fs.result()
            rep = replay_file(binp, path)
            lib.log("[C43] %d behaviours / %d statements replayed (%d set comparisons), %d disagreements, %.1fs"
                    % (rep["extra"]["behaviours"], rep["cases"], rep["extra"]["set_comparisons"], len(rep["mismatches"]), time.time() - t0))
            for mm in confirm(binp, rep["mismatches"], sc, "main"):
                v.add(mm["signature"], detail(mm))
            rm = fm.result()
        # behaviours are cut at their first disagreement: few statements without any reproduced
        # disagreement means the run explored too little (never a verdict)
        if not v.violations and (rep["cases"] < nsim * depth * 0.5 or rep["nontrivial"] < nsim * depth * 0.2):
            raise lib.Inconclusive("vacuous: %d statements replayed, %d succeeded" % (rep["cases"], rep["nontrivial"]))
        rc = v.finish()
        lib.write_evidence(PID, tier, "model_checking", {
            "states": rm.distinct, "transitions": rm.generated + len(trs),
            "traces_validated_against_impl": rep["extra"]["behaviours"],
            "samples": rep["samples"][:3] or [{"sql": t["sql"], "ret": t["ret"]} for t in trs[:3]],
            "evaluations": rep["extra"]["set_comparisons"],
            "distinct_nontrivial": rep["nontrivial"],
            "rule": "every statement of %d TLC behaviours of depth %d; after each statement 15 projections compared; non-trivial = a statement that succeeds (changes the catalog)" % (nsim, depth),
            "statements_replayed": rep["cases"], "steps_skipped_after_divergence": rep["extra"]["steps_skipped_after_divergence"],
            "by_op": rep["extra"]["by_op"], "disagreements_reproduced": len(rep["mismatches"]), "witness_disagreements": nw,
            "mc_distinct_states": rm.distinct, "mc_generated": rm.generated, "mc_wall_s": round(rm.wall, 1), "sim_wall_s": round(rs.wall, 1),
        }, time.time() - t0, violations=len(v.violations),
            assumptions=["MySQL DDL semantics: DROP COLUMN removes the column from indexes and the primary key (an emptied index is dropped); ADD FOREIGN KEY creates an index named after the constraint when the child column has no leading index; RENAME TABLE moves indexes, checks and the foreign keys that reference the table",
                         "information_schema.COLUMNS.COLUMN_KEY / SHOW COLUMNS Key follow the MySQL manual (PRI, UNI for a single-column unique index, MUL for the FIRST column of any other index)"])
        return rc


def replay(path):
    rec = json.load(open(path))
    det = rec["first"]["detail"]
    binp = lib.build("c43")
    with lib.Scratch() as sc:
        p = os.path.join(sc, "b.ndjson")
        lib.write_ndjson(p, det["behaviour"])
        rep = replay_file(binp, p)
        for mm in rep["mismatches"]:
            print("VIOLATION property=C43 replay=%s" % path)
            print(json.dumps({"signature": mm["signature"], "sql": mm["input"]["sql"], "got": mm["got"]})[:3000])
        return 1 if rep["mismatches"] else 0
