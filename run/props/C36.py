"""C36 — concurrent read-only sessions are race-free and isolated.
Spec: read-only Query actions of different sessions commute: each returns Rows(q, db) of the fixed
database (SQLSem), and at quiescence the registries show every session idle and no running query
(spec/Trace_Laws.tla, events q / quiesce).  Binding B: G goroutines, each its own session registered in
the engine's process list, run generated read-only queries simultaneously on one engine; the binary is
built with -race and GORACE=halt_on_error=1, which is how the real code is executed, not a second
technique: a race report ends the process and is a reproduced real-code failure."""
import os, re, subprocess, time, json
import lib, sqlcommon as sc

PID = "C36"
META = {
    "property_id": PID,
    "level": "exploration",
    "technique": "TLA+ SQLSem meaning of every concurrently executed read-only query over the fixed database + quiescence rule for the registries; TLC trace validation of executions recorded under the Go race detector",
    "text": "Every result produced while 8-16 sessions query one engine at the same time must be an acceptable result of the query's meaning over the fixed database (so cross-session interference through shared caches, plan caches or registries shows up as a wrong result), the process list and Threads_running must be back to idle/0 and the engine's shared MemoryManager (passed to every context as server.SessionManager does) must hold no cache of a finished query at quiescence, and the run is executed under the race detector, whose report is a failure of the 'no data races' clause.",
    "note": "Schedules are whatever the Go scheduler produces under load (sampled, not enumerated); queries shared between goroutines use identical texts to hit the same cache keys; the in-memory backend documents that concurrent writes are unsupported, so only reads run concurrently.",
}


def run_driver(binp, args, trace):
    env = lib.goenv()
    env["GORACE"] = "halt_on_error=1"
    p = subprocess.run([binp] + args + ["-out", trace], capture_output=True, text=True, env=env, timeout=2400)
    rep = None
    for line in p.stdout.splitlines():
        if line.startswith("REPORT "):
            rep = json.loads(line[7:])
    race = "DATA RACE" in p.stderr
    return rep, race, p.stderr


def race_signature(stderr):
    fr = re.findall(r"^\s+(github\.com/dolthub/go-mysql-server/[\w./*()]+)\(", stderr, re.M)
    return ">".join(dict.fromkeys(f.split("go-mysql-server/")[-1] for f in fr[:4]))


def check(tier):
    t0 = time.time()
    binp = lib.build("c36", race=True)
    v = lib.Verdict(PID)
    rounds, gor, per = (4, 8, 12) if tier == "quick" else (40, 16, 30)
    args = ["-seed", str(lib.seed()), "-rounds", str(rounds), "-goroutines", str(gor), "-queries", str(per)]
    with lib.Scratch() as scd:
        trace = os.path.join(scd, "trace.ndjson")
        rep, race, err = run_driver(binp, args, trace)
        races = 0
        if race:
            # a race is schedule dependent: re-run up to 3 times in fresh processes to confirm it
            again = sum(1 for k in range(3) if run_driver(binp, args, os.path.join(scd, "re%d.ndjson" % k))[1])
            if again == 0:
                raise lib.Inconclusive("race report did not reproduce in 3 re-runs:\n" + err[-3000:])
            races = 1
            v.add("%s|race|%s" % (PID, race_signature(err)), {"report": err[-6000:], "reproduced_in": again})
        if rep is None and not race:
            raise lib.Inconclusive("driver produced no report:\n" + err[-3000:])
        states = 0
        if rep is not None:
            mms, states = sc.validate_trace(trace, module="Trace_Laws", chunk=60)
            evs = sc.load_events(trace)
            if mms:
                # isolation: the same run again in a fresh process (same seed, new schedule)
                t2 = os.path.join(scd, "again.ndjson")
                run_driver(binp, args, t2)
                mm2, _ = sc.validate_trace(t2, module="Trace_Laws", chunk=60)
                ids2 = {sc.load_events(t2)[m["line"]]["id"] for m in mm2}
                for m in mms:
                    e = evs[m["line"]]
                    if e["id"] not in ids2:
                        raise lib.Inconclusive("concurrent mismatch did not reproduce: %s" % (e.get("sql") or e))
                    if e["ev"] == "quiesce":
                        v.add("%s|registries|running=%s busy=%s caches=%s" % (PID, e["threads_running"], e["busy"], "0" if not e.get("caches") else "leaked"), e)
                    else:
                        v.add(sc.signature(PID, e) + "|concurrent", {"sql": e["sql"], "got": e["res"], "goroutine": e["g"], "expected_rows": sc.pretty_rows(m.get("exp", []))})
        rc = v.finish()
        lib.write_evidence(PID, tier, "exploration", {
            "evaluations": rep["cases"] if rep else 0, "distinct_nontrivial": rep["nontrivial"] if rep else 0,
            "rule": "%d rounds x %d goroutines x %d read-only queries each on one engine under the race detector; non-trivial = the query returned rows; every result judged by SQLSem!ResultOK over the fixed database, registries judged at quiescence" % (rounds, gor, per),
            "samples": (rep or {}).get("samples") or ["race report before any sample"], "states": states, "race_reports": races,
        }, time.time() - t0, violations=len(v.violations))
        return rc
