"""C06 — equivalent SQL formulations return equal results.
Design half: the equivalences (IN list == disjunction, BETWEEN == pair of comparisons, ON == WHERE
for inner joins, correlated EXISTS == IN, NOT IN with NULL) are invariants of the evaluator SQLSem,
model-checked by TLC over a bounded predicate x table space (spec/MC_Query.tla).  Binding B: each pair
is generated from ONE AST by a rewriting function, both sides run on the engine, and TLC judges the
results against each other and each against its own query's meaning (spec/Trace_Laws.tla)."""
import lib, sqlcommon as sc

PID = "C06"
META = {
    "property_id": PID,
    "level": "model_checking",
    "technique": "TLA+ SQLSem evaluator: equivalence laws model-checked by TLC on a bounded space; TLC trace validation of recorded engine results of generated equivalent formulations (pairwise bag equality + each against the spec's meaning)",
    "text": "IN-list vs OR of equalities (incl. lists beyond the hash-IN threshold, as filters and as select-list values), NOT IN vs AND of <>, BETWEEN vs two comparisons, IN-subquery vs correlated EXISTS vs DISTINCT inner join, ON vs WHERE, CTE vs derived table vs inlined body, literal expression vs the same over a one-row table: every formulation is executed on the real engine and TLC decides equality of the logged bags and conformance of each with SQLSem!Rows.",
    "note": "Interpreted fragment; _ci columns excluded from the DISTINCT-join form (C07's subject); trusted: TLC, the AST rewriting functions in harness/cmd/sqlq/c06.go (each side is additionally judged against its own meaning, so a wrong rewrite shows up as a meaning-consistent pair that differs).",
}


def check(tier):
    ndb, nq = (25, 20) if tier == "quick" else (400, 30)
    extra = {}
    if tier == "thorough":
        r = lib.tlc("MC_Query", "MC_Query_laws.cfg", workers=lib.NCPU, timeout=3000, heap="8g")
        lib.tlc_ok(r, "MC_Query laws")
        extra = {"law_states": r.distinct, "law_wall_s": round(r.wall, 1)}
    gen_args = ["-mode", "c06", "-seed", str(lib.seed()), "-dbs", str(ndb), "-queries", str(nq), "-depth", "2"]
    return sc.driver_check(PID, tier, gen_args,
                           "seeded random databases x 8 kinds of equivalent formulations generated from one AST; non-trivial = the first formulation returns at least one row",
                           chunk=40 if tier == "quick" else 200, module="Trace_Laws", extra_cov=extra,
                           mc_sample=0)


def replay(path):
    return sc.replay_case(PID, path, module="Trace_Laws")
