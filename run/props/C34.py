"""C34 — built-in scalar functions satisfy their defining identities.
Spec: spec/StrFuncs.tla (reference definitions of the string functions over code-point sequences, UTF-8
byte view derived), spec/MC_StrFuncs.tla (bounded enumeration + the identities checked on the definitions),
spec/Trace_StrFuncs.tla (laws on recorded values: string identities, inverse pairs, rounding bounds).
Binding A: TLC enumerates argument tuples with the accepted results; harness/cmd/c34 executes each through
SQL (equality of canonical values only).  Binding B: seeded random longer arguments are executed and
recorded; every recorded line is judged by TLC."""
import concurrent.futures as cf
import json, os, time
import lib, fncommon as fc

PID = "C34"
META = {
    "property_id": PID,
    "level": "exploration",
    "technique": "TLA+ reference definitions (StrFuncs.tla) evaluated by TLC: bounded enumeration of argument tuples with the accepted results executed on the engine through SQL (binding A); recorded executions of random arguments judged by TLC against the defining identities, the inverse-pair laws and the rounding bounds (binding B, Trace_StrFuncs.tla)",
    "text": "For 42 string functions (CONCAT, CHAR_LENGTH, LENGTH, UPPER/LOWER, REVERSE, LEFT, RIGHT, SUBSTRING, LOCATE, INSTR, POSITION, INSERT, LPAD, RPAD, REPEAT, REPLACE, TRIM variants, SPACE, STRCMP, FIELD, ELT, FIND_IN_SET, SUBSTRING_INDEX, ASCII, ORD, CHAR and synonyms) TLC enumerates every argument tuple over strings of bounded length on the alphabet {a, b, e-acute, U+1F600, space}, integers -2..4 and NULL in every position, and the engine's value must be one the specification accepts. On random longer arguments TLC judges CHAR_LENGTH/LENGTH of CONCAT, REVERSE involution, LEFT+SUBSTRING = s, RIGHT = SUBSTRING(-n), LOCATE/INSTR/POSITION vs SUBSTRING, INSERT = LEFT+new+SUBSTRING, LPAD/RPAD length and content, REPLACE length arithmetic, TRIM, REPEAT, NULL propagation, HEX/UNHEX, TO_BASE64/FROM_BASE64 (encoding, inverse, invalid input -> NULL), CONV (digits and inverse, bases 2..36), INET_ATON/INET_NTOA, INET6_ATON/INET6_NTOA, COMPRESS/UNCOMPRESS, and ROUND/TRUNCATE/FLOOR/CEIL bounds on exact decimals as integers scaled by 10^4.",
    "note": "Partial claim (DESIGN 7 C34): literal arguments under the engine's default collation utf8mb4_0900_bin; regions the MySQL manual leaves open are accepted either way (LPAD/RPAD with negative length or an empty pad, LOCATE of '' at position length+1) or not generated (SUBSTRING_INDEX with an empty or self-overlapping delimiter, FIND_IN_SET with a comma in the needle, short-form IPv4, UNHEX of an odd number of digits, floating-point ROUND). Trusted: TLC, the SQL rendering and value re-encoding in harness/cmd/c34.",
    "design_ref": "§7 C34",
}

ASSUMPTIONS = [
    "string literals carry the engine's default collation utf8mb4_0900_bin (code-point order, NO PAD); default sql_mode",
    "a result is compared as NULL / error / integer / byte string; the character-vs-binary type of a result is not judged",
    "numeric results of ROUND/TRUNCATE/FLOOR/CEIL are read from the wire rendering of the result column as exact decimals",
]

GOT_NAMES = {"b64-invalid-null": ["bad_char", "bad_len"], "unhex-invalid-null": ["bad"], "ntoa-inverse": ["ntoa"],
             "aton-invalid-null": ["bad"], "b64-valid-decodes": ["good"]}


def sigs_b(m, row):
    """One signature per failed law of a recorded line."""
    out = []
    for law in sorted(m["bad"]):
        s = "B|%s|%s|%s" % (m["ev"], law, m["tag"])
        if law in GOT_NAMES:
            s += "|got=" + ",".join((row["r"].get(n) or {}).get("t", "-") for n in GOT_NAMES[law])
        out.append((law, s))
    return out


def detail_b(law, row):
    keep = {"ev": row["ev"], "id": row["id"], "tag": row["tag"], "in": row["in"]}
    keep["r"] = row["r"] if len(row["r"]) <= 8 else {k: v for k, v in row["r"].items()
                                                      if any(x in k for x in law.replace("-", " ").split()) or len(k) <= 5}
    keep["sql"] = {k: v for k, v in (row.get("sql") or {}).items() if k in keep["r"]}
    return {"law": law, "recorded": keep, "event": {k: row[k] for k in ("ev", "id", "tag", "in")}}


def run_b(binp, sc, n, nchunks):
    tpath = os.path.join(sc, "b.ndjson")
    grep = lib.run_report([binp, "gen", "-seed", str(lib.seed()), "-n", str(n), "-out", tpath], timeout=3000)
    rows = lib.read_ndjson(tpath)
    mm, st, states = fc.validate_rows(rows, "Trace_StrFuncs", nchunks=nchunks)
    return grep, rows, mm, st, states


def confirm_b(binp, v, rows, mm, sc, n):
    if not mm:
        return 0
    by_sig = {}
    for m in mm:
        for law, sig in sigs_b(m, rows[m["l"] - 1]):
            by_sig.setdefault(sig, []).append((law, m))
    picked = {}
    for sig, ms in by_sig.items():
        for law, m in ms[:2]:
            picked[(m["id"], law)] = sig
    ids = sorted({i for i, _ in picked})
    out = os.path.join(sc, "confirm-b.ndjson")
    lib.run_report([binp, "gen", "-seed", str(lib.seed()), "-n", str(n), "-only", ",".join(map(str, ids)), "-out", out])
    again_rows = lib.read_ndjson(out)
    again, _, _ = fc.validate_rows(again_rows, "Trace_StrFuncs", nchunks=1)
    seen = set()
    for m in again:
        for law, sig in sigs_b(m, again_rows[m["l"] - 1]):
            seen.add((m["id"], law, sig))
    for (i, law), sig in picked.items():
        if (i, law, sig) not in seen:
            raise lib.Inconclusive("recorded mismatch did not reproduce in a fresh process: id %d law %s (%s)" % (i, law, sig))
    for sig, ms in by_sig.items():
        law, m = ms[0]
        d = detail_b(law, rows[m["l"] - 1])
        d["occurrences"] = len(ms)
        d["seed"] = lib.seed()
        v.add("%s|%s" % (PID, sig), d)
    return sum(len(ms) for ms in by_sig.values())


def run_witnesses(binp, sc):
    """Replays the witness of every finding of C34: case lines through `replay`, events through `exec` +
    Trace_StrFuncs. Returns ([(finding id, signature, detail)], [finding ids])."""
    cases, evs, ids = [], [], []
    for fid, status, lines in fc.witness_files(PID):
        ids.append(fid)
        for x in lines:
            if "f" in x:
                cases.append((fid, x))
            elif "ev" in x:
                evs.append((fid, dict(x, id=len(evs) + 1)))
    out = []
    if cases:
        p = os.path.join(sc, "w-cases.ndjson")
        lib.write_ndjson(p, [c for _, c in cases])
        rep = lib.run_report([binp, "replay", "-file", p, "-keep", "100000"])
        for m in rep["mismatches"]:
            fid = cases[m["case"]][0]
            out.append((fid, "%s|%s" % (PID, m["signature"]),
                        {"witness_of": fid, "sql": m["input"]["sql"], "accepted": m["expected"], "engine": m["got"]}))
    if evs:
        pin, pout = os.path.join(sc, "w-ev.in"), os.path.join(sc, "w-ev.out")
        lib.write_ndjson(pin, [e for _, e in evs])
        lib.run_report([binp, "exec", "-in", pin, "-out", pout])
        rows = lib.read_ndjson(pout)
        mm, _, _ = fc.validate_rows(rows, "Trace_StrFuncs", nchunks=1)
        for m in mm:
            fid = evs[m["l"] - 1][0]
            for law, sig in sigs_b(m, rows[m["l"] - 1]):
                d = detail_b(law, rows[m["l"] - 1])
                d["witness_of"] = fid
                out.append((fid, "%s|%s" % (PID, sig), d))
    return out, ids


def binding_selftest(binp, cases, rows, sc):
    """DESIGN 9: flipped expectations (binding A) and corrupted recorded values (binding B) must be rejected."""
    good = [c for c in cases if c["f"] in ("concat", "reverse", "left") and c["tag"] == "ascii" and c["ok"][0]["t"] == "s"][:20]
    flipped = [dict(c, ok=[{"t": "s", "s": c["ok"][0]["s"] + [120]}], dev=[]) for c in good]
    p = os.path.join(sc, "selftest-a.ndjson")
    lib.write_ndjson(p, flipped)
    rep = lib.run_report([binp, "replay", "-file", p, "-keep", "1000"])
    na = sum(rep["extra"]["by_signature"].values())
    if not flipped or na != len(flipped):
        raise lib.Inconclusive("binding self-test A: %d of %d flipped expectations were noticed" % (na, len(flipped)))
    bad = []
    for r in [r for r in rows if r["ev"] == "conv"][:10]:
        r2 = json.loads(json.dumps(r))
        r2["r"]["back"] = {"t": "s", "s": [55, 55]}
        bad.append(r2)
    for r in [r for r in rows if r["ev"] == "round" and r["r"]["fl"]["t"] == "i"][:10]:
        r2 = json.loads(json.dumps(r))
        r2["r"]["fl"]["i"] += 10000
        bad.append(r2)
    mm, _, _ = fc.validate_rows(bad, "Trace_StrFuncs", nchunks=1)
    if not bad or len({m["l"] for m in mm}) != len(bad):
        raise lib.Inconclusive("binding self-test B: %d of %d corrupted lines were rejected" % (len(mm), len(bad)))
    return {"flipped_expectations": len(flipped), "noticed": na, "corrupted_lines": len(bad), "rejected": len(mm)}


def check(tier):
    t0 = time.time()
    binp = lib.build("c34")
    v = lib.Verdict(PID)
    quick = tier == "quick"
    nb = 1200 if quick else 24000
    with lib.Scratch() as sc:
        with cf.ThreadPoolExecutor(max_workers=4) as ex:
            f_wit = ex.submit(run_witnesses, binp, sc)
            f_enum = ex.submit(fc.dump_cases, "MC_StrFuncs", "MC_StrFuncs_quick.cfg" if quick else "MC_StrFuncs_full.cfg",
                               os.path.join(sc, "enum.ndjson"), workers=4 if quick else max(4, lib.NCPU - 4), coverage=not quick, heap="6g")
            f_sim = ex.submit(fc.dump_cases, "MC_StrFuncs", "MC_StrFuncs_sim.cfg", os.path.join(sc, "sim.ndjson"),
                              simulate=40 if quick else 400, depth=50) if quick else None
            f_b = ex.submit(run_b, binp, sc, nb, 3 if quick else max(4, lib.NCPU - 4))
            re_, cases = f_enum.result()
            rs, scases = f_sim.result() if f_sim else (None, [])
            grep, rows, mm, st, bstates = f_b.result()
            wit, wit_ids = f_wit.result()
        lib.log("[C34] TLC done %.1fs: %d enumerated cases (%d states), %d sampled cases, %d recorded lines (%d with failed laws)"
                % (time.time() - t0, len(cases), re_.distinct, len(scases), len(rows), len(mm)))
        if not quick:
            z = [a for a in re_.coverage_zero() if a not in ("SNext", "SInit")]
            if z:
                raise lib.Inconclusive("vacuous: actions never taken: %s" % z)
        if len(cases) < (30000 if quick else 250000) or (quick and len(scases) < 1000):
            raise lib.Inconclusive("too few enumerated cases: %d + %d" % (len(cases), len(scases)))
        rep_c = lib.run_report([binp, "replay", "-file", os.path.join(sc, "enum.ndjson")], timeout=3000)
        rep_s = lib.run_report([binp, "replay", "-file", os.path.join(sc, "sim.ndjson")], timeout=3000) if quick else None
        if rep_c["cases"] != len(cases) or (rep_s and rep_s["cases"] != len(scases)):
            raise lib.Inconclusive("cases dumped and replayed differ")
        nt_b = sum(1 for s in st if s["nt"])
        if len(st) != nb or nt_b < nb // 2:
            raise lib.Inconclusive("recorded lines: %d judged of %d, %d non-trivial" % (len(st), nb, nt_b))
        for fid, sig, d in wit:
            v.add(sig, d)
        for fid in wit_ids:
            if fid not in {x for x, _, _ in wit}:
                lib.log("[C34] NOTE: the witness of finding %s no longer disagrees with the specification" % fid)
        n_a = fc.confirm_cases(binp, PID, v, rep_c, sc, "c")
        if rep_s:
            n_a += fc.confirm_cases(binp, PID, v, rep_s, sc, "s")
        n_b = confirm_b(binp, v, rows, mm, sc, nb)
        selftest = binding_selftest(binp, cases, rows, sc) if not quick else None
        for x in v.violations:
            lib.log("[C34] unlisted disagreement: %s  %s" % (x["signature"], json.dumps(x["detail"], default=str)[:400]))
        rc = v.finish()
        by_sig = dict(rep_c["extra"]["by_signature"])
        for k, n in (rep_s["extra"]["by_signature"] if rep_s else {}).items():
            by_sig[k] = by_sig.get(k, 0) + n
        nt_a = rep_c["nontrivial"] + (rep_s["nontrivial"] if rep_s else 0)
        sample_b = [{k: r[k] for k in ("ev", "id", "tag", "in")} | {"r": dict(list(r["r"].items())[:6])} for r in rows[:40] if r["ev"] in ("str", "round", "conv")][:2]
        lib.write_evidence(PID, tier, "exploration", {
            "evaluations": len(cases) + len(scases) + len(st),
            "distinct_nontrivial": nt_a + nt_b,
            "rule": "binding A: every argument tuple of MC_StrFuncs (%s: 42 functions; strings of length <= %d over {a, b, U+00E9, U+1F600, space}, shorter secondary arguments, integers -2..4, NULL in every position)%s, each executed once; non-trivial (decided by TLC, field nt) = no NULL argument and (a multi-byte character, or an integer argument outside 1..CHAR_LENGTH(first string), or a fixed result other than NULL / '' / 0); distinct by SQL text. Binding B: %d seeded random lines (str x3, hex, b64, conv, inet, inet6, zip, round x2, nullarg in turn); non-trivial (decided by TLC, ST lines) = non-degenerate inputs (non-empty strings / byte strings, n >= base, a non-zero fraction). Regions the manual leaves open are accepted either way (tag murky: LPAD/RPAD negative length or empty pad, LOCATE('', s, length+1)) or not generated (see note)."
                    % ("MC_StrFuncs_quick.cfg" if quick else "MC_StrFuncs_full.cfg", 2 if quick else 3,
                       " plus %d random tuples of the length <= 3 space drawn by TLC (-simulate)" % len(scases) if quick else "", nb),
            "samples": rep_c["samples"][:3] + sample_b,
            "exhaustive": not quick,
            "states": re_.distinct + bstates, "transitions": len(cases) + len(scases),
            "traces_validated_against_impl": len(cases) + len(scases) + len(st),
            "enumerated": {"cases": len(cases), "sampled_cases": len(scases), "by_function": rep_c["extra"]["by_function"],
                           "by_tag": rep_c["extra"]["by_tag"], "tlc_wall_s": round(re_.wall + (rs.wall if rs else 0), 1),
                           "disagreements": n_a, "by_signature": by_sig, "model_laws_checked": "MC_StrFuncs!Laws on all pairs of strings of length <= 2"},
            "recorded": {"lines": len(st), "by_event": grep["extra"]["by_event"], "nontrivial": nt_b, "lines_with_failed_laws": len(mm),
                         "failed_laws": n_b},
            "witnesses": {"findings_with_witness": len(wit_ids), "still_disagreeing": len({fid for fid, _, _ in wit})},
            "binding_selftest": selftest,
        }, time.time() - t0, violations=len(v.violations), assumptions=ASSUMPTIONS)
        return rc


def replay(path):
    """Re-run a recorded violation on the current tree."""
    d = json.load(open(path))
    det = d["first"]["detail"]
    binp = lib.build("c34")
    with lib.Scratch() as sc:
        if "case" in det:
            p = os.path.join(sc, "case.ndjson")
            lib.write_ndjson(p, [det["case"]])
            rep = lib.run_report([binp, "replay", "-file", p])
            print(json.dumps(rep["mismatches"], indent=1))
            bad = bool(rep["mismatches"])
        else:
            pin, pout = os.path.join(sc, "ev.in"), os.path.join(sc, "ev.out")
            lib.write_ndjson(pin, [det["event"]])
            lib.run_report([binp, "exec", "-in", pin, "-out", pout])
            mm, _, _ = fc.validate_rows(lib.read_ndjson(pout), "Trace_StrFuncs", nchunks=1)
            print(json.dumps(mm, indent=1))
            bad = bool(mm)
    print("VIOLATION reproduced" if bad else "not reproduced on this tree")
    return 1 if bad else 0
