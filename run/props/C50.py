"""C50 — data exported with SELECT ... INTO OUTFILE loads back identically with LOAD DATA INFILE.
Spec: spec/OutfileCodec.tla (Encode / Decode of MySQL's text format), spec/MC_OutfileCodec.tla (TLC
checks Decode(Encode(r)) = r for every option set used, emits small cases), spec/Trace_Outfile.tla
(the verdict: the reloaded table equals the exported table as a bag of rows).
Binding A: TLC-drawn small cases of the model-checked enumeration are executed on the engine.
Binding B: seeded random larger tables t(VARCHAR, VARCHAR, INT) over the hostile alphabet.
Both kinds of recorded executions are judged by TLC."""
import json, os, random, threading, time
import lib, sqlcommon as sc

PID = "C50"
META = {
    "property_id": PID,
    "level": "model_checking",
    "technique": "TLA+ codec spec OutfileCodec.tla (Encode/Decode per MySQL's field and line handling rules), Decode(Encode(r)) = r model-checked by TLC over all generator option sets x small hostile tables; TLC-drawn cases (binding A) and seeded random cases (binding B) executed on the engine as INTO OUTFILE -> LOAD DATA and judged by TLC trace validation (bag equality of exported and reloaded table)",
    "text": "For every option set (FIELDS TERMINATED BY one or two characters, [OPTIONALLY] ENCLOSED BY double quote / single quote / nothing, ESCAPED BY backslash or '!', LINES STARTING BY '' or '>>', TERMINATED BY LF or CRLF) and tables whose string values contain every delimiter, both quotes, the escape characters, CR, LF, NUL, the word NULL, '' and SQL NULL, the engine exports the table with SELECT * INTO OUTFILE and loads the file into an empty copy with LOAD DATA INFILE and identical options; TLC decides that the reloaded rows equal the exported rows as a bag. The file the engine wrote is decoded with the specification's Decode only to attribute a failure to the export or the import side.",
    "note": "escape character always non-empty and different from all delimiters (MySQL itself does not round-trip otherwise); values up to 6 characters, <= 6 rows; in-memory backend, server-side files in a scratch directory; trusted: TLC, the 30-line case renderer of harness/cmd/c50 (hex literals for the data, MySQL string literals for the options).",
    "design_ref": "§7 C50",
}

SIZES = {"quick": dict(mc="MC_OutfileCodec_quick.cfg", emit="MC_OutfileCodec_emit.cfg", nsim=250, ngen=250, chunk=140),
         "thorough": dict(mc="MC_OutfileCodec_thorough.cfg", emit="MC_OutfileCodec_emitbig.cfg", nsim=4000, ngen=6000, chunk=700)}


def signature(what, side, classes, shape):
    return "C50|%s|side=%s|has=%s|enc=%s|ft=%d|lt=%d|st=%d" % (
        what, side, "+".join(sorted(classes)) or "plain", shape["enc"], shape["ft"], shape["lt"], shape["st"])


def execute(binp, cases, scd, tag):
    """Run cases in ONE fresh engine process, validate the trace with TLC. Returns (mismatches by id, events by id, states, report)."""
    cin = os.path.join(scd, "cases-%s.ndjson" % tag)
    out = os.path.join(scd, "trace-%s.ndjson" % tag)
    files = os.path.join(scd, "files-%s" % tag)
    os.makedirs(files, exist_ok=True)
    lib.write_ndjson(cin, cases)
    rep = lib.run_report([binp, "-mode", "exec", "-in", cin, "-out", out, "-dir", files], timeout=1500)
    if "hang" in rep.get("extra", {}):
        lib.log("[C50] engine hung on case %s" % rep["extra"]["hang"])
    mms, states = sc.validate_trace(out, module="Trace_Outfile", chunk=SIZES_CHUNK[0], procs=min(6, max(2, lib.NCPU // 2)))
    evs = {e["id"]: e for e in sc.load_events(out).values()}
    if len(evs) < len(cases) and "hang" not in rep.get("extra", {}):
        raise lib.Inconclusive("engine run recorded %d of %d cases" % (len(evs), len(cases)))
    by = {}
    for m in mms:
        by[m["id"]] = m
    return by, evs, states, rep


SIZES_CHUNK = [140]


def text(cps):
    return "".join(chr(c) for c in cps)


def pretty_rows(rows):
    return [[None if c["n"] else text(c["v"]) for c in r] for r in rows]


def detail(ev, m, extra=None):
    d = {"sqls": ev["sqls"], "options": {k: text(v) if isinstance(v, list) else v for k, v in ev["o"].items()},
         "exported_rows": pretty_rows(ev["orig"]), "reloaded_rows": pretty_rows(ev["reload"]),
         "file_written": text(ev["file"]), "file_decoded_by_spec": pretty_rows(m.get("decoded", [])),
         "side": m.get("side"), "load": ev["load"], "loadmsg": ev["loadmsg"], "out": ev["out"], "outmsg": ev["outmsg"],
         "case": {"id": ev["id"], "o": ev["o"], "types": ev["types"], "rows": ev["want"]}, "seed": lib.seed()}
    if extra:
        d.update(extra)
    return d


def reduce_and_confirm(binp, bad, evs, scd, v, tag):
    """Every disagreeing case is re-run in a fresh process: the whole case and, to attribute it, each
    of its lost rows as a one-row table.  Signatures come from the one-row reductions that disagree
    again; a case whose rows are all fine alone but which still disagrees as a whole keeps a
    case-level signature; a case that does not disagree again is inconclusive."""
    if not bad:
        return 0
    cases, plan, nid = [], {}, 5000000
    for cid, m in bad.items():
        ev = evs[cid]
        if m["what"] == "fixture":
            raise lib.Inconclusive("fixture problem in case %s: %s" % (cid, m.get("detail")))
        nid += 1
        whole = nid
        cases.append({"id": whole, "o": ev["o"], "types": ev["types"], "rows": ev["want"]})
        singles = []
        for idx in sorted(m.get("lostidx", [])):
            nid += 1
            singles.append(nid)
            cases.append({"id": nid, "o": ev["o"], "types": ev["types"], "rows": [ev["want"][idx - 1]]})
        plan[cid] = (whole, singles)
    by, cevs, _, _ = execute(binp, cases, scd, "confirm-" + tag)
    n = 0
    for cid, (whole, singles) in plan.items():
        if whole not in by:
            raise lib.Inconclusive("disagreement of case %s did not reproduce in a fresh process: %s" % (cid, evs[cid]["sqls"]))
        hit = [s for s in singles if s in by]
        if hit:
            for s in hit:
                m = by[s]
                cl = m["lost"][0] if m.get("lost") else []
                v.add(signature(m["what"], m["side"], cl, m["shape"]), detail(cevs[s], m, {"reduced_from_case": cid, "source": tag}))
                n += 1
        else:
            m = by[whole]
            cl = sorted({c for r in m.get("lost", []) for c in r})
            v.add(signature("multi-" + m["what"], m["side"], cl, m["shape"]), detail(cevs[whole], m, {"source": tag}))
            n += 1
    return n


def witness_cases():
    fs = [f for f in lib.load_findings(PID) if f.get("witness_file")]
    cases, owner = [], {}
    for k, f in enumerate(fs):
        for i, c in enumerate(lib.read_ndjson(os.path.join(lib.VERIF, f["witness_file"]))):
            c["id"] = 9000000 + 1000 * k + i
            owner[c["id"]] = f
            cases.append(c)
    return cases, owner


def judge_witnesses(owner, by, evs, v):
    """The recorded witnesses of the findings run with every check (same engine process as the main
    batch, they are one-row cases): each must still disagree."""
    n = 0
    for cid, f in owner.items():
        if cid in by:
            m = by.pop(cid)
            cl = sorted({c for r in m.get("lost", []) for c in r})
            v.add(signature(m["what"], m["side"], cl, m["shape"]), detail(evs[cid], m, {"witness_of": f["id"]}))
            n += 1
        elif f.get("status", "open") == "open":
            lib.log("[C50] NOTE: a witness of finding %s no longer fails (defect repaired?)" % f["id"])
    return n


def binding_selftest(binp, scd):
    """DESIGN 9: a good recorded execution must be accepted, and the same execution with one
    corrupted field (a reloaded cell) must be rejected by the trace specification."""
    case = {"id": 1, "o": {"ft": [44], "lt": [10], "enc": [34], "opt": True, "esc": [92], "st": []}, "types": ["s", "i"],
            "rows": [[{"n": False, "v": [97, 98]}, {"n": False, "v": [49]}], [{"n": True, "v": []}, {"n": False, "v": [50]}]]}
    by, evs, _, _ = execute(binp, [case], scd, "selftest")
    if by:
        raise lib.Inconclusive("binding self-test: a plain table does not round-trip: %s" % by)
    ev = dict(evs[1])
    ev["reload"] = [list(r) for r in ev["reload"]]
    ev["reload"][0][0] = {"n": False, "v": [97]}
    p = os.path.join(scd, "selftest-corrupt.ndjson")
    lib.write_ndjson(p, [ev])
    mms, _ = sc.validate_trace(p, module="Trace_Outfile", chunk=10, procs=1)
    if not mms:
        raise lib.Inconclusive("binding self-test: a corrupted trace was accepted by Trace_Outfile")


def check(tier):
    t0 = time.time()
    sz = SIZES[tier]
    SIZES_CHUNK[0] = sz["chunk"]
    binp = lib.build("c50")
    v = lib.Verdict(PID)
    with lib.Scratch() as scd:
        # 1. the model: Decode(Encode(r)) = r for every option set x small hostile table (in the background)
        box = {}

        def mc():
            try:
                box["r"] = lib.tlc("MC_OutfileCodec", sz["mc"], workers=min(8, lib.NCPU), timeout=3000, heap="6g")
            except Exception as e:  # reported below
                box["e"] = e
        th = threading.Thread(target=mc)
        th.start()
        try:
            # 2. binding A: cases drawn by TLC from the same enumeration
            rs = lib.tlc("MC_OutfileCodec", sz["emit"], workers=1, timeout=1500, simulate="num=%d" % sz["nsim"], depth=3,
                         tlc_seed=lib.seed(), heap="2g")
            if rs.error or rs.invariant_violated:
                raise lib.Inconclusive("MC_OutfileCodec simulation: %s\n%s" % (rs.error or rs.invariant_violated, rs.out[-2000:]))
            sim = rs.jsons("CASE")
            opts = rs.jsons("OPTS")
            if len(sim) < sz["nsim"] * 0.9 or not opts:
                raise lib.Inconclusive("MC_OutfileCodec emitted %d cases, %d option sets" % (len(sim), len(opts)))
            for i, c in enumerate(sim):
                c["id"] = 1000000 + i
            # 3. binding B: seeded random larger tables over the same option sets
            optp = os.path.join(scd, "opts.json")
            json.dump(opts[0], open(optp, "w"))
            genp = os.path.join(scd, "gen.ndjson")
            lib.run_report([binp, "-mode", "gen", "-seed", str(lib.seed()), "-n", str(sz["ngen"]), "-opts", optp, "-out", genp])
            gen = lib.read_ndjson(genp)
            wcases, owner = witness_cases()
            by, evs, states, rep = execute(binp, sim + gen + wcases, scd, "main")
            nw = judge_witnesses(owner, by, evs, v)
            for cid in owner:
                evs.pop(cid, None)
            lib.log("[C50] %d cases executed, %d disagree, %.1fs" % (len(evs), len(by), time.time() - t0))
            nrep = reduce_and_confirm(binp, by, evs, scd, v, "seed%d" % lib.seed())
            if tier == "thorough":
                binding_selftest(binp, scd)
        finally:
            th.join()
        if "e" in box:
            raise box["e"]
        r = lib.tlc_ok(box["r"], "MC_OutfileCodec/" + sz["mc"])
        if r.distinct < 1000:
            raise lib.Inconclusive("model enumeration too small: %d states" % r.distinct)
        if rep["nontrivial"] < len(evs) // 4:
            raise lib.Inconclusive("too few hostile cases: %d of %d" % (rep["nontrivial"], len(evs)))
        rc = v.finish()
        okcases = [e for e in evs.values() if e["id"] not in by]
        hostile_ok = sum(1 for e in okcases if any(c in (e["o"]["ft"] + e["o"]["lt"] + e["o"]["enc"] + e["o"]["esc"] + [0])
                                                   for row in e["want"] for cell in row for c in cell["v"]))
        lib.write_evidence(PID, tier, "model_checking", {
            "states": r.distinct, "transitions": r.generated,
            "traces_validated_against_impl": len(evs),
            "samples": rep["samples"][:3],
            "evaluations": len(evs), "distinct_nontrivial": rep["nontrivial"],
            "rule": "model: all %d option sets x tables of <= 2 columns x <= 2 rows over the hostile alphabet, invariant Decode(Encode(r)) = r (%s); engine: %d TLC-drawn cases of that enumeration + %d seeded random tables (VARCHAR, VARCHAR, INT; <= 6 rows; values <= 6 characters), each exported and reloaded and judged by TLC; non-trivial = some value contains a delimiter, quote, escape character or NUL of its option set (distinct cases by construction of the generators, counted by the driver)" % (len(opts[0]), sz["mc"], len(sim), len(gen)),
            "option_sets": len(opts[0]), "cases_from_tlc": len(sim), "cases_random": len(gen),
            "engine_outcomes": rep["extra"].get("outcomes"), "cases_disagreeing": len(by), "reduced_disagreements_reproduced": nrep,
            "hostile_cases_round_tripping": hostile_ok, "witness_disagreements": nw,
            "tlc_model_wall_s": round(r.wall, 1), "trace_states": states,
        }, time.time() - t0, violations=len(v.violations),
            assumptions=["the escape character is non-empty and differs from every delimiter; terminators do not start with the same character",
                         "the rows SELECTed from t before the export are the exported table (checked equal to the generated rows)"])
        return rc


def replay(path):
    d = json.load(open(path))
    case = d["first"]["detail"]["case"]
    binp = lib.build("c50")
    with lib.Scratch() as scd:
        by, evs, _, _ = execute(binp, [case], scd, "replay")
        for cid, m in by.items():
            print("VIOLATION property=%s replay=%s" % (PID, path))
            print(json.dumps(detail(evs[cid], m))[:3000])
        return 1 if by else 0
