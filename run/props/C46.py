"""C46 — index range operations preserve the set of keys they denote.
Spec: spec/Ranges.tla (cuts, column expressions, ranges, point sets over {NULL, 0, 1, 2} plus half
points; every operation specified by the point set it must denote).  Binding A: TLC enumerates /
simulates the inputs and prints, per case, the point sets the specification demands; harness/cmd/c46
builds the real ranges with the real constructors, calls the real operation and judges the real
result by membership of every key tuple (real cut comparison), sortedness and disjointness."""
import json, os, random, re, resource, shutil, subprocess, time
from concurrent.futures import ThreadPoolExecutor
import lib

META = {
    "property_id": "C46",
    "level": "model_checking",
    "technique": "TLA+ spec Ranges.tla; TLC bounded-exhaustive enumeration and simulation of range lists and of range-tree behaviours, each case printed with the point sets the specification demands; every case replayed into the real sql range code (constructors, TryIntersect/Intersect, Overlaps, TryUnion/TryMerge, Subtract, RemoveOverlap, SimplifyRangeColumn, RemoveOverlappingRanges, SortRanges, RangeCollection.Intersect, IntersectRanges, the range tree) and judged point-wise with the real cut comparison",
    "text": "TLC enumerates every range column expression over the cuts of the key domain {NULL, 0, 1, 2} (NULL its own lowest point, plus a half point in every gap so that the dense order of the implementation is judged without false alarms), all lists of up to 3 one-column ranges and all pairs (small domain: triples) of two-column ranges, simulates longer two- and three-column lists and behaviours of the interval tree, and prints for every case the set of key tuples each operation must denote. The replayer builds the real ranges, runs the real operations and requires: the result denotes exactly that set (membership of every tuple of the domain evaluated with MySQLRangeCut.Compare), results that must be sorted are sorted by MySQLRange.Compare, results that must not overlap are pairwise disjoint (MySQLRange.Overlaps and point-wise), boolean answers equal the specification's, and no operation errors, panics or fails to return.",
    "note": "Inputs of the verdict are well-formed column expressions (lower < upper, or the canonical empty expression) — what the constructors with ordered arguments and all operations produce; degenerate expressions (e.g. ClosedRangeColumnExpr(2, 0)) are enumerated for one column only and tagged. TryUnion/TryMerge may refuse; only a reported success is judged. Three open findings (known_findings.jsonl) are replayed as witnesses on every run. Trusted: TLC, the rank<->cut and point<->int8 correspondence and the membership projection in harness/cmd/c46 (validated against the spec's point sets on every input).",
    "design_ref": "§3.3 Ranges.tla, §7 C46",
}

HEAP = "4g"
AS_LIMIT = 24 << 30      # address-space cap of the replayer: a non-terminating overlap removal allocates without bound


def _limit():
    try:
        resource.setrlimit(resource.RLIMIT_AS, (AS_LIMIT, AS_LIMIT))
    except (ValueError, OSError):
        pass


def workdir(sc, name):
    d = os.path.join(sc, name)
    os.makedirs(d, exist_ok=True)
    shutil.copy(os.path.join(lib.SPEC, "Ranges.tla"), d)
    for f in os.listdir(lib.SPEC):
        if f.startswith("Ranges_") and f.endswith(".cfg"):
            shutil.copy(os.path.join(lib.SPEC, f), d)
    return d


def tlc_replay(binp, sc, name, cfg, harness_args, workers=4, timeout=900, simulate=None, depth=None,
               tlc_seed=None, coverage=False, gworkers=6):
    """Run TLC on Ranges.tla/cfg and stream its output into the replayer (TLC's own lines go to a log).
    Returns (lib.TLCResult of the log, REPORT of the replayer)."""
    d = workdir(sc, name)
    args = ["timeout", str(timeout), "tlc", "-metadir", os.path.join(d, "meta"), "-workers", str(workers), "-config", cfg]
    if simulate:
        args += ["-simulate", simulate]
    if depth:
        args += ["-depth", str(depth)]
    if tlc_seed is not None:
        args += ["-seed", str(tlc_seed)]
    if coverage:
        args += ["-coverage", "1"]
    args.append("Ranges")
    env = dict(os.environ)
    env["JAVA_TOOL_OPTIONS"] = "-Xmx%s -Xss64m" % HEAP
    logp = os.path.join(d, "tlc.log")
    t0 = time.time()
    tl = subprocess.Popen(args, cwd=d, env=env, stdout=subprocess.PIPE, stderr=subprocess.STDOUT)
    hp = subprocess.Popen([binp, "-file", "-", "-log", logp, "-workers", str(gworkers)] + harness_args,
                          stdin=tl.stdout, stdout=subprocess.PIPE, stderr=subprocess.PIPE, text=True,
                          env=lib.goenv(), preexec_fn=_limit)
    tl.stdout.close()
    try:
        out, err = hp.communicate(timeout=timeout + 120)
    except subprocess.TimeoutExpired:
        hp.kill()
        tl.kill()
        raise lib.Inconclusive("%s: replayer timed out" % name)
    try:
        tl.wait(timeout=30)
    except subprocess.TimeoutExpired:
        tl.kill()
    rep = None
    for line in out.splitlines():
        if line.startswith("REPORT "):
            rep = json.loads(line[7:])
    if rep is None:
        raise lib.Inconclusive("%s: the replayer produced no report (exit %s):\n%s" % (name, hp.returncode, (out[-800:] + err[-2500:])))
    log = open(logp, errors="replace").read() if os.path.exists(logp) else ""
    r = lib.TLCResult(log, tl.returncode, time.time() - t0)
    if tl.returncode == 124:
        r.error = "TLC timed out after %ss" % timeout
    if simulate:
        m = re.search(r"The number of states generated: (\d+)", log)
        r.generated = int(m.group(1)) if m else 0
    if not rep["extra"].get("hung"):
        if simulate:
            if r.error or "Finished in" not in log:
                raise lib.Inconclusive("%s: TLC simulation failed: %s\n%s" % (name, r.error, log[-2500:]))
        else:
            lib.tlc_ok(r, "Ranges/" + cfg)
    lib.log("[c46] %-10s %-22s cases=%d nontrivial=%d mismatches=%d tlc: %d distinct, %.1fs" % (
        name, cfg, rep["cases"], rep["nontrivial"], rep["extra"]["mismatches_total"], r.distinct, r.wall))
    return r, rep


def confirm(binp, sc, mm, n):
    """Re-run one mismatching case (or tree behaviour) alone in a fresh process; True when the same
    signature shows again."""
    p = os.path.join(sc, "confirm-%d.ndjson" % n)
    inp = mm["input"]
    args = [binp, "-file", p, "-workers", "1", "-seed", str(lib.seed())]
    if isinstance(inp, dict) and inp.get("behaviour"):
        lib.write_ndjson(p, inp["behaviour"])
        args += ["-tree", "path"]
    else:
        lib.write_ndjson(p, [inp])
    e = lib.goenv()
    pr = subprocess.run(args, capture_output=True, text=True, timeout=300, env=e, preexec_fn=_limit)
    rep = None
    for line in pr.stdout.splitlines():
        if line.startswith("REPORT "):
            rep = json.loads(line[7:])
    if rep is None:
        raise lib.Inconclusive("confirmation run produced no report:\n" + pr.stderr[-2000:])
    return rep["extra"]["by_signature"].get(mm["signature"], 0) > 0


def plan(tier, seed):
    """(name, cfg, kind, options, floor of cases). kind: bfs | sim."""
    if tier == "quick":
        return [
            ("k1all", "Ranges_k1all.cfg", "bfs", {}, 6000),
            ("k1sim", "Ranges_k1sim.cfg", "sim", {"num": 150, "depth": 6, "dedupe": True}, 500),
            ("k2pairs", "Ranges_k2q.cfg", "bfs", {}, 14000),
            ("k2sim", "Ranges_k2sim.cfg", "sim", {"num": 60, "depth": 20, "dedupe": True}, 300),
            ("k3sim", "Ranges_k3sim.cfg", "sim", {"num": 10, "depth": 12, "dedupe": True}, 30),
            ("tree1", "Ranges_tree1.cfg", "bfs", {"tree": "transitions"}, 1000),
            ("tree1sim", "Ranges_tree1sim.cfg", "sim", {"num": 20, "depth": 50, "tree": "behaviours"}, 300),
            ("tree2sim", "Ranges_tree2sim.cfg", "sim", {"num": 3, "depth": 45, "tree": "behaviours"}, 30),
        ]
    return [
        ("k1all3", "Ranges_k1all3.cfg", "bfs", {"timeout": 2400}, 530000),
        ("k1x3", "Ranges_k1x3.cfg", "bfs", {}, 10000),
        ("k2pairs", "Ranges_k2.cfg", "bfs", {"timeout": 3600}, 1800000),
        ("k2triples", "Ranges_k2x3.cfg", "bfs", {"timeout": 3600}, 1700000),
        ("k1sim", "Ranges_k1sim.cfg", "sim", {"num": 3000, "depth": 6, "dedupe": True, "timeout": 1200}, 10000),
        ("k2sim", "Ranges_k2sim.cfg", "sim", {"num": 4000, "depth": 20, "dedupe": True, "timeout": 2400}, 20000),
        ("k3sim", "Ranges_k3sim.cfg", "sim", {"num": 1500, "depth": 12, "dedupe": True, "timeout": 2400}, 4000),
        ("tree1", "Ranges_tree1.cfg", "bfs", {"tree": "transitions"}, 1000),
        ("tree1sim", "Ranges_tree1sim.cfg", "sim", {"num": 600, "depth": 80, "tree": "behaviours", "timeout": 2400}, 10000),
        ("tree2sim", "Ranges_tree2sim.cfg", "sim", {"num": 150, "depth": 60, "tree": "behaviours", "timeout": 3000}, 1500),
    ]


def check(tier):
    t0 = time.time()
    seed = lib.seed()
    binp = lib.build("c46")
    v = lib.Verdict("C46")
    runs = plan(tier, seed)
    results = {}
    with lib.Scratch() as sc:
        def one(item):
            name, cfg, kind, o, floor = item
            hargs = ["-seed", str(seed)]
            if o.get("tree"):
                hargs += ["-tree", o["tree"]]
            if o.get("dedupe"):
                hargs += ["-dedupe"]
            big = tier == "thorough" and kind == "bfs"
            kw = dict(workers=(min(lib.NCPU, 12, int(os.environ.get("VERIF_TLC_WORKERS", "64"))) if big else (1 if kind == "sim" else 3)),
                      gworkers=(8 if big else 3), timeout=o.get("timeout", 600))
            if kind == "sim":
                kw.update(simulate="num=%d" % o["num"], depth=o["depth"], tlc_seed=seed)
            else:
                kw.update(coverage=(tier == "thorough"))
            return tlc_replay(binp, sc, name, cfg, hargs, **kw)

        # the witnesses of the open findings (one tiny TLC run; the hanging one ends that replay)
        def witness():
            return tlc_replay(binp, sc, "witness", "Ranges_witness.cfg", ["-seed", str(seed)], workers=1, gworkers=3, timeout=300)
        if tier == "quick":
            with ThreadPoolExecutor(max_workers=6) as ex:
                wf = ex.submit(witness)
                for item, res in zip(runs, ex.map(one, runs)):
                    results[item[0]] = res
                wr, wrep = wf.result()
        else:
            wr, wrep = witness()
            small = [x for x in runs if not (x[2] == "bfs" and x[4] > 100000)]
            bigs = [x for x in runs if x not in small]
            with ThreadPoolExecutor(max_workers=3) as ex:
                for item, res in zip(small, ex.map(one, small)):
                    results[item[0]] = res
            for item in bigs:
                results[item[0]] = one(item)

        # vacuity guards
        for name, cfg, kind, o, floor in runs:
            r, rep = results[name]
            if rep["extra"].get("hung"):
                continue
            if rep["cases"] < floor:
                raise lib.Inconclusive("%s: only %d cases were replayed (floor %d)" % (name, rep["cases"], floor))
            if tier == "thorough" and kind == "bfs":
                z = [a for a in r.coverage_zero() if a in ("AddRce", "Build", "TInsCol", "TRem", "TSweep")
                     and (("tree" in name) == a.startswith("T"))]
                if z:
                    raise lib.Inconclusive("%s: vacuous, actions never taken: %s" % (name, z))
        wsig = wrep["extra"]["by_signature"]

        # every reported mismatch is re-run alone before it counts
        lib.log("[c46] TLC + replay done at %.0fs" % (time.time() - t0))
        allreps = [("witness", wrep)] + [(name, results[name][1]) for name, *_ in runs]
        todo = [(name, rep, mm) for name, rep in allreps for mm in rep["mismatches"]]
        with ThreadPoolExecutor(max_workers=6) as ex:
            oks = list(ex.map(lambda t: confirm(binp, sc, t[1][2], t[0]), enumerate(todo)))
        for (name, rep, mm), ok in zip(todo, oks):
            if not ok:
                raise lib.Inconclusive("%s: mismatch %s did not reproduce in isolation" % (name, mm["signature"]))
        for name, rep in allreps:
            for mm in rep["mismatches"]:
                mm["run"] = name
                mm["occurrences_of_signature_in_run"] = rep["extra"]["by_signature"].get(mm["signature"], 0)
                v.add(mm["signature"], mm)
            # signatures whose examples were cut from the report still have at least one confirmed example
            shown = {m["signature"] for m in rep["mismatches"]}
            for sig in rep["extra"]["by_signature"]:
                if sig not in shown:
                    raise lib.Inconclusive("%s: signature %s has no reported example" % (name, sig))
        lib.log("[c46] %d mismatches re-run in isolation, done at %.0fs" % (len(todo), time.time() - t0))
        rc = v.finish()
        # a finding whose witness no longer fails must be noticed (unless the run is a violation anyway)
        if rc == 0:
            for f in v.findings:
                w = (f.get("witness") or {}).get("signature")
                if w and not wsig.get(w):
                    raise lib.Inconclusive("witness of finding %s no longer fails (%s): re-examine the finding" % (f["id"], w))
        reps = [results[name][1] for name, *_ in runs]
        by_op = {}
        for rep in reps + [wrep]:
            for k, x in rep["extra"]["by_op"].items():
                by_op[k] = by_op.get(k, 0) + x
        samples = []
        for rep in reps:
            samples += rep["samples"][:1]
        per_run = {}
        for name, cfg, kind, o, floor in runs:
            r, rep = results[name]
            per_run[name] = {"cfg": cfg, "mode": ("TLC breadth-first, complete" if kind == "bfs" else "TLC -simulate num=%d depth=%d seed=%d" % (o["num"], o["depth"], seed)),
                             "tlc_distinct_states": r.distinct, "tlc_generated": r.generated, "cases_replayed": rep["cases"],
                             "nontrivial": rep["nontrivial"], "distinct_inputs": rep["extra"].get("distinct_inputs"),
                             "tlc_wall_s": round(r.wall, 1)}
        # distinct non-trivial cases: the bfs runs enumerate pairwise different spaces (K, NV, mode differ),
        # each list once; a -simulate run is counted (its own distinct inputs only) when no bfs run
        # shares its K, NV and mode, so that no case is counted twice
        def consts(cfg):
            t = open(os.path.join(lib.SPEC, cfg)).read()
            return (re.search(r"K = (\d)", t).group(1), re.search(r"NV = (\d)", t).group(1), "tree" in cfg)
        bfs_spaces = {consts(cfg) for name, cfg, kind, o, floor in runs if kind == "bfs"}
        dn = 0
        for name, cfg, kind, o, floor in runs:
            if kind == "bfs" or consts(cfg) not in bfs_spaces:
                dn += results[name][1]["nontrivial"]
        exhaustive = all(not results[n_][1]["extra"].get("hung") for n_, *_ in runs)
        lib.write_evidence("C46", tier, "model_checking", {
            "states": sum((results[name][0].distinct or results[name][0].generated) for name, *_ in runs),
            "transitions": sum(rep["cases"] for rep in reps),
            "traces_validated_against_impl": sum(rep["cases"] for rep in reps) + wrep["cases"],
            "samples": samples[:4] or [wrep["mismatches"][0]["input"]],
            "exhaustive": exhaustive,
            "evaluations": sum(by_op.values()),
            "distinct_nontrivial": dn,
            "rule": "each TLC case is one list of ranges (or one step of a range-tree behaviour) and is replayed once with every applicable operation; 'evaluations' counts operation calls judged. The bfs runs enumerate their bounded space completely (every list occurs once); the -simulate runs are seeded samples (distinct inputs counted by the replayer; states = states generated). distinct_nontrivial sums the bfs runs (pairwise different K / NV / mode, every list once) and those -simulate runs whose K, NV and mode no bfs run shares. Non-trivial = two input ranges overlap or touch in every column (tree: the inserted/removed range touches a stored one; a sweep over >= 2 stored ranges).",
            "runs": per_run,
            "operation_calls_judged": by_op,
            "tryunion_ok_fail": [sum(rep["extra"]["tryunion_ok_fail"][i] for rep in reps) for i in (0, 1)],
            "trymerge_ok_fail": [sum(rep["extra"]["trymerge_ok_fail"][i] for rep in reps) for i in (0, 1)],
            "mismatch_signatures": {name: results[name][1]["extra"]["by_signature"] for name, *_ in runs if results[name][1]["extra"]["by_signature"]},
            "witness_signatures": wsig,
            "known_findings_seen": sorted(v.known),
        }, time.time() - t0, violations=len(v.violations),
            assumptions=["column expressions of the verdict are well-formed (lower < upper) or the canonical empty expression; degenerate ones only for one column and tagged",
                         "TryUnion / TryMerge are judged only when they report success",
                         "the range tree is used under the discipline of RemoveOverlappingRanges: stored ranges are non-empty, pairwise non-overlapping and not mergeable",
                         "an operation on <= 10 tiny ranges that has not returned after 4 s (re-run alone) is counted as not terminating"])
        return rc


def replay(path):
    """python3 run/check.py C46 --replay replays/C46/<file>: re-run the recorded case on the real code."""
    rec = json.load(open(path))
    mm = rec["first"]["detail"]
    binp = lib.build("c46")
    with lib.Scratch() as sc:
        again = confirm(binp, sc, mm, 0)
    print("signature %s %s" % (mm["signature"], "REPRODUCED" if again else "did not reproduce"))
    return 1 if again else 0
