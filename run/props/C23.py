"""C23 — triggers fire exactly once per affected row, inside the statement.

Specification: spec/SQLTriggers.tla (EXTENDS SQLTables): triggers as created (timing, event, FOLLOWS / PRECEDES,
body from the templates audit / SET NEW.c = e / conditional SIGNAL), ExecOrder, and the statement semantics
per affected row: BEFORE bodies in order -> the row edit with the final NEW -> AFTER bodies in order; a failure
at any row leaves the base table AND the audit table unchanged.  spec/MC_Trig.tla model-checks OncePerRow,
OrderRespected, FailedNoEffect, SetStored for every trigger sequence of up to 3 triggers per event (all
execution orders).  spec/Trace_Trig.tla (binding B) validates recorded histories: reply kind, base table,
and the SEQUENCE of audit entries each statement added (the audit table has an AUTO_INCREMENT column).
Binding A: behaviours TLC simulates from MC_Trig (trigger set + statements) are executed by the engine."""
import json, os, time
import lib, dml2common as d2

PID = "C23"
MODULE = "Trace_Trig"
META = {
    "property_id": PID,
    "level": "model_checking",
    "technique": "TLA+ specification SQLTriggers (trigger execution order with FOLLOWS / PRECEDES and the per-row BEFORE -> edit -> AFTER semantics over the SQLTables statement semantics) model-checked for all trigger sequences of up to 3 triggers per event (OncePerRow, OrderRespected, FailedNoEffect, SetStored); TLC validates every statement of recorded engine histories (reply, base table, the exact sequence of audit entries added) and generates trigger sets and behaviours that the engine executes",
    "text": "For generated sets of BEFORE / AFTER INSERT / UPDATE / DELETE triggers (FOLLOWS / PRECEDES; bodies = BEGIN .. END blocks of audit, SET NEW.c = expr, SET @var, conditional SIGNAL and DML statements on other tables) every body runs exactly once per affected row, in the prescribed order, BEFORE bodies before and AFTER bodies after the row's edit, with the prescribed OLD / NEW values; what a BEFORE trigger assigns to NEW is what gets stored; a DML statement inside a body fires the triggers of its own table per row it writes exactly like a top-level statement, wherever it stands in the body and to depth 2; a statement that fails leaves all tables and the audit table unchanged.",
    "note": "Multi-row UPDATE / DELETE carry ORDER BY <primary key> so that the processing order (hence the audit sequence) is determined. Not generated: updates that leave a designated row unchanged, REPLACE / ON DUPLICATE KEY UPDATE / IGNORE, bodies that write the table whose statement fired them (MySQL rejects them), cyclic cascades, stored-program statements beyond the templates.",
}
RULE = ("seeded trigger sets on t1, t2, t3 (each c1 PK, c2, c3; 5-14 triggers; all six timing x event combinations; bodies = BEGIN .. END blocks of 1-3 statements "
        "from {audit, SET NEW.c, SET @cnt, conditional SIGNAL, INSERT / UPDATE / DELETE on a lower table} in every order; cascades t1 -> t2 | t3 and t2 -> t3 whose "
        "target tables carry their own BEFORE and AFTER triggers; FOLLOWS / PRECEDES an earlier trigger of the same table, timing and event) x histories of 18-27 "
        "statements on all three tables (INSERT of 1-3 rows, UPDATE / DELETE in primary-key order, key collisions, SIGNAL hits at any row and depth); "
        "the audit table is read back ordered by its AUTO_INCREMENT column after every statement. Non-trivial = the statement added audit entries.")


def make(evs):
    sch = {}
    for e in evs.values():
        if e.get("ev") == "schema":
            sch[e["h"]] = e

    EV = {"ins": "insert", "upd": "update", "del": "delete"}

    def ctx(ev):
        """Shape bookkeeping (never a verdict) over the (table, event) pairs the statement can reach (its own, and
        those of the DML statements in the bodies of reachable triggers):
        chain3    a reachable (table, timing, event) has at least three triggers of which at least two were created
                  with FOLLOWS / PRECEDES;
        innerset  a reachable trigger's BEGIN .. END body holds an INSERT / UPDATE on a table whose own BEFORE trigger of
                  that event assigns NEW, and the trigger is a BEFORE trigger or the body goes on reading OLD / NEW."""
        trigs = sch.get(ev["h"], {}).get("trigs", [])
        reach, todo = set(), [(ev["stmt"]["t"], ev["stmt"]["k"])]
        while todo:
            te = todo.pop()
            if te in reach:
                continue
            reach.add(te)
            for t in trigs:
                if (t["table"], t["event"]) == te:
                    todo += [(b["t"], EV[b["k"]]) for b in t["body"] if b["k"] in EV]
        out = set()
        for (tb, evn) in reach:
            for tm in ("before", "after"):
                g = [t for t in trigs if t["table"] == tb and t["event"] == evn and t["timing"] == tm]
                if len(g) >= 3 and sum(1 for t in g if t["rel"]) >= 2:
                    out.add("chain3")
            for p in [t for t in trigs if t["table"] == tb and t["event"] == evn]:
                for j, b in enumerate(p["body"]):
                    inner = b["k"] in ("ins", "upd") and any(q["table"] == b["t"] and q["event"] == EV[b["k"]] and q["timing"] == "before"
                                                             and any(x["k"] == "set" for x in q["body"]) for q in trigs)
                    # (a single-statement body is not a block; in an AFTER trigger only the statements after the DML are affected)
                    if inner and len(p["body"]) > 1 and (p["timing"] == "before" or any(x["k"] != "uvar" for x in p["body"][j + 1:])):
                        out.add("innerset")
        return ",".join(sorted(out))

    def sig(m, ev):
        r = ev["reply"]
        return "C23|%s|got=%s|%s|%s" % ("+".join(m["what"]), r["kind"] + (":" + r["class"] if r.get("class") else ""), ev["stmt"]["k"], ctx(ev))

    def det(m, ev):
        s = sch.get(ev["h"], {})
        return {"id": ev["id"], "history": ev["h"], "create": s.get("create"), "sql": ev.get("sql"), "reply": ev["reply"], "what": m["what"],
                "tables": d2.pretty_tabs(ev.get("post")), "audit_entries_added": d2.pretty_rows(m.get("got", [])), "cnt": ev.get("cnt"),
                "expected": {"kind": m["exp"]["kind"], "class": m["exp"]["class"], "tables": d2.pretty_tabs(m["exp"]["db"]),
                             "audit_entries": d2.pretty_rows(m["exp"]["aud"]), "cnt": m["exp"]["cnt"]},
                "tables_that_differ": m.get("badtabs"),
                "history_sql": [e["sql"] for e in evs.values() if e.get("ev") == "step" and e["h"] == ev["h"] and e["id"] <= ev["id"]]}
    return sig, det


def key(m, ev):
    return (ev["id"], tuple(m["what"]))


def judge(binp, trace, v, scd, tag, src=None, per_chunk=5, procs=5):
    sig, det = make(d2.load_events(trace))
    return d2.judge_trace(PID, binp, "c23", MODULE, trace, v, scd, sig, key, det, per_chunk=per_chunk, procs=procs, tag=tag, src=src, prefix="MG")


def canon(rows):
    return sorted(json.dumps(r, sort_keys=True) for r in rows)


def binding_a(binp, v, scd, nbeh, depth):
    cases, expect, h, ntr, kinds = [], {}, 0, 0, {}
    for evn in ("insert", "update", "delete", "casc"):
        r = lib.tlc("MC_Trig", "MC_Trig_%s_sim.cfg" % evn, workers=1, simulate="num=%d" % (nbeh * 2 if evn == "casc" else nbeh), depth=depth, tlc_seed=lib.seed(), timeout=600, heap="3g")
        if r.error:
            raise lib.Inconclusive("MC_Trig simulation (%s): %s" % (evn, r.error))
        trs, sc = r.jsons("TR"), r.jsons("SC")
        if len(trs) < 20 or not sc:
            raise lib.Inconclusive("MC_Trig simulation (%s) printed only %d transitions" % (evn, len(trs)))
        ntr += len(trs)
        for t in trs:
            if t["step"] == 1:
                h += 1
                cases.append({"ev": "schema", "h": h, "tabs": sc[0], "trigs": t["trigs"]})
            sid = h * 1000 + t["step"]
            cases.append({"ev": "step", "id": sid, "h": h, "stmt": t["stmt"]})
            expect[sid] = t
            k = "%s->%s%s" % (t["stmt"]["k"], t["kind"], ":" + t["class"] if t["class"] else "")
            kinds[k] = kinds.get(k, 0) + 1
    src = os.path.join(scd, "a-cases.ndjson")
    lib.write_ndjson(src, cases)
    out = os.path.join(scd, "a-trace.ndjson")
    rep = lib.run_report([binp, "-prop", "c23", "-mode", "exec", "-in", src, "-out", out])
    stats = judge(binp, out, v, scd, "a", src=src, per_chunk=max(1, h // 3), procs=3)
    evs = d2.load_events(out)
    flagged = {}
    if stats["mismatches"]:
        mms, _ = d2.validate(MODULE, out, per_chunk=max(1, h // 3), procs=3, prefix="MG")
        for m in mms:
            e = evs[m["line"]]
            flagged.setdefault(e["h"], e["id"])
    direct = differ = 0
    unexplained, diverged, nau, cnts = [], set(), {}, {}
    for e in evs.values():
        if e.get("ev") != "step":
            continue
        prev = nau.get(e["h"], 0)
        nau[e["h"]] = len(e["audit"])
        if e["h"] in diverged:
            continue
        t = expect[e["id"]]
        added = [row[1:] for row in e["audit"][prev:]]
        same = (all(canon(e["post"][tb]) == canon(t["post"][tb]) for tb in t["post"]) and json.dumps(added, sort_keys=True) == json.dumps(t["aud"], sort_keys=True)
                and (t["kind"] != "ok" or e["cnt"] - cnts.get(e["h"], 0) == t["cnt"]))
        cnts[e["h"]] = e["cnt"]
        direct += 1
        if not same:
            differ += 1
            diverged.add(e["h"])
            if not (e["h"] in flagged and flagged[e["h"]] <= e["id"]):
                unexplained.append(e["id"])
    if unexplained:
        raise lib.Inconclusive("binding A: the engine's tables differ from TLC's post-state at steps %s but trace validation accepted them" % unexplained[:5])
    stats.update({"behaviours": h, "transitions_simulated": ntr, "replayed": rep["cases"], "direct_compared": direct, "direct_differ": differ, "kinds": kinds,
                  "audit_statements": rep["extra"].get("statements_with_several_audit_rows", 0)})
    return stats


def check(tier):
    t0 = time.time()
    quick = tier == "quick"
    binp = lib.build("dml2")
    v = lib.Verdict(PID)
    runs = ([("MC_Trig", "MC_Trig_insert_q.cfg", {"workers": 3}), ("MC_Trig", "MC_Trig_casc_q.cfg", {"workers": 3})] if quick else
            [("MC_Trig", "MC_Trig_%s.cfg" % e, {"workers": 4, "timeout": 3000}) for e in ("insert", "update", "delete", "casc")])
    mc = d2.MC(runs)
    mc.start()
    try:
        with lib.Scratch() as scd:
            wit = WitnessesTrig(binp, scd)
            wit.start()
            nh = 16 if quick else 160
            trace, rep = d2.run_gen(binp, "c23", nh, scd, procs=3 if quick else 8)
            ex = rep["extra"]
            lib.log("[C23] %d histories, %d statements, %d fired audit triggers, trigger bodies %s, %.1fs"
                    % (nh, rep["cases"], ex.get("statements_that_fired_audit_triggers", 0), ex.get("trigger_bodies"), time.time() - t0))
            stats = judge(binp, trace, v, scd, "c", per_chunk=(nh + 3) // 4 if quick else 12, procs=4 if quick else 10)
            lib.log("[C23] validated %d events: %d disagreement(s), %d signature(s), %.1fs" % (stats["events"], stats["mismatches"], len(stats["signatures"]), time.time() - t0))
            a = binding_a(binp, v, scd, 6 if quick else 60, 10)
            lib.log("[C23] binding A: %d behaviours, %d steps replayed, %d compared directly (%d differ), %.1fs"
                    % (a["behaviours"], a["replayed"], a["direct_compared"], a["direct_differ"], time.time() - t0))
            kinds = ex.get("reply_kinds", {})
            bodies = ex.get("trigger_bodies", {})
            floors = {"statements": (rep["cases"], 300), "statements that fired audit triggers": (ex.get("statements_that_fired_audit_triggers", 0), 120),
                      "statements adding several audit entries": (ex.get("statements_with_several_audit_rows", 0), 60),
                      "triggers with FOLLOWS / PRECEDES": (ex.get("triggers_with_follows_or_precedes", 0), 8),
                      "SET NEW triggers": (sum(n for k, n in bodies.items() if k.endswith(" set")), 4),
                      "SIGNAL failures": (kinds.get("err:signal", 0), 3), "directly compared steps": (a["direct_compared"], 100),
                      "triggers whose body writes another table": (ex.get("cascading_triggers", 0), 15),
                      "body DML statements that are not the last statement": (ex.get("body_dml_statements_not_last", 0), 8),
                      "statements whose cascade fired another table's triggers": (ex.get("statements_whose_cascade_fired_other_tables_triggers", 0), 25)}
            for what, (got, floor) in floors.items():
                if got < floor and not v.violations:
                    raise lib.Inconclusive("vacuous run: %s = %d < %d" % (what, got, floor))
            nw = wit.finish(v)
            mstates = mtrans = 0
            for module, cfg, r in mc.finish():
                lib.tlc_ok(r, "MC_Trig/" + cfg)
                if r.distinct < 500:
                    raise lib.Inconclusive("MC_Trig/%s explored only %d states" % (cfg, r.distinct))
                mstates += r.distinct
                mtrans += r.generated
            rc = v.finish()
            cov = {"states": mstates + stats["states"] + a["states"], "transitions": mtrans + rep["cases"] + a["replayed"],
                   "traces_validated_against_impl": nh + a["behaviours"], "samples": rep["samples"] or [{"note": "no sample"}],
                   "evaluations": rep["cases"] + a["replayed"], "distinct_nontrivial": rep["nontrivial"], "rule": RULE,
                   "model_states": mstates, "model_transitions": mtrans, "models": [c for _, c, _ in mc.results],
                   "trigger_bodies": bodies, "triggers_with_follows_or_precedes": ex.get("triggers_with_follows_or_precedes"), "reply_kinds": kinds,
                   "statements_that_fired_audit_triggers": ex.get("statements_that_fired_audit_triggers"),
                   "cascading_triggers": ex.get("cascading_triggers"), "body_dml_statements_not_last": ex.get("body_dml_statements_not_last"),
                   "multi_statement_bodies": ex.get("multi_statement_bodies"),
                   "statements_whose_cascade_fired_other_tables_triggers": ex.get("statements_whose_cascade_fired_other_tables_triggers"),
                   "disagreements": stats["mismatches"], "confirmed_in_isolation": stats["confirmed"] + a["confirmed"],
                   "signatures": sorted(set(stats["signatures"] + a["signatures"])), "witness_mismatches": nw,
                   "binding_a": {k: a[k] for k in a if k != "signatures"}}
            lib.write_evidence(PID, tier, "model_checking", cov, time.time() - t0, violations=len(v.violations),
                               assumptions=["TLC; the SQL renderer and value normaliser in harness/lib (representation only)",
                                            "the order in which bodies ran is observed through the AUTO_INCREMENT column of the audit table",
                                            "statement shapes listed under 'not generated' in the note are outside the modelled fragment"])
            return rc
    finally:
        mc.join()


class WitnessesTrig(d2.Witnesses):
    def __init__(self, binp, scd):
        super().__init__(binp, PID, "c23", MODULE, scd, None, None, prefix="MG", prepare=self.prep)

    def prep(self, evs):
        self.signature, self.detail = make(evs)


def replay(path):
    box = {}

    def prep(evs):
        box["sig"], box["det"] = make(evs)
    return d2.replay(PID, "c23", MODULE, path, lambda m, ev: box["sig"](m, ev), lambda m, ev: box["det"](m, ev), prefix="MG", prepare=prep)
