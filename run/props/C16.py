"""C16 — indexes stay consistent with table data across histories.
Spec: there is NO index in the abstract state of spec/SQLTables.tla: a lookup through any index means
the filter over the table's rows (SQLSem!ResultOK).  After every statement of a DML/DDL history
(inserts, updates, deletes, REPLACE, TRUNCATE, CREATE INDEX, DROP INDEX) the driver issues, for every
index (primary, unique, plain; single, multi-column, prefix), equality lookups for present keys and an
absent key, a range lookup and IS NULL, each with a WHERE on exactly the indexed columns; the plan is
inspected (EXPLAIN) to count the lookups that really went through an index.  TLC validates every
lookup result against the logged table contents."""
import dmlcommon as dc

PID = "C16"
META = {
    "property_id": PID,
    "level": "model_checking",
    "technique": "TLA+ spec without indexes (SQLTables.tla + SQLSem.tla): TLC validates every index-driven lookup issued after every statement of recorded DML/DDL histories as the filter over the logged rows; bounded exhaustive model of the DML actions; TLC-generated behaviours executed with the same probes",
    "text": "After any history of inserts, updates, deletes, replaces, truncations and index creations / drops, every lookup through any index (equality on present and absent keys, range, IS NULL; primary, unique, plain, multi-column and prefix indexes) returns exactly the current rows that satisfy the lookup.",
    "note": "Only lookups whose plan contains an indexed table access count as non-trivial evidence (measured); lookups after a statement that left a table violating its own key constraints are not judged.",
}

RULE = ("seeded random schemas with 2-5 indexes per table x histories of 20-40 statements incl. CREATE/DROP INDEX and TRUNCATE; "
        "after every statement every index is probed (eq present/absent, range, IS NULL, two-column eq); each probe result validated by TLC as a filter over the logged rows.")


def check(tier):
    return dc.check(PID, tier, "c16", ["MC_Tables_keys_q.cfg"], ["MC_Tables_keys_t.cfg"], "MC_Tables_keys_dump.cfg",
                    n_quick=14, n_thorough=60, floors={"statements": 250, "changed": 80, "probes_via_index": 2000}, rule=RULE, probes=True)


def replay(path):
    return dc.replay(PID, path, probes=True)
