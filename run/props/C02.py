"""C02 — query results match the SQL definition of the query.
Spec: spec/SQLSem.tla (Rows / ResultOK).  Binding B: seeded random databases and query ASTs of the
property's grammar are rendered to SQL, run on the real engine, and every recorded result is
validated by TLC against the specification (spec/Trace_Query.tla).  Binding A: TLC enumerates small
queries x databases (spec/MC_Query.tla) which are executed by the engine and validated the same way."""
import os, time, json
import lib, sqlcommon as sc

PID = "C02"
META = {
    "property_id": PID,
    "level": "model_checking",
    "technique": "TLA+ query-meaning spec SQLSem.tla as oracle; TLC validates every recorded engine result (trace validation) and enumerates bounded query/database families whose laws it checks and whose cases are replayed on the engine",
    "text": "The meaning of the C02 grammar (3VL filters, inner/left/right/cross joins, correlated and uncorrelated EXISTS/IN/NOT IN/scalar subqueries, GROUP BY + COUNT/SUM/MIN/MAX/AVG + HAVING, DISTINCT, UNION/INTERSECT/EXCEPT [ALL], ORDER BY, LIMIT/OFFSET over INT and VARCHAR columns under _bin and _ai_ci collations) is an executable TLA+ definition; TLC decides for every executed query whether the engine's rows are an acceptable result (bag/sortedness/slice semantics, ties and unordered results left open).",
    "note": "Interpreted fragment only (DESIGN.md §3.1): int32-safe integers, strings over [0-9A-Za-z ], comparisons within one family/collation; trusted: TLC, the SQL renderer and value normaliser in harness/lib (representation only).",
}


def confirm(binp, gen_args, ev, scd):
    """Re-run one case alone in a fresh process and re-validate it."""
    out = os.path.join(scd, "confirm-%d.ndjson" % ev["id"])
    lib.run_report([binp] + gen_args + ["-only", str(ev["id"]), "-out", out])
    mms, _ = sc.validate_trace(out, chunk=1000, procs=1)
    if mms:
        # keep the isolated case (db + query events) so it can be replayed / promoted to a witness
        d = os.path.join(lib.VERIF, "replays", PID)
        os.makedirs(d, exist_ok=True)
        keep = os.path.join(d, "case-seed%d-id%d.ndjson" % (lib.seed(), ev["id"]))
        lib.shutil.copy(out, keep)
        ev["case_file"] = keep
    return len(mms) > 0


def check(tier):
    t0 = time.time()
    binp = lib.build("sqlq")
    v = lib.Verdict(PID)
    ndb, nq = (40, 25) if tier == "quick" else (600, 30)
    with lib.Scratch() as scd:
        nw = sc.run_witnesses(binp, PID, v, scd)
        trace = os.path.join(scd, "trace.ndjson")
        gen_args = ["-mode", "c02", "-seed", str(lib.seed()), "-dbs", str(ndb), "-queries", str(nq), "-depth", "2"]
        rep = lib.run_report([binp] + gen_args + ["-out", trace], timeout=3000)
        lib.log("[c02] generated %d cases in %.1fs" % (rep["cases"], time.time() - t0))
        mms, states = sc.validate_trace(trace, chunk=80 if tier == "quick" else 400)
        lib.log("[c02] validated, %d mismatches, %.1fs" % (len(mms), time.time() - t0))
        evs = sc.load_events(trace)
        for m in mms:
            ev = evs[m["line"]]
            if not confirm(binp, gen_args, ev, scd):
                raise lib.Inconclusive("mismatch did not reproduce in isolation: %s" % ev.get("sql"))
            v.add(sc.signature(PID, ev), {"sql": ev["sql"], "got": ev["res"], "expected_rows": sc.pretty_rows(m.get("exp", [])),
                                          "id": ev["id"], "seed": lib.seed(), "gen_args": gen_args, "case_file": ev.get("case_file")})
        rc = v.finish()
        lib.write_evidence(PID, tier, "model_checking", {
            "states": states, "transitions": states,
            "traces_validated_against_impl": rep["cases"],
            "samples": rep["samples"] or ["no multi-row sample"],
            "evaluations": rep["cases"], "distinct_nontrivial": rep["nontrivial"],
            "rule": "seeded random databases (2-3 tables, <=5 rows, NULLs, duplicates, random keys/indexes) x random queries of the C02 grammar, depth 2; non-trivial = the engine returned at least one row; every result validated by TLC against SQLSem!ResultOK",
            "result_kinds": rep["extra"]["result_kinds"], "mismatches_reproduced": len(mms),
            "witness_mismatches": nw,
        }, time.time() - t0, violations=len(v.violations))
        return rc


def replay(path):
    """Re-run a recorded case file (db + q events) on the current tree and re-validate it."""
    binp = lib.build("sqlq")
    if path.endswith(".json"):
        path = json.load(open(path))["first"]["detail"]["case_file"]
    with lib.Scratch() as scd:
        out = os.path.join(scd, "replay.ndjson")
        lib.run_report([binp, "-mode", "exec", "-in", path, "-out", out])
        mms, _ = sc.validate_trace(out, chunk=1000, procs=1)
        evs = sc.load_events(out)
        for m in mms:
            print("VIOLATION property=%s replay=%s" % (PID, path))
            print(json.dumps({"sql": evs[m["line"]].get("sql"), "got": evs[m["line"]].get("res"), "expected": m.get("exp")})[:2000])
        return 1 if mms else 0
