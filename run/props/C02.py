"""C02 — query results match the SQL definition of the query.
Spec: spec/SQLSem.tla (Rows / ResultOK).  Binding B: seeded random databases and query ASTs of the
property's grammar are rendered to SQL, run on the real engine, and every recorded result is
validated by TLC against the specification (spec/Trace_Query.tla)."""
import lib, sqlcommon as sc

PID = "C02"
META = {
    "property_id": PID,
    "level": "model_checking",
    "technique": "TLA+ query-meaning spec SQLSem.tla as oracle; TLC validates every recorded engine result (trace validation) and checks the design-level query laws on a bounded enumeration",
    "text": "The meaning of the C02 grammar (3VL filters, inner/left/right/cross joins, correlated and uncorrelated EXISTS/IN/NOT IN/scalar subqueries, GROUP BY + COUNT/SUM/MIN/MAX/AVG + HAVING, DISTINCT, UNION/INTERSECT/EXCEPT [ALL], ORDER BY, LIMIT/OFFSET over INT and VARCHAR columns under _bin and _ai_ci collations) is an executable TLA+ definition; TLC decides for every executed query whether the engine's rows are an acceptable result (bag/sortedness/slice semantics, ties and unordered results left open).",
    "note": "Interpreted fragment only (DESIGN.md 3.1): int32-safe integers, strings over [0-9A-Za-z ], comparisons within one family/collation; trusted: TLC, the SQL renderer and value normaliser in harness/lib (representation only).",
}


def check(tier):
    ndb, nq = (40, 25) if tier == "quick" else (600, 30)
    gen_args = ["-mode", "c02", "-seed", str(lib.seed()), "-dbs", str(ndb), "-queries", str(nq), "-depth", "2"]
    return sc.driver_check(PID, tier, gen_args,
                           "seeded random databases (2-3 tables, <=5 rows, NULLs, duplicates, random keys/indexes) x random queries of the C02 grammar, depth 2; non-trivial = the engine returned at least one row; every result validated by TLC against SQLSem!ResultOK; plus mc_cases_drawn (table, predicate) pairs drawn by TLC from the bounded enumeration MC_Query (12 query forms each), executed and validated the same way",
                           chunk=80 if tier == "quick" else 400, mc_sample=150 if tier == "quick" else 4000)


def replay(path):
    return sc.replay_case(PID, path)
