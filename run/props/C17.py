"""C17 — transactions commit or roll back exactly their own changes.

Specification: spec/SQLSession.tla (EXTENDS SQLTables): committed state, per session open / explicit /
autocommit flags and private table versions (`work`), actions Begin / Commit / Rollback / SetAutocommit /
Stmt / implicit commit on DDL, Visible(s).  spec/MC_Txn.tla: every interleaving of two sessions over one
table (finite state space, no depth bound) with NoDirtyRead, SerialEquivalence (invariants),
RollbackRestores, CommitPublishes, AutocommitEach (action properties); the counter-model Mech = "shared"
must be refuted by TLC.  spec/Trace_Txn.tla (binding B) validates recorded multi-session histories:
STRICT (every view is the one SQLSession prescribes) as long as no transactions of different sessions have
overlapped — decided by the specification itself — and WEAK (own writes + NoDirtyRead only) afterwards,
because the in-memory backend publishes whole tables at commit.  Binding A: behaviours TLC simulates from
MC_Txn are executed with real sessions and compared view by view.

Driver: harness/cmd/dml2 -prop c17 (2-3 sessions on one engine, statement-granular interleaving in one
goroutine, hook events StartTransaction / CommitTransaction / Rollback)."""
import json, os, random, time
import lib, dml2common as d2

PID = "C17"
MODULE = "Trace_Txn"
META = {
    "property_id": PID,
    "level": "model_checking",
    "technique": "TLA+ specification SQLSession (transactions over the SQLTables statement semantics) model-checked exhaustively for two sessions (MC_Txn: NoDirtyRead, SerialEquivalence, RollbackRestores, CommitPublishes, AutocommitEach); TLC validates every step of recorded multi-session engine histories (what every session sees after each statement) against it, strictly while transactions do not overlap and by NoDirtyRead / own-writes afterwards, and generates behaviours that real sessions execute",
    "text": "ROLLBACK discards exactly the changes since START TRANSACTION / BEGIN (or since the implicit start under autocommit = 0), COMMIT, a further START TRANSACTION, SET autocommit = 1 and DDL publish them, with autocommit each successful statement is committed on its own and a failed one changes nothing; no session sees another session's uncommitted changes; when transactions of different sessions do not overlap in time every session's view is the serial result.",
    "note": "Savepoints are unsupported by the backend and not generated. For overlapping transactions only NoDirtyRead and own-writes are judged (the backend publishes whole tables at commit: the later commit wins). Views are read with SELECT *; a read is never made where it would itself open a transaction in a non-overlapping history.",
}
RULE = ("seeded multi-session histories (2-3 sessions, 1-2 tables, 14-30 steps): blocks of autocommit statements, explicit transactions ended by COMMIT / "
        "ROLLBACK / a further START TRANSACTION, autocommit = 0 phases, DDL inside a transaction, stray COMMIT / ROLLBACK; 4 of 5 histories run the "
        "blocks one after another, the others interleave them; after every step the views of the sessions are read and TLC judges them. "
        "Non-trivial = the step changed what some session sees.")


def mark_ctx(evs):
    """Shape bookkeeping for signatures (never a verdict).
    afterddl / peer-afterddl: a session is `afterddl` from a DDL statement it executed inside an explicit
    transaction until it ends that transaction (COMMIT / ROLLBACK / START).
    staleidx: the statement's table has a unique / secondary index and an earlier transaction that had
    modified that table was rolled back."""
    expl, after, ac, dirty, stale, indexed = {}, {}, {}, {}, set(), set()
    for n in sorted(evs):
        e = evs[n]
        if e.get("ev") == "schema":
            expl, after, ac, dirty, stale = {}, {}, {}, {}, set()
            indexed = {t for t, tb in e["tabs"].items() if tb.get("uniq") or tb.get("idx")}
            continue
        if e.get("ev") != "step":
            continue
        x, op = e["s"], e["op"]
        if op == "ddl" and expl.get(x):
            after[x] = True
        ctx = []
        if after.get(x):
            ctx.append("afterddl")
        if any(v for y, v in after.items() if y != x):
            ctx.append("peer-afterddl")
        if op == "stmt" and e["stmt"]["t"] in stale:
            ctx.append("staleidx")
        e["_ctx"] = ",".join(ctx)
        if op == "ddl" and e["reply"]["kind"] == "ok" and e["stmt"]["k"] == "createindex":
            indexed.add(e["stmt"]["t"])
        if op == "stmt" and e["reply"]["kind"] == "ok" and (expl.get(x) or not ac.get(x, True)):
            dirty.setdefault(x, set()).add(e["stmt"]["t"])
        if op == "rollback":
            stale |= {t for t in dirty.get(x, ()) if t in indexed}
        if op in ("begin", "start"):
            expl[x] = True
            after[x] = False
            dirty[x] = set()
        elif op in ("commit", "rollback"):
            expl[x] = False
            after[x] = False
            dirty[x] = set()
        elif op == "ac":
            if e["val"] == 1:
                dirty[x] = set()
            ac[x] = e["val"] == 1


def signature(m, ev):
    k = ev["stmt"]["k"] if ev["op"] in ("stmt", "ddl") else ""
    return "C17|%s|%s|op=%s%s|%s" % (m["mode"], "+".join(m["what"]), ev["op"], ":" + k if k else "", ev.get("_ctx", ""))


def key(m, ev):
    return (ev["id"], tuple(m["what"]), m["mode"])


def detail(m, ev):
    return {"id": ev["id"], "history": ev["h"], "session": ev["s"], "sql": ev.get("sql"), "reply": ev["reply"], "what": m["what"], "mode": m["mode"],
            "hook": ev.get("hook"), "views": {str(v["s"]): d2.pretty_tabs(v["tabs"]) for v in ev.get("views", [])},
            "expected": m.get("exp"), "context": ev.get("_ctx")}


def judge(binp, trace, v, scd, tag, src=None, per_chunk=5, procs=5):
    # mark the contexts in a side table keyed by (h, id): judge_trace reloads events from the file
    evs = d2.load_events(trace)
    mark_ctx(evs)
    ctx = {(e["h"], e["id"]): e["_ctx"] for e in evs.values() if e.get("ev") == "step"}

    def sig(m, ev):
        ev["_ctx"] = ctx.get((ev["h"], ev["id"]), ev.get("_ctx", ""))
        return signature(m, ev)

    def det(m, ev):
        ev["_ctx"] = ctx.get((ev["h"], ev["id"]), ev.get("_ctx", ""))
        d = detail(m, ev)
        d["history_sql"] = ["[s%d] %s" % (e["s"], e["sql"]) for e in evs.values() if e.get("ev") == "step" and e["h"] == ev["h"] and e["id"] <= ev["id"]]
        return d
    return d2.judge_trace(PID, binp, "c17", MODULE, trace, v, scd, sig, key, det, per_chunk=per_chunk, procs=procs, tag=tag, src=src, prefix="MT")


def canon(rows):
    return sorted(json.dumps(r, sort_keys=True) for r in rows)


def binding_a(binp, v, scd, nbeh, depth):
    """TLC simulates behaviours of MC_Txn (one random successor per step); real sessions execute them."""
    r = lib.tlc("MC_Txn", "MC_Txn_sim.cfg", workers=1, simulate="num=%d" % nbeh, depth=depth, tlc_seed=lib.seed(), timeout=600, heap="3g")
    if r.error:
        raise lib.Inconclusive("MC_Txn simulation: " + r.error)
    trs, sc = r.jsons("TR"), r.jsons("SC")
    if len(trs) < 50 or not sc:
        raise lib.Inconclusive("MC_Txn simulation printed only %d transitions" % len(trs))
    cases, expect, h = [], {}, 0
    for t in trs:
        if t["step"] == 1:
            h += 1
            cases.append({"ev": "schema", "h": h, "tabs": sc[0], "autoinc": {k: 0 for k in sc[0]}, "nsess": len(t["post"]), "overlap": False})
        if t["op"] == "read":
            continue          # the driver reads after every step anyway
        sid = h * 1000 + t["step"]
        if t["op"] == "ddl":
            # the model's DDL statement is "some CREATE INDEX": every occurrence gets its own index name
            t = dict(t, stmt=dict(t["stmt"], name="x%d" % t["step"]))
        cases.append({"ev": "step", "id": sid, "h": h, "s": t["s"], "op": t["op"], "val": t["val"], "stmt": t["stmt"]})
        expect[sid] = t
    src = os.path.join(scd, "a-cases.ndjson")
    lib.write_ndjson(src, cases)
    out = os.path.join(scd, "a-trace.ndjson")
    rep = lib.run_report([binp, "-prop", "c17", "-mode", "exec", "-in", src, "-out", out])
    stats = judge(binp, out, v, scd, "a", src=src, per_chunk=max(1, h // 3), procs=3)
    # direct comparison with TLC's own post-state while no transactions have overlapped in the behaviour
    evs = d2.load_events(out)
    mark_ctx(evs)
    mms, _ = d2.validate(MODULE, out, per_chunk=max(1, h // 3), procs=3, prefix="MT") if stats["mismatches"] else ([], 0)
    flagged = {}
    for m in mms:
        e = evs[m["line"]]
        flagged.setdefault(e["h"], e["id"])
    direct = differ = 0
    unexplained = []
    reads = {}     # behaviours in which the model read inside autocommit = 0 (opens a transaction the replay does not have)
    for e in evs.values():
        if e.get("ev") != "step":
            continue
        t = expect[e["id"]]
        if t["ovl"] or e["h"] in reads:
            continue
        if not all(t["ac"]):
            reads[e["h"]] = True      # autocommit = 0 phases: who holds a transaction depends on the reads; Trace_Txn judges those
            continue
        for vw in e["views"]:
            direct += 1
            if canon(vw["tabs"]["t"]) != canon(t["post"][vw["s"] - 1]):
                differ += 1
                if not (e["h"] in flagged and flagged[e["h"]] <= e["id"]):
                    unexplained.append(e["id"])
    ops = {}
    for t in trs:
        ops[t["op"]] = ops.get(t["op"], 0) + 1
    if unexplained:
        raise lib.Inconclusive("binding A: the engine's views differ from TLC's post-state at steps %s but trace validation accepted them "
                               "(the two bindings disagree)" % unexplained[:5])
    need = {"stmt", "start", "commit", "rollback", "ac", "ddl"}
    if not need <= set(ops):
        raise lib.Inconclusive("vacuous simulation: operations %s" % sorted(ops))
    stats.update({"behaviours": h, "transitions_simulated": len(trs), "replayed": rep["cases"], "direct_compared": direct, "direct_differ": differ, "ops": ops})
    return stats


def check(tier):
    t0 = time.time()
    quick = tier == "quick"
    binp = lib.build("dml2")
    v = lib.Verdict(PID)
    runs = [("MC_Txn", "MC_Txn_q.cfg" if quick else "MC_Txn.cfg", {"workers": 3 if quick else 10, "timeout": 3000}),
            ("MC_Txn", "MC_Txn_shared.cfg", {"workers": 1})]
    mc = d2.MC(runs)
    mc.start()
    try:
        with lib.Scratch() as scd:
            wit = d2.Witnesses(binp, PID, "c17", MODULE, scd, signature, detail, prefix="MT", prepare=mark_ctx)
            wit.start()
            nh = 30 if quick else 200
            trace, rep = d2.run_gen(binp, "c17", nh, scd, procs=3 if quick else 8)
            ex = rep["extra"]
            lib.log("[C17] %d histories (%d overlapping), %d steps: %s, %.1fs" % (nh, ex.get("overlapping_histories", 0), rep["cases"], ex.get("ops"), time.time() - t0))
            stats = judge(binp, trace, v, scd, "c", per_chunk=(nh + 3) // 4 if quick else 12, procs=4 if quick else 10)
            lib.log("[C17] validated %d events: %d disagreement(s), %d signature(s), %.1fs" % (stats["events"], stats["mismatches"], len(stats["signatures"]), time.time() - t0))
            a = binding_a(binp, v, scd, 40 if quick else 300, 14)
            lib.log("[C17] binding A: %d behaviours, %d steps replayed, %d views compared directly (%d differ), %.1fs"
                    % (a["behaviours"], a["replayed"], a["direct_compared"], a["direct_differ"], time.time() - t0))
            ops, hooks = ex.get("ops", {}), ex.get("hook_events", {})
            floors = {"steps": (rep["cases"], 300), "steps that changed a view": (rep["nontrivial"], 80), "rollbacks": (ops.get("rollback", 0), 15),
                      "commits": (ops.get("commit", 0), 15), "explicit transactions": (ops.get("begin", 0) + ops.get("start", 0), 20),
                      "autocommit switches": (ops.get("ac", 0), 8), "DDL statements": (ops.get("ddl", 0), 2),
                      "Rollback hook events": (hooks.get("Rollback", 0), 15), "overlapping histories": (ex.get("overlapping_histories", 0), 2),
                      "failed statements": (sum(n for k, n in ex.get("reply_kinds", {}).items() if k.startswith("err")), 10),
                      "directly compared views": (a["direct_compared"], 100)}
            for what, (got, floor) in floors.items():
                if got < floor and not v.violations:      # (a reproduced disagreement is a verdict even in a thin run)
                    raise lib.Inconclusive("vacuous run: %s = %d < %d" % (what, got, floor))
            nw = wit.finish(v)
            mstates = mtrans = 0
            refuted = False
            for module, cfg, r in mc.finish():
                if cfg == "MC_Txn_shared.cfg":
                    if r.error or not (r.invariant_violated or r.action_prop_violated):
                        raise lib.Inconclusive("MC_Txn/%s: TLC did not refute the shared-object counter-model\n%s" % (cfg, r.out[-1500:]))
                    refuted = True
                    continue
                lib.tlc_ok(r, "MC_Txn/" + cfg)
                if r.distinct < 5000:
                    raise lib.Inconclusive("MC_Txn/%s explored only %d states" % (cfg, r.distinct))
                mstates += r.distinct
                mtrans += r.generated
            rc = v.finish()
            cov = {"states": mstates + stats["states"] + a["states"], "transitions": mtrans + rep["cases"] + a["replayed"],
                   "traces_validated_against_impl": nh + a["behaviours"], "samples": rep["samples"] or [{"note": "no sample"}],
                   "evaluations": rep["cases"] + a["replayed"], "distinct_nontrivial": rep["nontrivial"], "rule": RULE,
                   "model_states": mstates, "model_transitions": mtrans, "models": [c for _, c, _ in mc.results],
                   "shared_object_counter_model_refuted": refuted, "operations": ops, "hook_events": hooks, "reply_kinds": ex.get("reply_kinds"),
                   "overlapping_histories": ex.get("overlapping_histories"), "disagreements": stats["mismatches"],
                   "confirmed_in_isolation": stats["confirmed"] + a["confirmed"], "signatures": sorted(set(stats["signatures"] + a["signatures"])),
                   "witness_mismatches": nw, "binding_a": {k: a[k] for k in a if k != "signatures"}}
            lib.write_evidence(PID, tier, "model_checking", cov, time.time() - t0, violations=len(v.violations),
                               assumptions=["TLC; the SQL renderer and value normaliser in harness/lib (representation only)",
                                            "sessions are driven from one goroutine, statement-granular interleaving (the backend documents no concurrent writers)",
                                            "serial equivalence is judged only while transactions of different sessions have not overlapped in time (decided by the specification from the recorded steps)"])
            return rc
    finally:
        mc.join()


def replay(path):
    return d2.replay(PID, "c17", MODULE, path, signature, detail, prefix="MT", prepare=mark_ctx)
