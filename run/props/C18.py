"""C18 — foreign keys keep referential integrity.

Specification: spec/SQLForeignKeys.tla (EXTENDS SQLTables): the foreign-key graph in the catalog, MATCH SIMPLE
child checks, ON DELETE / ON UPDATE RESTRICT | NO ACTION | CASCADE | SET NULL as a recursive operator that
visits every (table,row) once (multi-level chains, diamonds, self references), the foreign_key_checks flag,
and "a statement that violates a key fails without effect on any table".  spec/MC_FK.tla model-checks
RefIntegrity, key uniqueness and FailedNoEffect on bounded chain / diamond / self-reference graphs for
every assignment of actions.  spec/Trace_FK.tla (binding B) validates recorded histories: reply kind and
the contents of ALL tables after every statement, plus RefIntegrity evaluated on the logged tables.
Binding A: behaviours TLC simulates from MC_FK are executed by the engine and compared table by table."""
import json, os, time
import lib, dml2common as d2

PID = "C18"
MODULE = "Trace_FK"
META = {
    "property_id": PID,
    "level": "model_checking",
    "technique": "TLA+ specification SQLForeignKeys (foreign-key checks and referential actions as a recursive cascade over the SQLTables statement semantics) model-checked on bounded chain / diamond / self-reference graphs for all action assignments (RefIntegrity, FailedNoEffect); TLC validates every statement of recorded engine histories (reply and contents of all tables, RefIntegrity on the logged tables) and generates behaviours that the engine executes",
    "text": "With foreign_key_checks on, after every statement of a DML history over a generated foreign-key graph (chains, diamonds, self references, composite keys; RESTRICT / NO ACTION / CASCADE / SET NULL) the contents of all tables are those the specification prescribes: child inserts / updates with a non-NULL key without parent fail, parent deletes / key updates make exactly the prescribed child changes (recursively), a violating statement fails without effect, and every non-NULL child key of the logged tables has a parent row; with foreign_key_checks off nothing is checked or cascaded.",
    "note": "Left open by the specification: which of several applicable errors is reported; DELETE under RESTRICT whose only referencing rows are deleted by the same statement (order dependent). Not generated: REPLACE / ON DUPLICATE KEY UPDATE / IGNORE on tables with foreign keys, TRUNCATE of referenced tables, ON UPDATE CASCADE / SET NULL on self-referencing keys, SET DEFAULT.",
}
RULE = ("seeded foreign-key graphs (chain of 3 / 4 tables, diamond, self reference, self reference + child, composite key) with random ON DELETE / ON UPDATE "
        "actions x histories of 35-55 statements (single / multi-row INSERT, DELETE by key / range / all / LIMIT, UPDATE of primary keys and of foreign-key "
        "columns, SET foreign_key_checks = 0 / 1 in the second half); all tables read back after every statement. Non-trivial = the statement changed some table.")


def selfacts(ev, sch):
    t = ev["stmt"]["t"]
    out = []
    for f in sch.get("fks", []):
        if f["child"] == f["parent"] == t:
            out.append("self" + f["ondel"] if ev["stmt"]["k"] == "delete" else "selfupd" + f["onupd"])
    return out


def make_sig(evs):
    sch = {}
    for e in evs.values():
        if e.get("ev") == "schema":
            sch[e["h"]] = e

    # shape bookkeeping (never a verdict): `staleidx` marks the steps of a history that come after a statement
    # which FAILED while its foreign-key work was under way (a failed DELETE / UPDATE, or a failed multi-row
    # INSERT into a self-referencing table): the indexes of the foreign-key columns are corrupt from then on
    stale, suspect = {}, {}
    for n in sorted(evs):
        e = evs[n]
        if e.get("ev") == "schema":
            suspect[e["h"]] = False
        elif e.get("ev") == "step":
            stale[(e["h"], e["id"])] = suspect.get(e["h"], False)
            if e.get("op") == "stmt" and e["reply"]["kind"] == "err":
                st, fks = e["stmt"], sch.get(e["h"], {}).get("fks", [])
                selfref = any(f["child"] == f["parent"] == st["t"] for f in fks)
                if st["k"] in ("delete", "update") or (st["k"] == "insert" and len(st["rows"]) >= 2 and selfref):
                    suspect[e["h"]] = True

    def sig(m, ev):
        s = sch.get(ev["h"], {})
        ctx = selfacts(ev, s) if ev.get("op") == "stmt" else []
        if stale.get((ev["h"], ev["id"])):
            ctx.append("staleidx")
        r = ev["reply"]
        return "C18|%s|got=%s|%s|%s|%s" % ("+".join(m["what"]), r["kind"] + (":" + r["class"] if r.get("class") else ""),
                                          ev["stmt"]["k"] if ev.get("op") == "stmt" else ev.get("op"), s.get("graph", ""), ",".join(ctx))

    def det(m, ev):
        s = sch.get(ev["h"], {})
        return {"id": ev["id"], "history": ev["h"], "graph": s.get("graph"), "fks": s.get("fks"), "create": s.get("create"), "sql": ev.get("sql"),
                "reply": ev["reply"], "what": m["what"], "foreign_key_checks": m.get("fkc"),
                "pre": d2.pretty_tabs(ev.get("pre")), "post": d2.pretty_tabs(ev.get("post")),
                "allowed": [{"kind": x["kind"], "class": x["class"], "tables": d2.pretty_tabs(x["rows"])} for x in m.get("exp", [])[:3]],
                "history_sql": [e["sql"] for e in evs.values() if e.get("ev") == "step" and e["h"] == ev["h"] and e["id"] <= ev["id"]]}
    return sig, det


def key(m, ev):
    return (ev["id"], tuple(m["what"]))


def judge(binp, trace, v, scd, tag, src=None, per_chunk=5, procs=5):
    sig, det = make_sig(d2.load_events(trace))
    return d2.judge_trace(PID, binp, "c18", MODULE, trace, v, scd, sig, key, det, per_chunk=per_chunk, procs=procs, tag=tag, src=src, prefix="MK")


def canon(rows):
    return sorted(json.dumps(r, sort_keys=True) for r in rows)


def binding_a(binp, v, scd, nbeh, depth, graphs):
    """TLC simulates behaviours of MC_FK (one random successor per step); the engine executes them."""
    cases, expect, h, ntr, kinds = [], {}, 0, 0, {}
    for g in graphs:
        r = lib.tlc("MC_FK", "MC_FK_%s_sim.cfg" % g, workers=1, simulate="num=%d" % nbeh, depth=depth, tlc_seed=lib.seed(), timeout=600, heap="3g")
        if r.error:
            raise lib.Inconclusive("MC_FK simulation (%s): %s" % (g, r.error))
        trs, sc = r.jsons("TR"), r.jsons("SC")
        if len(trs) < 30 or not sc:
            raise lib.Inconclusive("MC_FK simulation (%s) printed only %d transitions" % (g, len(trs)))
        ntr += len(trs)
        for t in trs:
            if t["step"] == 1:
                h += 1
                cases.append({"ev": "schema", "h": h, "graph": "mc-" + g, "tabs": sc[0], "autoinc": {k: 0 for k in sc[0]}, "fks": t["fks"]})
            sid = h * 1000 + t["step"]
            st = t["stmt"]
            if st["k"] == "fkc":
                cases.append({"ev": "step", "id": sid, "h": h, "op": "fkc", "val": st["n"], "stmt": dict(st, k="", n=0)})
            else:
                cases.append({"ev": "step", "id": sid, "h": h, "op": "stmt", "val": 0, "stmt": st})
            expect[sid] = t
            k = "%s->%s%s" % (st["k"], t["kind"], ":" + t["class"] if t["class"] else "")
            kinds[k] = kinds.get(k, 0) + 1
    src = os.path.join(scd, "a-cases.ndjson")
    lib.write_ndjson(src, cases)
    out = os.path.join(scd, "a-trace.ndjson")
    rep = lib.run_report([binp, "-prop", "c18", "-mode", "exec", "-in", src, "-out", out])
    stats = judge(binp, out, v, scd, "a", src=src, per_chunk=max(1, h // 3), procs=3)
    evs = d2.load_events(out)
    flagged = {}
    if stats["mismatches"]:
        mms, _ = d2.validate(MODULE, out, per_chunk=max(1, h // 3), procs=3, prefix="MK")
        for m in mms:
            e = evs[m["line"]]
            flagged.setdefault(e["h"], e["id"])
    direct = differ = 0
    unexplained, diverged = [], set()
    for e in evs.values():
        if e.get("ev") != "step" or e["h"] in diverged:
            continue
        t = expect[e["id"]]
        same = all(canon(e["post"][tb]) == canon(t["post"][tb]) for tb in t["post"])
        if t["nout"] == 1:
            direct += 1
            if not same:
                differ += 1
                if not (e["h"] in flagged and flagged[e["h"]] <= e["id"]):
                    unexplained.append(e["id"])
        if not same:
            diverged.add(e["h"])
    if unexplained:
        raise lib.Inconclusive("binding A: the engine's tables differ from TLC's single allowed post-state at steps %s but trace validation accepted them" % unexplained[:5])
    if not any("->err:fk" in k for k in kinds) or not any(k.startswith("delete->ok") for k in kinds):
        raise lib.Inconclusive("vacuous simulation: %s" % sorted(kinds))
    stats.update({"behaviours": h, "transitions_simulated": ntr, "replayed": rep["cases"], "direct_compared": direct, "direct_differ": differ, "kinds": kinds})
    return stats


def check(tier):
    t0 = time.time()
    quick = tier == "quick"
    binp = lib.build("dml2")
    v = lib.Verdict(PID)
    runs = ([("MC_FK", "MC_FK_chain_q.cfg", {"workers": 3}), ("MC_FK", "MC_FK_self_q.cfg", {"workers": 2})] if quick else
            [("MC_FK", "MC_FK_chain.cfg", {"workers": 6, "timeout": 3000}), ("MC_FK", "MC_FK_self_q.cfg", {"workers": 2}),
             ("MC_FK", "MC_FK_diamond.cfg", {"workers": 6, "timeout": 3000})])
    mc = d2.MC(runs)
    mc.start()
    try:
        with lib.Scratch() as scd:
            sigw, detw = make_sig({})
            wit = WitnessesFK(binp, scd)
            wit.start()
            nh = 18 if quick else 150
            trace, rep = d2.run_gen(binp, "c18", nh, scd, procs=3 if quick else 8)
            ex = rep["extra"]
            lib.log("[C18] %d histories, %d statements, graphs %s, %d statements changed several tables, %.1fs"
                    % (nh, rep["cases"], ex.get("graphs"), ex.get("statements_changing_several_tables", 0), time.time() - t0))
            stats = judge(binp, trace, v, scd, "c", per_chunk=(nh + 3) // 4 if quick else 10, procs=4 if quick else 10)
            lib.log("[C18] validated %d events: %d disagreement(s), %d signature(s), %.1fs" % (stats["events"], stats["mismatches"], len(stats["signatures"]), time.time() - t0))
            a = binding_a(binp, v, scd, 12 if quick else 80, 16, ["chain", "self", "diamond"])
            lib.log("[C18] binding A: %d behaviours, %d steps replayed, %d compared directly (%d differ), %.1fs"
                    % (a["behaviours"], a["replayed"], a["direct_compared"], a["direct_differ"], time.time() - t0))
            kinds = ex.get("reply_kinds", {})
            floors = {"statements": (rep["cases"], 500), "statements that changed a table": (rep["nontrivial"], 150),
                      "statements that changed several tables (cascades)": (ex.get("statements_changing_several_tables", 0), 10),
                      "foreign-key failures": (kinds.get("err:fk", 0), 40), "graph shapes": (len(ex.get("graphs", {})), 4),
                      "directly compared steps": (a["direct_compared"], 200)}
            for what, (got, floor) in floors.items():
                if got < floor and not v.violations:
                    raise lib.Inconclusive("vacuous run: %s = %d < %d" % (what, got, floor))
            nw = wit.finish(v)
            mstates = mtrans = 0
            for module, cfg, r in mc.finish():
                lib.tlc_ok(r, "MC_FK/" + cfg)
                if r.distinct < 200:
                    raise lib.Inconclusive("MC_FK/%s explored only %d states" % (cfg, r.distinct))
                mstates += r.distinct
                mtrans += r.generated
            rc = v.finish()
            cov = {"states": mstates + stats["states"] + a["states"], "transitions": mtrans + rep["cases"] + a["replayed"],
                   "traces_validated_against_impl": nh + a["behaviours"], "samples": rep["samples"] or [{"note": "no sample"}],
                   "evaluations": rep["cases"] + a["replayed"], "distinct_nontrivial": rep["nontrivial"], "rule": RULE,
                   "model_states": mstates, "model_transitions": mtrans, "models": [c for _, c, _ in mc.results],
                   "graphs": ex.get("graphs"), "actions": ex.get("actions"), "reply_kinds": kinds,
                   "statements_changing_several_tables": ex.get("statements_changing_several_tables"),
                   "disagreements": stats["mismatches"], "confirmed_in_isolation": stats["confirmed"] + a["confirmed"],
                   "signatures": sorted(set(stats["signatures"] + a["signatures"])), "witness_mismatches": nw,
                   "binding_a": {k: a[k] for k in a if k != "signatures"}}
            lib.write_evidence(PID, tier, "model_checking", cov, time.time() - t0, violations=len(v.violations),
                               assumptions=["TLC; the SQL renderer and value normaliser in harness/lib (representation only)",
                                            "foreign-key columns are INT; keys and values range over 0..4",
                                            "statement shapes listed under 'not generated' in the note are outside the modelled fragment"])
            return rc
    finally:
        mc.join()


class WitnessesFK(d2.Witnesses):
    """The signature needs the schema of the witness history: built from the executed witness file."""

    def __init__(self, binp, scd):
        super().__init__(binp, PID, "c18", MODULE, scd, None, None, prefix="MK", prepare=self.prep)

    def prep(self, evs):
        self.signature, self.detail = make_sig(evs)


def replay(path):
    box = {}

    def prep(evs):
        box["sig"], box["det"] = make_sig(evs)
    return d2.replay(PID, "c18", MODULE, path, lambda m, ev: box["sig"](m, ev), lambda m, ev: box["det"](m, ev), prefix="MK", prepare=prep)
