"""C24 — stored procedures follow structured-program semantics.
Spec: spec/ProcMachine.tla (structured semantics RunS; Compile + RunM, the op-code machine written from
sql/procedures/parse.go and interpreter_logic.go, as coded and repaired), spec/MC_Proc.tla (design theorem
"repaired machine == structured semantics" over a bounded grammar; program source of binding A),
spec/Trace_Proc.tla (binding B).

Binding A: TLC draws / enumerates programs, checks the theorem on each and emits the program with the
structured expectation and the as-coded machine's prediction; harness/cmd/c24 renders CREATE PROCEDURE +
CALL on a fresh engine and records OUT/INOUT user variables, the last result set, the log table and the
error class; expectation and record are compared for equality (canonical JSON).
Binding B: a seeded Go generator produces larger bodies (nesting <= 4, <= 12 nodes, nested handlers);
every recorded outcome is validated by TLC (Trace_Proc) against the structured semantics."""
import json, os, random, time, concurrent.futures as cf
import lib, sqlcommon as sc

PID = "C24"
META = {
    "property_id": PID,
    "level": "model_checking",
    "technique": "TLA+ spec ProcMachine.tla with two layers (structured big-step semantics of the procedure body language; the compiled op-code machine read off sql/procedures, as coded and repaired); TLC checks the compile-agrees theorem on a bounded grammar, its enumerated/sampled programs are executed on the real engine (binding A) and recorded executions of generated programs are validated by TLC (binding B)",
    "text": "For procedure bodies built from BEGIN..END blocks with DECLARE (scoping, shadowing), SET, IF/ELSEIF/ELSE, simple and searched CASE (case-not-found error), WHILE, REPEAT, LOOP with labels, LEAVE, ITERATE, CONTINUE/EXIT handlers for SQLEXCEPTION and NOT FOUND, SIGNAL, a duplicate-key insert, INSERT INTO log and SELECT over IN/OUT/INOUT integer parameters with NULLs, CALL yields the OUT/INOUT user variables, the (last) result set, the log-table row sequence and the error class that the structured semantics defines. TLC proves on the bounded grammar that the repaired compilation scheme (label resolution, scope push/pop across Goto, handler search and EXIT) agrees with the structured semantics; the engine is compared with the structured semantics on every emitted program, and each disagreement is classified by TLC as one of the modelled deviations of the code (recorded findings) or as unexplained (violation).",
    "note": "The engine returns only the last result set of a CALL (documented in rowexec/proc.go), so result sets are compared through that projection; DECLARE ... HANDLER FOR SQLSTATE is rejected by the engine as unsupported syntax and is outside the grammar; handler statements are SET statements in generated programs (other forms are recorded findings with witnesses); values stay within +-10000 and loops within 3 iterations per loop instance, runs leaving the bounds are excluded by TLC. Trusted: TLC, the SQL renderer and outcome recorder in harness/cmd/c24 (representation only), the message->SQLSTATE-class table (3 entries).",
    "design_ref": "§7 C24",
}

LONG_TMO = 90000      # ms wall clock; the effective hang criterion is the harness's CPU-time budget (3 s per case)
HANG_TMO = 20000      # ms wall clock for a case the as-coded machine predicts to hang


def canon(x):
    return json.dumps(x, sort_keys=True, separators=(",", ":"))


def signature(ev, coded, mtags, got, exp):
    if coded:
        return "C24|coded|" + ",".join(sorted(mtags))
    return "C24|unexplained|%s|got=%s|exp=%s" % (",".join(ev.get("tags") or []), got.get("err"), exp.get("err"))


def execute(binp, cases_path, out_path, only=None, par=None, timeout=LONG_TMO, maxhang=60):
    args = [binp, "-mode", "exec", "-in", cases_path, "-out", out_path, "-par", str(par or max(2, min(4, lib.NCPU // 3))),
            "-timeout", str(timeout), "-maxhang", str(maxhang)]
    if only:
        args += ["-only", ",".join(map(str, only))]
    rep = lib.run_report(args, timeout=7200)
    return rep, lib.read_ndjson(out_path)


# ---------------------------------------------------------------- binding A

def tlc_cases(r, what):
    if r.error or not r.completed:
        raise lib.Inconclusive("%s: %s\n%s" % (what, r.error or "TLC did not complete", r.out[-2500:]))
    if r.invariant_violated:
        # the design theorem itself fails: a model-only counterexample, never a verdict about the code
        raise lib.Inconclusive("%s: the repaired machine disagrees with the structured semantics (invariant %s); the specification needs repair\n%s"
                               % (what, r.invariant_violated, r.out[-3000:]))
    return r.jsons("CASE")


KINDS = {"block", "set", "ins", "sel", "dup", "sig", "if", "case", "while", "repeat", "loop", "leave", "iter"}


def kinds_of(s, acc):
    """Statement kinds occurring in a program (coverage accounting only)."""
    acc.add(s["k"])
    for sub in s.get("body", []) + s.get("els", []):
        kinds_of(sub, acc)
    for a in s.get("arms", []):
        for sub in a["body"]:
            kinds_of(sub, acc)
    for h in s.get("hs", []):
        acc.add("handler-" + h["act"])
    return acc


def binding_a(binp, v, scd, tag, raw, id_base, max_hang_cases, rnd, max_cases=None):
    """Execute TLC-emitted programs and compare with the emitted expectation. Returns stats."""
    n_emitted = len(raw)
    excl = sum(1 for c in raw if c["excl"] or c.get("mexcl"))
    cases, hang_pred, seen = [], 0, set()
    raw = lib.sample([c for c in raw if not (c["excl"] or c.get("mexcl"))], max_cases, rnd)
    for c in raw:
        if c["excl"] or c["mexcl"]:      # outside the bounds for the structured run or for the as-coded machine
            continue
        key = canon(c["prog"])
        if key in seen:
            continue
        seen.add(key)
        pred_hang = c["mach"]["err"] == "hang"
        if pred_hang:
            hang_pred += 1
            if hang_pred > max_hang_cases:
                continue
        cases.append({"ev": "p", "id": id_base + len(cases) + 1, "prog": c["prog"], "exp": c["exp"], "mach": c["mach"],
                      "mtags": sorted(c["tags"]), "nt": c["nt"], "tags": [], "tmo": HANG_TMO if pred_hang else 0})
    path = os.path.join(scd, "a-%s-cases.ndjson" % tag)
    lib.write_ndjson(path, cases)
    rep, res = execute(binp, path, os.path.join(scd, "a-%s-trace.ndjson" % tag))
    bad, drift = [], 0
    for c in res:
        g, e, m = canon(c["got"]), canon(c["exp"]), canon(c["mach"])
        if g != e:
            bad.append(c)
        elif m != e:
            drift += 1          # the as-coded machine predicts a deviation the engine does not show
    # isolation re-run: only the disagreeing cases, fresh processes
    again = {}
    if bad:
        _, res2 = execute(binp, path, os.path.join(scd, "a-%s-confirm.ndjson" % tag), only=[c["id"] for c in bad], par=3)
        again = {c["id"]: c for c in res2}
    for c in bad:
        c2 = again.get(c["id"])
        if c2 is None or canon(c2["got"]) != canon(c["got"]):
            raise lib.Inconclusive("binding A (%s): disagreement did not reproduce in isolation: %s\n first %s\n again %s"
                                   % (tag, c["sql"], canon(c["got"]), canon(c2["got"]) if c2 else None))
        coded = canon(c["got"]) == canon(c["mach"])
        detail = {"sql": c["sql"], "args": c["prog"]["args"], "got": c["got"], "expected": c["exp"], "machine_as_coded": c["mach"],
                  "machine_tags": c["mtags"], "raw": c.get("raw"), "case_file": None, "binding": "A/" + tag, "seed": lib.seed()}
        if v.add(signature(c, coded, c["mtags"], c["got"], c["exp"]), detail) == "violation":
            detail["case_file"] = save_case(c, "a-%s" % tag)
    if rep["extra"].get("skipped"):      # after the executed cases were judged: a violation found there still counts
        raise lib.Inconclusive("binding A (%s): %d cases skipped after too many hangs/crashes: %s" % (tag, rep["extra"]["skipped"], rep["extra"]))
    nt = sum(1 for c in res if c["nt"])
    samples = [{"sql": c["sql"], "args": c["prog"]["args"], "got": c["got"]} for c in res if c["nt"] and canon(c["got"]) == canon(c["exp"])][:2]
    kinds = set()
    for c in res:
        kinds_of(c["prog"]["body"], kinds)
    return {"emitted": n_emitted, "excluded": excl, "executed": len(res), "nontrivial": nt, "mismatches": len(bad), "kinds": sorted(kinds),
            "coded": sum(1 for c in bad if canon(c["got"]) == canon(c["mach"])), "model_drift": drift,
            "predicted_hang": hang_pred, "samples": samples, "outcomes": rep["extra"].get("outcomes")}


def save_case(c, tag):
    d = os.path.join(lib.VERIF, "replays", PID)
    os.makedirs(d, exist_ok=True)
    p = os.path.join(d, "%s-seed%d-id%d.ndjson" % (tag, lib.seed(), c["id"]))
    with open(p, "w") as f:
        f.write(json.dumps({k: c[k] for k in ("ev", "id", "prog", "tags", "prelude") if c.get(k) is not None}) + "\n")
    return p


# ---------------------------------------------------------------- binding B (and witnesses)

def judge(trace_path, chunk):
    """TLC (Trace_Proc) judges every recorded line; returns {id: judgement}."""
    mms, states = sc.validate_trace(trace_path, module="Trace_Proc", chunk=chunk, procs=max(2, min(6, lib.NCPU // 2)), timeout=1800)
    evs = sc.load_events(trace_path)
    out = {}
    for m in mms:
        ev = evs[m["line"]]
        m["ev"] = ev
        out[ev["id"]] = m
    if len(out) != len(evs):
        raise lib.Inconclusive("trace validation judged %d of %d lines" % (len(out), len(evs)))
    return out, states


def binding_b(binp, v, scd, tag, cases_path, chunk):
    trace = os.path.join(scd, "b-%s-trace.ndjson" % tag)
    rep, res = execute(binp, cases_path, trace)
    js, states = judge(trace, chunk)
    bad = [j for j in js.values() if j["what"] == "mismatch"]
    again = {}
    if bad:
        ctrace = os.path.join(scd, "b-%s-confirm.ndjson" % tag)
        execute(binp, cases_path, ctrace, only=[j["id"] for j in bad], par=3)
        again, _ = judge(ctrace, 200)
    for j in bad:
        ev, j2 = j["ev"], again.get(j["id"])
        if j2 is None or j2["what"] != "mismatch" or canon(j2["ev"]["got"]) != canon(ev["got"]):
            raise lib.Inconclusive("binding B (%s): disagreement did not reproduce in isolation: %s" % (tag, ev.get("sql")))
        detail = {"sql": ev["sql"], "args": ev["prog"]["args"], "prelude": ev.get("prelude"), "got": ev["got"], "expected": j["exp"],
                  "machine_as_coded": j["mach"], "machine_tags": sorted(j["mtags"]), "raw": ev.get("raw"), "case_file": None,
                  "binding": "B/" + tag, "witness_of": ev.get("finding"), "seed": lib.seed()}
        if v.add(signature(ev, j["coded"], j["mtags"], ev["got"], j["exp"]), detail) == "violation":
            detail["case_file"] = save_case(ev, "b-%s" % tag)
    if rep["extra"].get("skipped"):
        raise lib.Inconclusive("binding B (%s): %d cases skipped after too many hangs/crashes: %s" % (tag, rep["extra"]["skipped"], rep["extra"]))
    ok = [j for j in js.values() if j["what"] == "ok"]
    samples = [{"sql": j["ev"]["sql"], "args": j["ev"]["prog"]["args"], "got": j["ev"]["got"]} for j in ok if j.get("nt")][:2]
    kinds = set()
    for c in res:
        kinds_of(c["prog"]["body"], kinds)
    return {"executed": len(res), "judged": len(js), "kinds": sorted(kinds), "excluded": sum(1 for j in js.values() if j["what"] == "excluded"),
            "ok": len(ok), "nontrivial": sum(1 for j in js.values() if j.get("nt")), "mismatches": len(bad),
            "coded": sum(1 for j in bad if j["coded"]), "states": states, "samples": samples,
            "outcomes": rep["extra"].get("outcomes"), "not_reproducing": [j["ev"].get("finding") for j in js.values() if j["what"] != "mismatch"]}


def witness_rows():
    rows = lib.read_ndjson(os.path.join(lib.VERIF, "findings", "C24-witnesses.ndjson"))
    for r in rows:
        r["id"] = 9000000 + r["id"]
        r["tmo"] = 6000 if any(t in ("handler-stmt-insert", "handler-stmt-select") for t in r.get("tags", [])) else 0
    return rows


# ---------------------------------------------------------------- the check

def check(tier):
    t0 = time.time()
    rnd = random.Random(lib.seed())
    binp = lib.build("c24")
    v = lib.Verdict(PID)
    quick = tier == "quick"
    nsim = 600 if quick else 6000
    nb = 450 if quick else 6000
    exh_cfg = "MC_Proc_exhq.cfg" if quick else "MC_Proc_exh.cfg"
    tw = max(2, min(6, lib.NCPU // 2))
    with lib.Scratch() as scd:
        def pipe_sim():
            r = lib.tlc("MC_Proc", "MC_Proc_sim.cfg", workers=1, timeout=3000, simulate="num=%d" % nsim, depth=3,
                        tlc_seed=lib.seed(), heap="3g")
            raw = tlc_cases(r, "MC_Proc/simulate")
            lib.log("[C24] TLC simulate done %.1fs (%d cases)" % (time.time() - t0, len(raw)))
            if len(raw) < nsim * 0.9:
                raise lib.Inconclusive("MC_Proc simulate emitted only %d of %d cases" % (len(raw), nsim))
            st = binding_a(binp, v, scd, "sim", raw, 1000000, 4 if quick else 40, rnd)
            lib.log("[C24] binding A (sampled) done %.1fs: %s" % (time.time() - t0, {k: st[k] for k in ("executed", "excluded", "mismatches", "coded", "nontrivial", "model_drift")}))
            return r, st

        def pipe_exh():
            # no `-coverage 1`: TLC's coverage bookkeeping runs out of memory on the recursive interpreters of
            # ProcMachine (measured: 8 GB heap, even for the 2-node configuration); vacuity is guarded by the
            # explicit counters below (states, statement kinds, non-trivial runs, outcomes) instead
            r = lib.tlc("MC_Proc", exh_cfg, workers=tw, timeout=6000, heap="8g")
            raw = tlc_cases(r, "MC_Proc/" + exh_cfg)
            lib.log("[C24] TLC exhaustive done %.1fs (%d states, %d cases emitted)" % (time.time() - t0, r.distinct, len(raw)))
            if r.distinct < 1000:
                raise lib.Inconclusive("exhaustive enumeration too small: %d states" % r.distinct)
            st = binding_a(binp, v, scd, "exh", raw, 2000000, 3 if quick else 30, rnd, max_cases=1200 if quick else 9000)
            lib.log("[C24] binding A (exhaustive) done %.1fs: %s" % (time.time() - t0, {k: st[k] for k in ("executed", "excluded", "mismatches", "coded", "nontrivial", "model_drift")}))
            return r, st

        def pipe_b():
            gen = os.path.join(scd, "b-gen.ndjson")
            lib.run_report([binp, "-mode", "gen", "-seed", str(lib.seed()), "-n", str(nb), "-out", gen])
            wrows = witness_rows()
            cases = os.path.join(scd, "b-cases.ndjson")
            lib.write_ndjson(cases, wrows + lib.read_ndjson(gen))
            st = binding_b(binp, v, scd, "gen", cases, 64 if quick else 250)
            gone = sorted({f for f in st["not_reproducing"] if f})
            if gone:
                lib.log("[C24] NOTE: witnesses that no longer disagree with the specification (defect repaired?): %s" % gone)
            st["witnesses"], st["witnesses_not_reproducing"] = len(wrows), gone
            lib.log("[C24] binding B done %.1fs: %s" % (time.time() - t0, {k: st[k] for k in ("executed", "ok", "excluded", "mismatches", "coded", "nontrivial")}))
            return st

        def selftest():
            """Binding is demonstrated: corrupt one recorded field / drop one log row of good records and require rejection."""
            gen = os.path.join(scd, "st-gen.ndjson")
            lib.run_report([binp, "-mode", "gen", "-seed", str(lib.seed() + 77), "-n", "12", "-out", gen])
            tr = os.path.join(scd, "st-trace.ndjson")
            _, res = execute(binp, gen, tr, par=2)
            js, _ = judge(tr, 100)
            good = [c for c in res if js[c["id"]]["what"] == "ok"]
            if len(good) < 3:
                raise lib.Inconclusive("self-test: too few agreeing records")
            bad = []
            for i, c in enumerate(good[:6]):
                c = json.loads(json.dumps(c))
                if i % 3 == 0:
                    c["got"]["log"].append({"t": "i", "v": 4242})
                elif i % 3 == 1:
                    c["got"]["vars"][1] = {"t": "i", "v": 4242}
                else:
                    c["got"]["err"] = "45000" if c["got"]["err"] == "none" else "none"
                bad.append(c)
            btr = os.path.join(scd, "st-bad.ndjson")
            lib.write_ndjson(btr, bad)
            js2, _ = judge(btr, 100)
            missed = [c["id"] for c in bad if js2[c["id"]]["what"] != "mismatch"]
            if missed:
                raise lib.Inconclusive("self-test: corrupted records were accepted by Trace_Proc: %s" % missed)
            return len(bad)

        with cf.ThreadPoolExecutor(max_workers=3) as ex:
            if not quick:
                lib.log("[C24] binding self-test: %d corrupted records rejected" % selftest())
            fs = [ex.submit(pipe_exh), ex.submit(pipe_sim), ex.submit(pipe_b)]
            errs = []
            for f in fs:
                try:
                    f.result()
                except lib.Inconclusive as e:
                    errs.append(e)
        # a reproduced violation outranks an inconclusive part of the run
        if errs and not v.violations:
            raise errs[0]
        for e in errs:
            lib.log("[C24] part of the run was inconclusive: %s" % str(e)[:500])
        if errs:
            return v.finish()
        (r_exh, xst), (r_sim, ast), bst = fs[0].result(), fs[1].result(), fs[2].result()
        # vacuity guards (a reproduced violation outranks them: a defect can remove a whole outcome class)
        if v.violations:
            lib.write_evidence(PID, tier, "model_checking", {"states": r_exh.distinct, "transitions": r_exh.generated,
                               "traces_validated_against_impl": ast["executed"] + xst["executed"] + bst["judged"],
                               "samples": [x["detail"].get("sql") for x in v.violations[:3]],
                               "rule": "run ended with reproduced violations; coverage counters not evaluated"},
                               time.time() - t0, violations=len(v.violations))
            return v.finish()
        if ast["executed"] < nsim * 0.5 or ast["nontrivial"] < ast["executed"] * 0.1:
            raise lib.Inconclusive("vacuous binding A: %s" % ast)
        if bst["ok"] + bst["mismatches"] < nb * 0.6 or bst["nontrivial"] < nb * 0.1:
            raise lib.Inconclusive("vacuous binding B: %s" % bst)
        need = KINDS | {"handler-continue", "handler-exit"}
        for name, st in (("binding A sampled", ast), ("binding B", bst)):
            if need - set(st["kinds"]):
                raise lib.Inconclusive("vacuous %s: statement kinds never executed: %s" % (name, sorted(need - set(st["kinds"]))))
        if len({o for st in (ast, bst) for o in (st["outcomes"] or {})} & {"none", "45000", "23000", "20000"}) < 4:
            raise lib.Inconclusive("vacuous: not every outcome class was observed: %s %s" % (ast["outcomes"], bst["outcomes"]))
        rc = v.finish()
        executed = ast["executed"] + xst["executed"] + bst["judged"]
        programs_theorem = r_exh.distinct + nsim
        lib.write_evidence(PID, tier, "model_checking", {
            "states": r_exh.distinct + r_sim.generated + bst["states"],
            "transitions": r_exh.generated + r_sim.generated + bst["states"],
            "traces_validated_against_impl": executed,
            "samples": (ast["samples"] + bst["samples"])[:3] or ["(no sample met the sampling rule this run)"],
            "exhaustive": True,
            "evaluations": executed,
            "distinct_nontrivial": ast["nontrivial"] + xst["nontrivial"] + bst["nontrivial"],
            "rule": "theorem 'repaired op-code machine == structured semantics' checked by TLC on every program of the exhaustive configuration (%s: %d states = heads + complete programs; first statement in Init, rest in Next) and on %d tape-decoded random programs (nesting <= 3, <= 6 statement nodes, 2 variables, loop bound 3); binding A executes the emitted programs (all sampled ones; of the exhaustive ones one in EmitOneIn plus every program containing an ITERATE) on a fresh engine and compares user variables, last result set, log rows and error class with the structured expectation; binding B executes %d generator programs (nesting <= 4, <= 12 payload nodes, 3 variables, nested handlers) plus the finding witnesses and TLC validates each record; non-trivial = the structured run takes a LEAVE/ITERATE, enters a handler, or iterates some loop at least twice"
                    % (exh_cfg, r_exh.distinct, nsim, nb),
            "theorem_programs_checked": programs_theorem,
            "binding_a_sampled": {k: ast[k] for k in ast if k != "samples"},
            "binding_a_exhaustive": {k: xst[k] for k in xst if k != "samples"},
            "binding_b": {k: bst[k] for k in bst if k not in ("samples", "not_reproducing")},
            "known_finding_occurrences": {k: len(x) for k, x in v.known.items()},
            "tlc_wall_s": {"simulate": round(r_sim.wall, 1), "exhaustive": round(r_exh.wall, 1)},
            "constants": {"LoopBound": 3, "exhaustive_cfg": exh_cfg, "simulate_cfg": "MC_Proc_sim.cfg"},
        }, time.time() - t0, violations=len(v.violations),
            assumptions=["values within +-10000 and at most 3 iterations per loop instance (runs leaving the bounds are excluded by TLC, not judged)",
                         "every program runs on a fresh engine and session (one witness covers state leaking between two CALLs of one session)",
                         "the engine exposes only the last result set of a CALL; earlier result sets are not observable",
                         "a case on which the worker process burns more than 3 s of CPU time (or 90 s wall clock) is outcome 'hang'"])
        return rc


def replay(path):
    """Re-run a recorded case (replays/C24/*.ndjson or a Verdict replay json) and re-judge it with TLC."""
    binp = lib.build("c24")
    if path.endswith(".json"):
        path = json.load(open(path))["first"]["detail"]["case_file"]
    with lib.Scratch() as scd:
        out = os.path.join(scd, "replay.ndjson")
        execute(binp, path, out, par=1)
        js, _ = judge(out, 100)
        rc = 0
        for j in js.values():
            if j["what"] == "mismatch":
                print("VIOLATION property=%s replay=%s" % (PID, path))
                print(json.dumps({"sql": j["ev"]["sql"], "got": j["ev"]["got"], "expected": j["exp"], "coded": j["coded"], "tags": j["mtags"]})[:3000])
                rc = 1
        return rc
