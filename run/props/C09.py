"""C09 — result values conform to the result schema.
Spec: the typing relation Fits(type, value) of spec/Trace_Types.tla (admissible value category and
range/shape per reported column type; NOT NULL => no NULL).  Binding B: type-stressing statements
(select-list expressions mixing types, UNION arms of different types, outer-join padding of NOT NULL
columns, aggregates over empty input, scalar subqueries, windows, generated C02 queries) are run on
the engine; the reported schema and a description of every returned value are validated by TLC."""
import json, os, re, time
import lib, sqlcommon as sc

PID = "C09"
META = {
    "property_id": PID,
    "level": "exploration",
    "technique": "TLA+ typing relation Fits(type, value) as oracle; TLC trace validation of the reported result schema against every returned value of generated type-stressing statements",
    "text": "For every generated statement the engine's reported column types (base type, precision/scale/length, signedness, nullability) and a category/sign/digits/length description of each returned value are recorded; TLC evaluates the typing relation on every cell, so a NULL in a column reported NOT NULL, a value outside the reported integer width, DECIMAL precision/scale or CHAR length, or a value of the wrong family is rejected.",
    "note": "The relation judges the value category, not the Go representation (an exact decimal or integer in a DOUBLE column is a valid DOUBLE value); types it does not model (geometry, ...) accept any known category; trusted: the type-string parser and value describer in harness/cmd/c09 (representation only).",
}


def expr_class(src):
    """Shape class of the select-list expression that produced a column (for finding signatures)."""
    s = src.upper()
    m = re.match(r"\(?(?:SELECT )?([A-Z_]+)\(", s)
    if m:
        return m.group(1)
    for op in (" UNION ", "*", "+", " - ", "-", "/", "%", "|", "&", "<<", "~"):
        if op in s:
            return "op" + op.strip()
    return "plain"


def check(tier):
    t0 = time.time()
    binp = lib.build("c09")
    v = lib.Verdict(PID)
    n = 600 if tier == "quick" else 12000
    with lib.Scratch() as scd:
        trace = os.path.join(scd, "trace.ndjson")
        gen = ["-seed", str(lib.seed()), "-n", str(n)]
        rep = lib.run_report([binp] + gen + ["-out", trace], timeout=3000)
        # the witnesses of the recorded findings are appended to the same trace (ids 900000+)
        wfile = os.path.join(lib.VERIF, "findings", "C09-witnesses.ndjson")
        wsrc = os.path.join(scd, "wit-in.ndjson")
        wl = [dict(json.loads(l), id=900000 + json.loads(l)["id"]) for l in open(wfile) if l.strip()]
        lib.write_ndjson(wsrc, wl)
        wout = os.path.join(scd, "wit.ndjson")
        lib.run_report([binp, "-in", wsrc, "-out", wout])
        with open(trace, "a") as f:
            f.write(open(wout).read())
        mms, states = sc.validate_trace(trace, module="Trace_Types", chunk=150)
        evs = sc.load_events(trace)
        bad = [evs[m["line"]] for m in mms]
        again = {}
        if bad:
            out = os.path.join(scd, "confirm.ndjson")
            lib.run_report([binp] + gen + ["-only", ",".join(str(e["id"]) for e in bad if e["id"] < 900000), "-out", out], timeout=3000)
            lib.run_report([binp, "-in", wsrc, "-out", wout])
            with open(out, "a") as f:
                f.write(open(wout).read())
            mm2, _ = sc.validate_trace(out, module="Trace_Types", chunk=400)
            cevs = sc.load_events(out)
            again = {cevs[m["line"]]["id"]: m for m in mm2}
        ncells = 0
        for m in mms:
            e = evs[m["line"]]
            if e["id"] not in again:
                raise lib.Inconclusive("type mismatch did not reproduce in isolation: %s" % e["sql"])
            for cell in again[e["id"]].get("cells", []):
                src = e["src"][cell["col"] - 1] if cell["col"] - 1 < len(e.get("src", [])) else e["kind"]
                sig = "%s|%s|%s|%s|%s<-%s" % (PID, cell["why"], e["kind"], expr_class(src), cell["base"], cell["c"])
                v.add(sig, {"sql": e["sql"], "column": cell["col"], "source_expression": src,
                            "reported_type": e["cols"][cell["col"] - 1]["text"], "nullable": e["cols"][cell["col"] - 1]["nullable"],
                            "why": cell["why"], "id": e["id"], "seed": lib.seed()})
                ncells += 1
        rc = v.finish()
        lib.write_evidence(PID, tier, "exploration", {
            "evaluations": rep["cases"], "distinct_nontrivial": rep["nontrivial"],
            "rule": "seeded type-stressing statements of 8 kinds over a fixture with every scalar column type; non-trivial = the statement returned at least one row; every cell judged by Trace_Types!Fits",
            "samples": rep["samples"], "states": states, "statements_with_bad_cells": len(mms), "bad_column_classes": ncells,
            "reported_type_bases": rep["extra"]["reported_type_bases"],
        }, time.time() - t0, violations=len(v.violations))
        return rc
