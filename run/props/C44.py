"""C44 — system and user variables store and scope values correctly.
Spec: spec/SysVars.tla (descriptor-driven acceptance rule + multi-session scoping model).
TLC model-checks the scoping invariants on a bounded configuration; binding A: random TLC
behaviours (3 sessions x 8 representative variables + user variables, depth 16) replayed on a real
engine, every modelled variable read in every session after every step; binding B: SET SESSION /
SET GLOBAL of generated values on ALL registered system variables, read back in the same, in
another and in a new session, validated by spec/Trace_SysVars.tla."""
import json, os, re, shutil, time, concurrent.futures as cf
import lib

META = {
    "property_id": "C44",
    "level": "model_checking",
    "technique": "TLA+ spec SysVars.tla: type/scope acceptance rule driven by descriptors read from the engine's registry, multi-session scoping model with invariants model-checked by TLC; TLC behaviours replayed on the engine (binding A); SET histories over all registered variables validated by Trace_SysVars.tla (binding B)",
    "text": "Descriptors (type, bounds, members, scope, dynamic) of every registered system variable are read from the engine once per run and given to TLC as constants; the acceptance rule per type is the specification's (MySQL manual). TLC checks SessionIsolation, GlobalNotSession, GlobalSeenByNew and RejectedHasNoEffect on a bounded model, and emits random behaviours over 3 sessions, 8 representative variables (bool, int, uint, enum, string; both/global/session scope; read-only) and 2 user variables which are replayed on a real engine comparing @@session.v, @@global.v and @uv (value and type class) in every session after every step. For all registered variables, generated values (min, max, min-1, max+1, random in-range, -1, 0, wrong kind, digit string, NULL, DEFAULT, members in random case, indexes, bit masks) are SET in SESSION and GLOBAL scope in shuffled order and read back in the same session, another session and a newly created session; TLC validates every step.",
    "note": "left open by the rule: digit strings for numeric variables, fractional literals for DOUBLE variables, NULL for string variables; variables with a change hook, dotted (component) names or special-cased by name are checked for isolation only; variables computed on read (ValueFunction) are skipped; @@global of a session-only variable is not compared; PERSIST is not modelled; trusted: TLC, reflection-based descriptor extraction and value encoding in harness/cmd/c44",
    "design_ref": "§7 C44",
}

PID = "C44"
I64MAX, I64MIN, U64MAX = 2 ** 63 - 1, -2 ** 63, 2 ** 64 - 1


def num(n):
    v = int("".join(map(str, n["d"])))
    return -v if n["neg"] else v


def lit_class(val, d):
    t = val["t"]
    if t == "int":
        x = num(val["n"])
        if x > U64MAX:
            return "int:aboveu64"
        if x > I64MAX and d["type"] != "uint":
            return "int:above64"
        if x < I64MIN:
            return "int:below64"
        if x < 0:
            return "int:neg"
        if d["type"] in ("int", "uint"):
            if x < num(d["min"]):
                return "int:below"
            if x > num(d["max"]):
                return "int:above"
        return "int"
    if t == "str":
        return "numstr" if val.get("isnum") else "str"
    return t


def sig_b(ev, m, d):
    out = ev["out"] + ((":" + ev["err"]) if ev.get("err") else "")
    return "B|%s/%s|%s|lit=%s|out=%s|exp=%s" % (d["type"], d["scope"], ev["scope"], lit_class(ev["val"], d), out, m["exp"]["k"])


def split_by_var(path, nchunks):
    """Chunks of whole variables (a chunk starts with an init event)."""
    groups, cur = [], []
    with open(path) as f:
        for n, line in enumerate(f, 1):
            if line.startswith('{"ev":"init"') and cur:
                groups.append(cur)
                cur = []
            cur.append((n, line.rstrip("\n")))
    if cur:
        groups.append(cur)
    per = max(1, (len(groups) + nchunks - 1) // nchunks)
    return [sum(groups[i:i + per], []) for i in range(0, len(groups), per)]


def validate_chunk(args):
    lines, desc, sc, k = args
    d = os.path.join(sc, "tvb-%s" % k)
    os.makedirs(d, exist_ok=True)
    with open(os.path.join(d, "trace.ndjson"), "w") as f:
        f.write("\n".join(l for _, l in lines) + "\n")
    r = lib.tlc("Trace_SysVars", "Trace_SysVars.cfg", workdir=d, workers=1, timeout=900, heap="2g",
                extra_files=[("sysvars_desc.ndjson", desc)])
    if r.error or not r.completed or r.postcondition_failed:
        raise lib.Inconclusive("trace validation did not complete: %s\n%s" % (r.error, r.out[-2000:]))
    mms = []
    for m in r.jsons("MM"):
        m["line"] = lines[m["l"] - 1][0]
        mms.append(m)
    return mms, r.distinct


def validate_trace(path, desc, sc, tag, nchunks=3):
    chunks = split_by_var(path, nchunks)
    mms, states = [], 0
    with cf.ThreadPoolExecutor(max_workers=nchunks) as ex:
        for res, st in ex.map(validate_chunk, [(c, desc, sc, "%s%d" % (tag, i)) for i, c in enumerate(chunks)]):
            mms += res
            states += st
    evs = {}
    with open(path) as f:
        for n, line in enumerate(f, 1):
            if line.strip():
                evs[n] = json.loads(line)
    return mms, states, evs


def record(binp, sc, tag, shards=3, vars_=None, sample=1.0):
    out = os.path.join(sc, "rec-%s.ndjson" % tag)

    def one(i):
        o = "%s.%d" % (out, i)
        args = [binp, "-mode", "record", "-out", o, "-seed", str(lib.seed()), "-shard", "%d/%d" % (i, shards), "-sample", str(sample)]
        if vars_:
            args += ["-vars", ",".join(sorted(vars_))]
        return o, lib.run_report(args, timeout=1200)

    with cf.ThreadPoolExecutor(max_workers=shards) as ex:
        parts = list(ex.map(one, range(shards)))
    rep = None
    with open(out, "w") as f:
        for o, r in parts:
            f.write(open(o).read())
            if rep is None:
                rep = r
            else:
                rep["cases"] += r["cases"]
                rep["nontrivial"] += r["nontrivial"]
                rep["samples"] += r["samples"]
                for k, n in r["extra"]["outcomes"].items():
                    rep["extra"]["outcomes"][k] = rep["extra"]["outcomes"].get(k, 0) + n
    return out, rep


def witness_vars():
    res = set()
    for f in lib.load_findings(PID):
        if f.get("witness_file"):
            res |= {json.loads(l)["var"] for l in open(os.path.join(lib.VERIF, f["witness_file"])) if l.strip()}
    return res


def binding_b(binp, desc, descs, sc, v, sample):
    t0 = time.time()
    path, rep = record(binp, sc, "main", vars_=witness_vars(), sample=sample)
    mms, states, evs = validate_trace(path, desc, sc, "main")
    lib.log("[C44] B: %d SETs on %d variables recorded and validated, %d disagreements, %.1fs" % (rep["cases"], sum(1 for e in evs.values() if e["ev"] == "init"), len(mms), time.time() - t0))
    if mms:
        bad_vars = {evs[m["line"]]["var"] for m in mms}
        path2, _ = record(binp, sc, "confirm", shards=1, vars_=bad_vars, sample=0)
        mms2, _, evs2 = validate_trace(path2, desc, sc, "confirm", nchunks=2)
        again = {evs2[m["line"]]["id"] for m in mms2}
        for m in mms:
            ev = evs[m["line"]]
            if ev["id"] not in again:
                raise lib.Inconclusive("B: disagreement did not reproduce in a fresh process: %s" % ev["sql"])
            v.add(sig_b(ev, m, descs[ev["var"]]), {"sql": ev["sql"], "out": ev["out"], "msg": ev.get("msg"), "global": ev["g"], "session": ev["a"],
                                                   "other_session": ev["b"], "new_session": ev["n"], "expected": m["exp"], "var": ev["var"], "seed": lib.seed()})
    return rep, mms, states, evs


def binding_a(binp, desc, sc, v, nsim, depth):
    t0 = time.time()
    r = lib.tlc("SysVars", "SysVars_sim.cfg", workers=1, timeout=900, simulate="num=%d" % nsim, depth=depth + 1, tlc_seed=lib.seed(),
                extra_files=[("sysvars_desc.ndjson", desc)], heap="3g")
    if r.error or r.invariant_violated:
        raise lib.Inconclusive("SysVars simulation: %s\n%s" % (r.error or r.invariant_violated, r.out[-2000:]))
    trs = r.jsons("TR")
    if len(trs) < nsim * depth * 0.8:
        raise lib.Inconclusive("SysVars simulation emitted only %d steps" % len(trs))
    p = os.path.join(sc, "sim.ndjson")
    lib.write_ndjson(p, trs)
    rep = lib.run_report([binp, "-mode", "replay", "-in", p], timeout=1200)
    lib.log("[C44] A: %d behaviours / %d steps replayed, %d disagreements, %.1fs" % (rep["extra"]["behaviours"], rep["cases"], len(rep["mismatches"]), time.time() - t0))
    if rep["extra"].get("mismatches_total"):
        lib.log("[C44] A: %d disagreements in total (first 60 examined)" % rep["extra"]["mismatches_total"])
    if rep["mismatches"]:
        # reproduce every disagreement with its behaviour prefix alone, all in ONE fresh process
        # (each prefix starts at step 1 = a fresh engine)
        cp = os.path.join(sc, "confirm-a.ndjson")
        last = []
        with open(cp, "w") as f:
            n = 0
            for mm in rep["mismatches"]:
                for line in mm["input"]["behaviour"]:
                    f.write(json.dumps(line) + "\n")
                    n += 1
                last.append(n - 1)
        rr = lib.run_report([binp, "-mode", "replay", "-in", cp, "-maxmm", "1000000"])
        got = {(x["case"], x["signature"]) for x in rr["mismatches"]}
        for mm, idx in zip(rep["mismatches"], last):
            if (idx, mm["signature"]) not in got:
                raise lib.Inconclusive("A: disagreement did not reproduce in a fresh process: %s" % mm["input"]["sql"])
            v.add(mm["signature"], {"sql": mm["input"]["sql"], "expected": mm["expected"], "got": mm["got"], "behaviour": mm["input"]["behaviour"], "seed": lib.seed()})
    return r, rep, trs


def model_check(desc, cfg, workers):
    r = lib.tlc("SysVars", cfg, workers=workers, timeout=1500, extra_files=[("sysvars_desc.ndjson", desc)], heap="3g")
    lib.tlc_ok(r, "SysVars/" + cfg)
    return r


def check(tier):
    t0 = time.time()
    binp = lib.build("c44")
    v = lib.Verdict(PID)
    with lib.Scratch() as sc:
        desc = os.path.join(sc, "sysvars_desc.ndjson")
        drep = lib.run_report([binp, "-mode", "desc", "-out", desc])
        descs = {d["name"]: d for d in lib.read_ndjson(desc)}
        if len(descs) < 300:
            raise lib.Inconclusive("only %d descriptors read from the registry" % len(descs))
        nsim, depth = (80, 16) if tier == "quick" else (2500, 16)
        cfg = "SysVars_mc.cfg" if tier == "quick" else "SysVars_mcbig.cfg"
        with cf.ThreadPoolExecutor(max_workers=3) as ex:
            fm = ex.submit(model_check, desc, cfg, 2 if tier == "quick" else 8)
            fa = ex.submit(binding_a, binp, desc, sc, v, nsim, depth)
            fb = ex.submit(binding_b, binp, desc, descs, sc, v, 0.5 if tier == "quick" else 1.0)
            rm = fm.result()
            ra, repa, trs = fa.result()
            repb, mmsb, statesb, evsb = fb.result()
        # witnesses: every finding names variables whose recorded history must still disagree
        for f in lib.load_findings(PID):
            if f.get("witness_file"):
                wv = {json.loads(l)["var"] for l in open(os.path.join(lib.VERIF, f["witness_file"])) if l.strip()}
                hit = [m for m in mmsb if evsb[m["line"]]["var"] in wv and re.search(f["signature"], sig_b(evsb[m["line"]], m, descs[evsb[m["line"]]["var"]]))]
                if not hit:
                    lib.log("[C44] NOTE: the witness of %s no longer disagrees with the specification" % f["id"])
        if repb["cases"] < (2500 if tier == "quick" else 6000) or repa["cases"] < nsim * depth * 0.8:
            raise lib.Inconclusive("vacuous: %d SETs recorded, %d steps replayed" % (repb["cases"], repa["cases"]))
        rc = v.finish()
        lib.write_evidence(PID, tier, "model_checking", {
            "states": rm.distinct + statesb, "transitions": rm.generated + len(trs),
            "traces_validated_against_impl": repa["extra"]["behaviours"] + sum(1 for e in evsb.values() if e["ev"] == "init"),
            "samples": (repa["samples"][:2] + repb["samples"][:2]) or trs[:1],
            "evaluations": repa["cases"] + repb["cases"],
            "distinct_nontrivial": repa["nontrivial"] + repb["nontrivial"],
            "rule": "binding A: every step of %d TLC behaviours of depth %d (3 sessions, 8 variables, 2 user variables), all modelled values read in all sessions after each step; binding B: %s registered non-volatile system variables x ~12 generated values x {SESSION, GLOBAL}; non-trivial = a SET that succeeds" % (nsim, depth, "a seeded half of the" if tier == "quick" else "all"),
            "mc_config": cfg, "mc_distinct_states": rm.distinct, "mc_generated": rm.generated, "mc_wall_s": round(rm.wall, 1),
            "variables_registered": len(descs), "descriptors_by_type_scope": drep["extra"]["by_type_scope"],
            "a_by_action": repa["extra"]["by_action"], "a_resynchronisations": repa["extra"]["resynchronisations"],
            "a_steps_skipped": repa["extra"]["steps_skipped_after_divergence"],
            "b_outcomes": repb["extra"]["outcomes"], "b_disagreements": len(mmsb), "a_disagreements": len(repa["mismatches"]),
            "special_variables": sorted(d["name"] for d in descs.values() if d["special"]),
        }, time.time() - t0, violations=len(v.violations),
            assumptions=["sql_mode is the engine's default (contains STRICT_TRANS_TABLES): out-of-range numeric values are rejected, not clamped",
                         "MySQL manual: SET SESSION v = DEFAULT assigns the current global value, SET GLOBAL v = DEFAULT the compiled-in default",
                         "type class expected from SELECT @@v: bool/int -> signed integer, uint -> unsigned integer, double -> float, enum/set/string -> string"])
        return rc


def replay(path):
    """Re-run a recorded disagreement: a behaviour prefix (binding A) or one variable's SET history (binding B)."""
    rec = json.load(open(path))
    det = rec["first"]["detail"]
    binp = lib.build("c44")
    with lib.Scratch() as sc:
        if det.get("behaviour"):
            p = os.path.join(sc, "b.ndjson")
            lib.write_ndjson(p, det["behaviour"])
            rr = lib.run_report([binp, "-mode", "replay", "-in", p])
            for mm in rr["mismatches"]:
                print("VIOLATION property=C44 replay=%s" % path)
                print(json.dumps({"signature": mm["signature"], "sql": mm["input"]["sql"], "expected": mm["expected"], "got": mm["got"]})[:2000])
            return 1 if rr["mismatches"] else 0
        desc = os.path.join(sc, "sysvars_desc.ndjson")
        lib.run_report([binp, "-mode", "desc", "-out", desc])
        descs = {d["name"]: d for d in lib.read_ndjson(desc)}
        os.environ["VERIF_SEED"] = str(det.get("seed", lib.seed()))
        p, _ = record(binp, sc, "replay", shards=1, vars_={det["var"]}, sample=0)
        mms, _, evs = validate_trace(p, desc, sc, "replay", nchunks=1)
        for m in mms:
            ev = evs[m["line"]]
            print("VIOLATION property=C44 replay=%s" % path)
            print(json.dumps({"signature": sig_b(ev, m, descs[ev["var"]]), "sql": ev["sql"], "out": ev["out"], "session": ev["a"], "global": ev["g"], "expected": m["exp"]})[:2000])
        return 1 if mms else 0
