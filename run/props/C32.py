"""C32 — JSON values round-trip and path functions obey their laws.
Spec: spec/JsonDoc.tla (documents as TLA+ values, MySQL's path evaluation and mutation rules, canonical
form, comparison).  Model checking: spec/MC_JsonDoc.tla — a document under a history of mutations; the
property's laws are action properties checked by TLC on every transition.
Binding A: TLC's transitions (exhaustive on a small domain, simulated on the full one) are replayed
through the SQL functions; the printed result is re-encoded and compared with the specification's
post document and observers.
Binding B: random documents / strings / comparison matrices are executed and recorded; every
recorded line is judged by spec/Trace_Json.tla."""
import concurrent.futures as cf
import json, os, random, time
import lib

PID = "C32"
META = {
    "property_id": PID,
    "level": "model_checking",
    "technique": "TLA+ spec JsonDoc.tla; TLC model-checks the laws (set-then-extract, remove-then-not-contains, append-adds-one, insert-keeps-existing, replace-only-existing, canonical fixpoint) on the document state machine MC_JsonDoc.tla and dumps its transitions, which are replayed through JSON_SET/INSERT/REPLACE/REMOVE/ARRAY_APPEND/ARRAY_INSERT/MERGE_PATCH and observed with JSON_EXTRACT/CONTAINS_PATH/LENGTH/TYPE/KEYS on the engine; recorded round trips, quote/unquote pairs and comparison matrices are validated by Trace_Json.tla with TLC",
    "text": "A JSON document column under a history of mutations is a TLA+ state machine over documents of depth <= 2 and width <= 2; TLC checks the property's laws on every transition and every transition is executed on the engine: the pre document is stored as JSON text (literal or JSON column), the SQL function applied, and the printed result (keys in the order printed) must be the specification's post document; JSON_EXTRACT, JSON_CONTAINS_PATH, JSON_LENGTH, JSON_TYPE, JSON_KEYS of the result must give the specification's replies. Random documents of depth <= 4 (unicode, quotes, backslashes, control characters, emoji, large and decimal numbers, duplicate keys) are printed, parsed and printed again: TLC checks that the printed form is the canonical form of the input (last duplicate wins, keys by length then bytes) and is a fixpoint of parsing; JSON_UNQUOTE(JSON_QUOTE(s)) = s (SQL and internal/strings natively); SQL comparison of JSON values over <= 16 mixed documents is a total order consistent with structural equality and with the manual's precedence.",
    "note": "Exhaustive domains: tiny (key a, scalar 1) in the quick tier; small (keys a, aa; scalars 1, null) and mid (keys a, b, aa; scalar 1) in the thorough tier; the full domain (keys a, b, aa; scalars 1, \"x\", true, null) has about 30000 documents x 1500 transitions and is explored by TLC simulation only. JSON_REMOVE with a final [0] on a non-array and JSON_ARRAY_INSERT outside existing arrays are not modelled (the manual is silent). Numbers beyond 32 bits and decimals are uninterpreted text. Trusted: TLC, the JSON text renderer/parser and SQL quoting in harness/cmd/c32 (representation only; encoding/json).",
    "design_ref": "§7 C32",
}

ASSUMPTIONS = [
    "documents are passed as CAST('<text>' AS JSON) or through a JSON column; strings in SQL literals are escaped for the default sql_mode (backslash escapes)",
    "a disagreement is classified by the operation, by how the path meets the document (natural / create / autowrap-last / autowrap-inner / dangling, decided by the specification) and by the first observable that differs",
    "internal/strings Quote/Unquote are bound with go:linkname to the package compiled from /repo",
]


def run_dump(sc, cfg, workers, coverage=False):
    path = os.path.join(sc, cfg + ".ndjson")
    r, trs = lib.dump_transitions("MC_JsonDoc", cfg, path, workers=workers, timeout=3400, heap="6g", coverage=coverage)
    return r, trs, path


def run_mc(cfg, workers, coverage):
    r = lib.tlc("MC_JsonDoc", cfg, workers=workers, timeout=3400, heap="6g", coverage=coverage)
    lib.tlc_ok(r, "MC_JsonDoc/" + cfg)
    return r


def run_sim(sc, num, depth, cap, rnd):
    r = lib.tlc("MC_JsonDoc", "MC_JsonDoc_sim.cfg", workers=1, timeout=3400, simulate="num=%d" % num, depth=depth,
                tlc_seed=lib.seed(), heap="4g")
    if r.error or r.invariant_violated or r.action_prop_violated:
        raise lib.Inconclusive("MC_JsonDoc_sim: %s\n%s" % (r.error or r.invariant_violated or r.action_prop_violated, r.out[-2000:]))
    trs = r.jsons("TR")
    total = len(trs)
    trs = lib.sample(trs, cap, rnd)
    path = os.path.join(sc, "sim.ndjson")
    lib.write_ndjson(path, trs)
    return r, trs, path, total


def validate(rows, sc, tag, timeout=1500):
    if not rows:
        return [], []
    d = os.path.join(sc, "tv-" + tag)
    os.makedirs(d, exist_ok=True)
    p = os.path.join(d, "c32_trace.ndjson")
    lib.write_ndjson(p, rows)
    r = lib.tlc("Trace_Json", "Trace_Json.cfg", workers=1, timeout=timeout, heap="2g", extra_files=[("c32_trace.ndjson", p)])
    lib.tlc_ok(r, "Trace_Json[%s]" % tag)
    st = r.jsons("ST")
    if r.postcondition_failed or len(st) != len(rows) or r.distinct != len(rows) + 1:
        raise lib.Inconclusive("trace %s: %d lines judged of %d (states %d)\n%s" % (tag, len(st), len(rows), r.distinct, r.out[-1200:]))
    return r.jsons("MM"), st


def validate_parallel(rows, sc, tag, nchunks):
    n = max(1, (len(rows) + nchunks - 1) // nchunks)
    parts = [rows[i:i + n] for i in range(0, len(rows), n)]
    mm, st = [], []
    with cf.ThreadPoolExecutor(max_workers=len(parts) or 1) as ex:
        futs = [ex.submit(validate, part, sc, "%s%d" % (tag, i)) for i, part in enumerate(parts)]
        off = 0
        for part, f in zip(parts, futs):
            m, s = f.result()
            for x in m + s:
                x["l"] += off
            mm += m
            st += s
            off += len(part)
    return mm, st


def tagstr(t):
    return "+".join(sorted(t)) if isinstance(t, list) else str(t)


def sig_b(m):
    return "B|%s|%s|%s" % (m["ev"], m["what"], tagstr(m["tag"]))


def detail_b(m, row):
    keep = {k: row.get(k) for k in ("ev", "id", "form", "s", "u", "nu", "sql", "txt", "raw", "docs") if row.get(k) not in (None, "", [])}
    return {"what": m["what"], "tag": m["tag"], "specification_expects": m["exp"], "recorded": keep}


def replay_trs(binp, path, keep=3):
    return lib.run_report([binp, "replay", "-file", path, "-keep", str(keep)], timeout=3400)


def confirm_a(binp, v, rep, sc, tag):
    ex = rep["mismatches"]
    if not ex:
        return 0
    p = os.path.join(sc, "confirm-a-%s.ndjson" % tag)
    lib.write_ndjson(p, [m["input"]["tr"] for m in ex])
    again = replay_trs(binp, p, keep=100000)
    sigs = {(json.dumps(m["input"]["tr"], sort_keys=True), m["signature"]) for m in again["mismatches"]}
    for m in ex:
        if (json.dumps(m["input"]["tr"], sort_keys=True), m["signature"]) not in sigs:
            raise lib.Inconclusive("replayed mismatch did not reproduce: %s" % json.dumps(m)[:600])
    total = 0
    for sig, n in rep["extra"]["by_signature"].items():
        first = [m for m in ex if m["signature"] == sig]
        if not first:
            raise lib.Inconclusive("no example kept for signature %s" % sig)
        v.add("C32|" + sig, {"sql": first[0]["input"]["sql"], "specification": first[0]["expected"], "engine": first[0]["got"],
                             "occurrences": n, "source": tag, "more": [[m["input"]["sql"], m["got"]] for m in first[1:]],
                             "tr": first[0]["input"]["tr"]})
        total += n
    return total


def run_b(binp, sc, n, nchunks):
    tpath = os.path.join(sc, "b.ndjson")
    grep = lib.run_report([binp, "gen", "-seed", str(lib.seed()), "-n", str(n), "-out", tpath], timeout=3400)
    rows = lib.read_ndjson(tpath)
    mm, st = validate_parallel(rows, sc, "b", nchunks)
    return grep, rows, mm, st


def confirm_b(binp, v, rows, mm, sc, n):
    if not mm:
        return
    by_sig = {}
    for m in mm:
        by_sig.setdefault(sig_b(m), []).append(m)
    picked = [m for ms in by_sig.values() for m in ms[:2]][:80]
    ids = sorted({m["id"] for m in picked})
    out = os.path.join(sc, "confirm-b.ndjson")
    lib.run_report([binp, "gen", "-seed", str(lib.seed()), "-n", str(n), "-only", ",".join(map(str, ids)), "-out", out])
    again, _ = validate(lib.read_ndjson(out), sc, "confirm-b")
    seen = {(m["id"], m["what"]) for m in again}
    for m in picked:
        if (m["id"], m["what"]) not in seen:
            raise lib.Inconclusive("recorded mismatch did not reproduce in a fresh process: %s" % m)
    for sig, ms in by_sig.items():
        d = detail_b(ms[0], rows[ms[0]["l"] - 1])
        d["occurrences"] = len(ms)
        d["seed"] = lib.seed()
        v.add("C32|" + sig, d)


def run_witnesses(binp, sc):
    """Replays the witness of every finding of C32 (transition lines through replay, events through
    exec + Trace_Json).  Returns ([(finding id, signature, detail)], ids of the findings replayed)."""
    trs, evs, ids = [], [], []
    for f in lib.load_findings(PID):
        wf = f.get("witness_file")
        if not wf:
            continue
        ids.append(f["id"])
        for x in lib.read_ndjson(os.path.join(lib.VERIF, wf)):
            if "op" in x:
                trs.append((f["id"], x))
            elif "ev" in x:
                evs.append((f["id"], dict(x, id=len(evs) + 1)))
    out = []
    if trs:
        p = os.path.join(sc, "w-trs.ndjson")
        lib.write_ndjson(p, [t for _, t in trs])
        rep = replay_trs(binp, p, keep=100000)
        for m in rep["mismatches"]:
            out.append((trs[m["case"]][0], "C32|" + m["signature"],
                        {"witness_of": trs[m["case"]][0], "sql": m["input"]["sql"], "specification": m["expected"], "engine": m["got"]}))
    if evs:
        pin, pout = os.path.join(sc, "w-ev.in"), os.path.join(sc, "w-ev.out")
        lib.write_ndjson(pin, [e for _, e in evs])
        lib.run_report([binp, "exec", "-in", pin, "-out", pout])
        rows = lib.read_ndjson(pout)
        mm, _ = validate(rows, sc, "witness")
        for m in mm:
            fid = evs[m["l"] - 1][0]
            d = detail_b(m, rows[m["l"] - 1])
            d["witness_of"] = fid
            out.append((fid, "C32|" + sig_b(m), d))
    return out, ids


def binding_selftest(binp, trs, rows, sc):
    """DESIGN 9: a flipped expected post document (binding A) and a corrupted recorded field (binding B)
    must both be rejected."""
    good = [t for t in trs if t["op"] == "set" and t["kind"] == "natural" and t["pre"] != t["post"]][:20]
    flipped = [dict(t, post=t["pre"]) for t in good]
    p = os.path.join(sc, "selftest-a.ndjson")
    lib.write_ndjson(p, flipped)
    rep = replay_trs(binp, p)
    na = sum(rep["extra"]["by_signature"].values())
    if not flipped or na != len(flipped):
        raise lib.Inconclusive("binding self-test A: %d of %d flipped post documents were noticed" % (na, len(flipped)))
    goodb = [r for r in rows if r["ev"] == "quote" and len(r["s"]) > 0][:20]
    bad = [dict(r, u=r["u"] + [120], nu=r["nu"][:-1]) for r in goodb]
    mm, _ = validate(bad, sc, "selftest-b")
    rej = {m["l"] for m in mm}
    if not bad or len(rej) != len(bad):
        raise lib.Inconclusive("binding self-test B: %d of %d corrupted lines were rejected" % (len(rej), len(bad)))
    return {"flipped_posts": len(flipped), "noticed": na, "corrupted_lines": len(bad), "rejected": len(rej)}


def check(tier):
    t0 = time.time()
    rnd = random.Random(lib.seed())
    binp = lib.build("c32")
    v = lib.Verdict(PID)
    quick = tier == "quick"
    nb = 1200 if quick else 30000
    w_big = 4 if quick else max(4, lib.NCPU - 4)
    with lib.Scratch() as sc:
        with cf.ThreadPoolExecutor(max_workers=5) as ex:
            f_wit = ex.submit(run_witnesses, binp, sc)
            f_dump = ex.submit(run_dump, sc, "MC_JsonDoc_tiny.cfg" if quick else "MC_JsonDoc_small.cfg", w_big, not quick)
            f_sim = ex.submit(run_sim, sc, 60 if quick else 800, 15 if quick else 25, 5000 if quick else 150000, rnd)
            f_mc = ex.submit(run_mc, "MC_JsonDoc_mid.cfg", w_big, True) if not quick else None
            f_b = ex.submit(run_b, binp, sc, nb, 3 if quick else max(4, lib.NCPU - 4))
            rd, trs, dpath = f_dump.result()
            rs, strs, spath, sim_total = f_sim.result()
            rm = f_mc.result() if f_mc else None
            grep, rows, mm, st = f_b.result()
            wit, wit_ids = f_wit.result()
        lib.log("[C32] TLC done %.1fs: %d states / %d transitions dumped, %d simulated transitions (%d replayed), %d recorded lines (%d MM)"
                % (time.time() - t0, rd.distinct, len(trs), sim_total, len(strs), len(rows), len(mm)))
        if not quick:
            z = [a for a in rd.coverage_zero() + rm.coverage_zero() if a not in ("Init",)]
            if z:
                raise lib.Inconclusive("vacuous: actions never taken: %s" % z)
        if len(trs) < (5000 if quick else 100000) or len(strs) < 1000:
            raise lib.Inconclusive("too few transitions: %d dumped, %d simulated" % (len(trs), len(strs)))
        rep_d = replay_trs(binp, dpath)
        rep_s = replay_trs(binp, spath)
        if rep_d["cases"] != len(trs) or rep_s["cases"] != len(strs):
            raise lib.Inconclusive("transitions dumped and replayed differ")
        nt_b = sum(1 for s in st if s["nt"])
        if len(st) != nb or nt_b < nb // 2:
            raise lib.Inconclusive("recorded lines: %d judged of %d, %d non-trivial" % (len(st), nb, nt_b))
        for fid, sig, d in wit:
            v.add(sig, d)
        for fid in wit_ids:
            if fid not in {x for x, _, _ in wit}:
                lib.log("[C32] NOTE: the witness of finding %s no longer disagrees with the specification" % fid)
        n_a = confirm_a(binp, v, rep_d, sc, "dump") + confirm_a(binp, v, rep_s, sc, "sim")
        confirm_b(binp, v, rows, mm, sc, nb)
        selftest = binding_selftest(binp, trs, rows, sc) if not quick else None
        for x in v.violations:
            lib.log("[C32] unlisted disagreement: %s  %s" % (x["signature"], json.dumps(x["detail"], default=str)[:400]))
        rc = v.finish()
        by_sig = dict(rep_d["extra"]["by_signature"])
        for k, n in rep_s["extra"]["by_signature"].items():
            by_sig[k] = by_sig.get(k, 0) + n
        lib.write_evidence(PID, tier, "model_checking", {
            "states": rd.distinct + (rm.distinct if rm else 0) + len(st),
            "transitions": len(trs) + sim_total + (rm.generated if rm else 0),
            "traces_validated_against_impl": len(trs) + len(strs) + len(st),
            "samples": (rep_d["samples"][:2] + rep_s["samples"][:1] + grep["samples"][:1]) or trs[:1],
            "exhaustive": True,
            "evaluations": len(trs) + len(strs) + len(st),
            "distinct_nontrivial": rep_d["nontrivial"] + rep_s["nontrivial"] + nt_b,
            "rule": "binding A: every transition of the bounded document machine (%s: all documents of depth <= 2, width <= 2 reachable over the configured keys/scalars x 7 mutating functions x every path of length <= 2 x every value) replayed once through SQL, plus %d transitions met by TLC simulation of the full domain (keys a,b,aa; scalars 1,\"x\",true,null; %d generated, seeded sample replayed); non-trivial = the specification's post document differs from the pre document, distinct by (function, pre, path, value). Binding B: %d seeded recorded lines (round trip / quote in turn, a 8-16 document comparison matrix every 20th), non-trivial (decided by TLC) = a container, string or uninterpreted number / a non-empty string / every matrix"
                    % ("MC_JsonDoc_tiny" if quick else "MC_JsonDoc_small", len(strs), sim_total, nb),
            "model": {"dump_cfg": "MC_JsonDoc_tiny.cfg" if quick else "MC_JsonDoc_small.cfg", "dump_states": rd.distinct, "dump_transitions": len(trs),
                      "laws_checked_on_every_transition": True,
                      "mid_cfg_states": rm.distinct if rm else None, "mid_cfg_transitions": rm.generated if rm else None,
                      "tlc_wall_s": round(rd.wall + rs.wall + (rm.wall if rm else 0), 1)},
            "replayed": {"by_op": rep_d["extra"]["by_op"], "by_kind": rep_d["extra"]["by_kind"], "sim_by_kind": rep_s["extra"]["by_kind"],
                         "disagreements": n_a, "by_signature": by_sig},
            "recorded": {"lines": len(st), "by_event": grep["extra"]["by_event"], "nontrivial": nt_b, "disagreements": len(mm)},
            "witnesses": {"findings_with_witness": len(wit_ids), "still_disagreeing": len({fid for fid, _, _ in wit})},
            "binding_selftest": selftest,
        }, time.time() - t0, violations=len(v.violations), assumptions=ASSUMPTIONS)
        return rc


def replay(path):
    d = json.load(open(path))
    det = d["first"]["detail"]
    binp = lib.build("c32")
    with lib.Scratch() as sc:
        if "tr" in det:
            p = os.path.join(sc, "tr.ndjson")
            lib.write_ndjson(p, [det["tr"]])
            rep = replay_trs(binp, p)
            print(json.dumps(rep["mismatches"], indent=1)[:3000])
            bad = bool(rep["mismatches"])
        else:
            pin, pout = os.path.join(sc, "ev.in"), os.path.join(sc, "ev.out")
            lib.write_ndjson(pin, [det["recorded"]])
            lib.run_report([binp, "exec", "-in", pin, "-out", pout])
            mm, _ = validate(lib.read_ndjson(pout), sc, "replay")
            print(json.dumps(mm, indent=1)[:3000])
            bad = bool(mm)
    print("VIOLATION reproduced" if bad else "not reproduced on this tree")
    return 1 if bad else 0
