"""C21 — schema changes preserve existing data.
Spec: spec/SchemaChange.tla (one table: ordered typed columns with nullability and defaults, primary key,
secondary indexes, rows of SQLSem values; statements CREATE TABLE, INSERT, ADD / DROP / RENAME / MODIFY
COLUMN incl. FIRST / AFTER and type conversion, change of collation, ADD / DROP PRIMARY KEY, CREATE
[UNIQUE] / DROP INDEX, RENAME TABLE, each succeeding exactly under its precondition and otherwise
failing without effect).  TLC model-checks the integrity invariants and the action property
DataPreserved on a bounded model and emits random behaviours whose SQL text it builds itself; binding A:
harness/cmd/c21 executes every statement on a real engine and after every step compares the reply class,
SELECT * ORDER BY all columns (a bag of value tuples), SHOW FULL COLUMNS, DESCRIBE,
information_schema.COLUMNS, SHOW INDEX, information_schema.STATISTICS and equality look-ups through every
key's leading column with the post-state TLC printed."""
import json, os, sys, time, concurrent.futures as cf
sys.path.insert(0, os.path.dirname(os.path.dirname(os.path.abspath(__file__))))
import lib

META = {
    "property_id": "C21",
    "level": "model_checking",
    "technique": "TLA+ spec SchemaChange.tla: one table (columns with type tinyint/smallint/int/varchar(n) and collation, NULL/NOT NULL, default; primary key; unique and plain indexes; rows) under 12 statement kinds with preconditions and value conversion; invariants and the action property DataPreserved model-checked by TLC on a bounded model; random TLC behaviours of depth 14 (SQL text built by the specification) replayed on the engine with rows, SHOW FULL COLUMNS, DESCRIBE, information_schema.COLUMNS/STATISTICS, SHOW INDEX and key look-ups compared for equality with TLC's post-state after every statement",
    "text": "The specification keeps one table: an ordered list of columns (name, type among tinyint/smallint/int/varchar(2|4|8) with collation utf8mb4_0900_bin or _ai_ci, nullability, optional literal default), a primary key, named unique/non-unique indexes and the stored rows. ADD COLUMN (FIRST/AFTER/last) gives existing rows the default, NULL, or the implicit default 0/'' of a NOT NULL column; DROP COLUMN removes the value and the column from non-unique indexes; RENAME COLUMN follows the column through keys; MODIFY COLUMN converts every stored value (integer ranges, integer<->decimal text, varchar length) and moves the column, and fails without effect when a value is not representable, a NULL meets NOT NULL, or a key would collide; a collation change keeps the data; ADD PRIMARY KEY fails on NULLs or duplicates and makes the columns NOT NULL; CREATE UNIQUE INDEX fails on duplicates; RENAME TABLE moves everything. TLC checks on a bounded model that every successful ALTER keeps the row count and, column by column (followed through renames and moves), the converted old values, that an added column holds its default, and that a failed statement changes nothing; it then emits random behaviours which are executed on a real engine, where after every statement the reply class, the table contents as a bag, the column list (order, type text, NULL flag, key flag, default, collation) through SHOW FULL COLUMNS, DESCRIBE and information_schema.COLUMNS, the index list through SHOW INDEX and information_schema.STATISTICS, and index look-ups are compared for equality with the post-state TLC printed.",
    "note": "decimal columns are not modelled; one table per behaviour; strings over [0-9A-Za-z-]; the statement shapes that used to trigger recorded index-corrupting defects (RENAME TABLE / MODIFY / RENAME of a key column / DROP PRIMARY KEY with secondary indexes, in-place ADD COLUMN before an indexed column, rewriting MODIFY with a type change under an index, outcomes that depend on _ai_ci key comparison, RENAME of a composite-key column) are drawn at random again since the defects were repaired (spec: Steered = {}); the witness behaviour of every finding, open or fixed, is replayed on every run; DROP COLUMN of a key column (recorded under C43), dropping the only column and MODIFY .. NULL of a key column are not generated; SHOW COLUMNS prints a string default as a quoted literal and appends COLLATE to the type text of a non-default collation: both are read as their MySQL meaning; the Key flag of a keyless table with a NOT NULL unique index is unjudged; trusted: TLC, the 7 observation queries and the normalisers in harness/cmd/c21",
    "design_ref": "§7 C21",
}

PID = "C21"
DEPTH = 14


def simulate(n, seed, sc, tag, cfg="SchemaChange_sim.cfg", depth=DEPTH):
    r = lib.tlc("SchemaChange", cfg, workers=1, timeout=2400, simulate="num=%d" % n, depth=depth + 1, tlc_seed=seed, heap="3g")
    if r.error or r.invariant_violated or r.action_prop_violated:
        raise lib.Inconclusive("SchemaChange simulation: %s\n%s" % (r.error or r.invariant_violated or r.action_prop_violated, r.out[-2500:]))
    trs = r.jsons("TR")
    if len(trs) < n * depth * 0.8:
        raise lib.Inconclusive("SchemaChange simulation emitted only %d steps" % len(trs))
    p = os.path.join(sc, "sim-%s.ndjson" % tag)
    lib.write_ndjson(p, trs)
    return r, trs, p


def replay_file(binp, path, maxmm=200):
    return lib.run_report([binp, "-in", path, "-maxmm", str(maxmm)], timeout=1500)


def confirm(binp, mms, sc, tag):
    """Re-run every disagreement with its behaviour prefix alone, all in ONE fresh process (each prefix
    starts at step 1 = a fresh engine). A disagreement that does not come back is inconclusive."""
    if not mms:
        return []
    cp = os.path.join(sc, "confirm-%s.ndjson" % tag)
    last, n = [], 0
    with open(cp, "w") as f:
        for mm in mms:
            for line in mm["input"]["behaviour"]:
                f.write(json.dumps(line) + "\n")
                n += 1
            last.append(n - 1)
    rr = replay_file(binp, cp, maxmm=10 ** 6)
    got = {(x["case"], x["signature"]) for x in rr["mismatches"]}
    for mm, idx in zip(mms, last):
        if (idx, mm["signature"]) not in got:
            raise lib.Inconclusive("disagreement did not reproduce in a fresh process: %s (%s)" % (mm["input"]["sql"], mm["signature"]))
    return mms


def detail(mm):
    return {"sql": mm["input"]["sql"], "history": [l["sql"] + "  -- " + l["ret"] for l in mm["input"]["behaviour"]],
            "expected": mm["expected"], "got": mm["got"], "behaviour": mm["input"]["behaviour"], "seed": lib.seed()}


def run_witnesses(binp, sc, v):
    """Witness files are recorded behaviours (TR lines printed by TLC for a scripted statement sequence,
    each starting at step 1); they are replayed together and the disagreement of each must still be there."""
    fs = [f for f in lib.load_findings(PID) if f.get("witness_file")]
    if not fs:
        return 0
    allp = os.path.join(sc, "witnesses.ndjson")
    owner = []
    with open(allp, "w") as out:
        for f in fs:
            for line in open(os.path.join(lib.VERIF, f["witness_file"])):
                if line.strip():
                    out.write(line.strip() + "\n")
                    owner.append(f["id"])
    rep = replay_file(binp, allp, maxmm=10 ** 6)
    mms = confirm(binp, rep["mismatches"], sc, "w")
    hit = set()
    for mm in mms:
        d = detail(mm)
        d["witness_of"] = owner[mm["case"]]
        hit.add(owner[mm["case"]])
        v.add(mm["signature"], d)
    for f in fs:
        if f["id"] not in hit:
            lib.log("[C21] NOTE: the witness of %s no longer disagrees with the specification" % f["id"])
    return len(mms)


# script number in spec/MC_SchemaChange.tla -> witness file of the finding it demonstrates
WITNESS_OF = {
    1: "C21-rename-table-corrupts-secondary-indexes", 2: "C21-modify-pk-column-corrupts-index-pk-ordinals",
    3: "C21-modify-pk-column-corrupts-index-pk-ordinals", 4: "C21-drop-pk-leaves-stale-index-key-columns",
    5: "C21-add-column-before-indexed-column", 6: "C21-modify-rewrite-keeps-old-type-in-index",
    7: "C21-unique-index-duplicate-test-uses-leading-column-types", 8: "C21-unique-index-duplicate-test-uses-leading-column-types",
    9: "C21-modify-converts-empty-string-to-zero", 10: "C21-drop-column-before-pk-with-secondary-index-fails",
    11: "C21-show-full-columns-collation-constant", 12: "C21-inplace-modify-does-not-recheck-keys",
}


def make_witnesses():
    """(maintenance, run by hand: `python3 run/props/C21.py witnesses`) lets TLC print the specification's
    expectation for the scripted behaviours of spec/MC_SchemaChange.tla and stores them as findings/C21-*.ndjson."""
    r = lib.tlc("MC_SchemaChange", "MC_SchemaChange_witness.cfg", workers=1, timeout=600, heap="2g")
    lib.tlc_ok(r, "MC_SchemaChange")
    by = {}
    for t in r.jsons("TR"):
        by.setdefault(t.pop("sid"), []).append(t)
    files = {}
    for sid in sorted(by):
        steps = sorted(by[sid], key=lambda t: t["step"])
        files.setdefault(WITNESS_OF[sid], []).extend(steps)
    for name, steps in files.items():
        lib.write_ndjson(os.path.join(lib.VERIF, "findings", name + ".ndjson"), steps)
        print(name, len(steps), "steps")


def model_check(cfg, workers):
    workers = min(workers, int(os.environ.get("VERIF_MAX_TLC_WORKERS", "64")))      # a shared box: cap by hand
    r = lib.tlc("SchemaChange", cfg, workers=workers, timeout=1500, heap="4g")
    lib.tlc_ok(r, "SchemaChange/" + cfg)
    return r


def check(tier):
    t0 = time.time()
    binp = lib.build("c21")
    v = lib.Verdict(PID)
    nsim = 30 if tier == "quick" else 500          # per simulation process (two processes)
    with lib.Scratch() as sc:
        with cf.ThreadPoolExecutor(max_workers=5) as ex:
            fm = ex.submit(model_check, "SchemaChange_mc.cfg" if tier == "quick" else "SchemaChange_mcbig.cfg", 3 if tier == "quick" else 8)
            # thorough: also every behaviour of three statements from the empty database
            fq = ex.submit(model_check, "SchemaChange_mcseq.cfg", 3) if tier != "quick" else None
            fs = [ex.submit(simulate, nsim, lib.seed() * 2 + k, sc, "s%d" % k) for k in (0, 1)]
            nbig = 0
            if tier != "quick":      # longer histories over a wider table (5 columns, 6 rows, 3 index names, depth 24)
                nbig = 250
                fs.append(ex.submit(simulate, nbig, lib.seed() * 2 + 7, sc, "big", "SchemaChange_simbig.cfg", 24))
            nw = run_witnesses(binp, sc, v)
            trs, sim_wall = [], 0.0
            for f in fs:
                rs, t, _ = f.result()
                trs += t
                sim_wall = max(sim_wall, rs.wall)
            path = os.path.join(sc, "sim-all.ndjson")
            lib.write_ndjson(path, trs)
            rep = replay_file(binp, path, maxmm=10 ** 6)
            lib.log("[C21] %d behaviours / %d statements replayed (%d comparisons, %d rows), %d disagreements, %.1fs"
                    % (rep["extra"]["behaviours"], rep["cases"], rep["extra"]["comparisons"], rep["extra"]["rows_compared"], len(rep["mismatches"]), time.time() - t0))
            for mm in confirm(binp, rep["mismatches"], sc, "main"):
                v.add(mm["signature"], detail(mm))
            rm = fm.result()
            rq = fq.result() if fq else None
        nb = 2 * nsim + nbig
        # behaviours are cut at their first table-level disagreement: few statements without a reproduced
        # disagreement means the run explored too little (never a verdict)
        if not v.violations and (rep["cases"] < nb * DEPTH * 0.5 or rep["nontrivial"] < nb * DEPTH * 0.1):
            raise lib.Inconclusive("vacuous: %d statements replayed, %d successful schema changes of non-empty tables" % (rep["cases"], rep["nontrivial"]))
        rc = v.finish()
        lib.write_evidence(PID, tier, "model_checking", {
            "states": rm.distinct, "transitions": rm.generated + len(trs),
            "traces_validated_against_impl": rep["extra"]["behaviours"],
            "samples": rep["samples"][:3] or [{"sql": t["sql"], "ret": t["ret"]} for t in trs[:3]],
            "evaluations": rep["extra"]["comparisons"],
            "distinct_nontrivial": rep["nontrivial"],
            "big_behaviours_depth_24": nbig,
            "rule": "every statement of %d TLC behaviours of depth %d (thorough: some of depth 24); after each statement 7 observations + key look-ups compared; non-trivial = a successful schema change (not INSERT / CREATE TABLE) of a table that holds rows" % (nb, DEPTH),
            "statements_replayed": rep["cases"], "rows_compared": rep["extra"]["rows_compared"],
            "steps_skipped_after_divergence": rep["extra"]["steps_skipped_after_divergence"],
            "by_op": rep["extra"]["by_op"], "disagreements_reproduced": len(rep["mismatches"]), "witness_disagreements": nw,
            "mc_distinct_states": rm.distinct, "mc_generated": rm.generated, "mc_wall_s": round(rm.wall, 1), "sim_wall_s": round(sim_wall, 1),
            "mc_seq_distinct_states": rq.distinct if rq else 0, "mc_seq_generated": rq.generated if rq else 0,
        }, time.time() - t0, violations=len(v.violations),
            assumptions=["MySQL strict mode: an ALTER TABLE that cannot represent a stored value in the new type (integer out of range, non-numeric or empty text to integer, text longer than the new length), meets NULL in a column that becomes NOT NULL / primary key, or would create duplicate keys fails without effect",
                         "ADD COLUMN .. NOT NULL without DEFAULT fills existing rows with the implicit default (0, ''); MODIFY COLUMN replaces the whole definition (a default not repeated is dropped); ADD PRIMARY KEY makes its columns NOT NULL and DROP PRIMARY KEY leaves them NOT NULL",
                         "SHOW COLUMNS Key follows the MySQL manual (PRI, UNI for a single-column unique index, MUL for the first column of any other index)"])
        return rc


def replay(path):
    rec = json.load(open(path))
    det = rec["first"]["detail"]
    binp = lib.build("c21")
    with lib.Scratch() as sc:
        p = os.path.join(sc, "b.ndjson")
        lib.write_ndjson(p, det["behaviour"])
        rep = replay_file(binp, p)
        for mm in rep["mismatches"]:
            print("VIOLATION property=C21 replay=%s" % path)
            print(json.dumps({"signature": mm["signature"], "sql": mm["input"]["sql"], "got": mm["got"]})[:3000])
        return 1 if rep["mismatches"] else 0


if __name__ == "__main__":
    import sys
    if sys.argv[1:] == ["witnesses"]:
        make_witnesses()
