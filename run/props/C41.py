"""C41 — persisted accounts and grants reload identically.
Spec: Privileges.tla, action PersistReload = UNCHANGED on the access-control state (property
ReloadIdentity).  Binding: TLC-generated histories (with Persist/Reload steps inside them) replayed
by harness/cmd/priv; at every Persist/Reload step and after every history the privilege database is
persisted through the MySQLDbPersistence interface and loaded (LoadData) into a FRESH engine; SHOW
GRANTS of every account, the stored state and the full probe matrix before and after are recorded and
compared by Trace_Privileges.tla."""
import concurrent.futures, glob, os, random, time
import lib, privcommon as pc

META = {
    "property_id": "C41",
    "level": "model_checking",
    "technique": "TLA+ spec Privileges.tla (PersistReload is the identity on the access-control state; property ReloadIdentity model-checked by TLC); TLC-generated account/grant/role histories replayed on the real engine, persisted with MySQLDb.Persist and loaded with LoadData into a fresh engine inside and after every history; SHOW GRANTS sets, stored privilege state and probe matrices before/after validated by TLC against Trace_Privileges.tla",
    "text": "TLC generates histories of CREATE/DROP USER/ROLE, GRANT/REVOKE (privilege sets and ALL at global/database/table level, WITH GRANT OPTION), GRANT/REVOKE of the dynamic privileges REPLICATION_SLAVE_ADMIN and CLONE_ADMIN ON *.* (each held one with its own grant-option flag; the generator steers towards accounts holding both with different flags), GRANT/REVOKE role (WITH ADMIN OPTION) and Persist/Reload steps. The replayer executes them as a super user; a Persist/Reload step serialises the privilege database through the persister interface and continues the history on a fresh engine loaded from those bytes (the stored state read back must be the specification state, which the step leaves unchanged). After every history the same is done once more and SHOW GRANTS FOR every account (as sets of lines), the stored privilege sets (static atoms and dynamic privileges with their flags) / role edges / locked flags / password hashes, and the allow/deny outcome of every probe statement for every user are compared before vs. after, and the after-matrix is judged against Allowed on the unchanged specification state; the dynamic privileges SHOW GRANTS prints after the reload (name, WITH GRANT OPTION or not) must be the ones of the specification state.",
    "note": "Compared: what the property names (SHOW GRANTS output, allow/deny decisions) plus the stored state of the model's accounts. Not compared: column/routine privileges, dynamic privileges other than the two the engine lets GRANT name, replica source info, password_last_changed, attributes. Dynamic privileges follow Privileges.tla: global only, GRANT ALL ON *.* does not include them (engine: grantAllGlobalPrivileges is documented as static-only; MySQL's ALL does include them), REVOKE ALL ON *.* removes them, WITH GRANT OPTION on a dynamic grant also is the static global GRANT OPTION; re-granting a dynamic privilege without the option it is held with, and GRANT/REVOKE of the static global GRANT OPTION while dynamic privileges are held, are not generated. The probe matrix has one statement that needs a dynamic privilege (STOP REPLICA: REPLICATION_SLAVE_ADMIN; 'no replication controller available' counts as allowed). The replayer's own administrator is an ephemeral super user (never persisted); the persisted super user root@localhost is part of the SHOW GRANTS comparison. Trusted: TLC, the reading of mysql_db's tables in harness/cmd/priv.",
    "design_ref": "§7 C41, §3.3",
}

KINDS = ("reload-error", "reload-showgrants", "reload-showgrants-dyn", "reload-state", "reload-matrix")


def relevant(m):
    return m["kind"] in KINDS or (m["kind"] in ("state", "ret") and m.get("act") == "PersistReload")


def witnesses():
    trs = []
    for p in sorted(glob.glob(os.path.join(lib.VERIF, "findings", "C41-*.ndjson"))):
        trs += lib.read_ndjson(p)
    return trs


def check(tier):
    t0 = time.time()
    binp = lib.build("priv")
    v = lib.Verdict("C41")
    quick = tier == "quick"
    with lib.Scratch() as sc, concurrent.futures.ThreadPoolExecutor(max_workers=2) as pool:
        mc_cfg = "Privileges_mc.cfg" if quick else "Privileges_mc4.cfg"
        mc = pool.submit(lib.tlc, "Privileges", mc_cfg, workers=3 if quick else 6, timeout=1500 if quick else 7200,
                         coverage=not quick, heap="6g")
        # thorough: the dynamic privileges (both, own flags) exhaustively in their own small vocabulary
        mcd = None if quick else pool.submit(lib.tlc, "Privileges", "Privileges_mcdyn.cfg", workers=3, timeout=7200, coverage=True, heap="6g")
        sim_cfg, nsim, depth = ("Privileges_simrq.cfg", 60, 8) if quick else ("Privileges_simr.cfg", 800, 12)
        rs, strs = pc.simulate(sim_cfg, nsim, depth, lib.seed())
        lib.log("[C41] simulate: %d steps %.0fs" % (len(strs), time.time() - t0))
        b = pc.Batch(binp, sc, "c41")
        srep = b.add("sim", strs, pc.FULL, matrix="none", reload=True)
        lib.log("[C41] replay: %s %.0fs" % (srep["extra"], time.time() - t0))
        wtrs = witnesses()
        if wtrs:
            b.add("witness", wtrs, pc.FULL, matrix="none", reload=True)
        mms, sts, und = b.validate()
        lib.log("[C41] validated %d lines: %d MM %.0fs" % (len(b.events), len(mms), time.time() - t0))
        sigs = pc.judge("C41", v, b, mms, relevant, per_sig=1 if quick else 2)
        missing = [f["id"] for f in v.findings if f["id"] not in v.known]
        if missing:
            lib.log("[C41] note: known finding(s) %s did not show this run (fixed?)" % missing)
        other = {}
        for m in mms:
            if not relevant(m):
                s = pc.signature("C39", m)
                other[s] = other.get(s, 0) + 1
        forged = pc.forged_selftest(b, mms, kind_of_reload=True) if not quick else None
        r = mc.result()
        lib.tlc_ok(r, "Privileges/" + mc_cfg)
        rdyn = None
        if not quick:
            z = [a for a in r.coverage_zero() if a != "DynStep"]      # (no dynamic privileges in mc4: they are in mcdyn)
            if z:
                raise lib.Inconclusive("vacuous: actions never taken in %s: %s" % (mc_cfg, z))
            rdyn = mcd.result()
            lib.tlc_ok(rdyn, "Privileges/Privileges_mcdyn.cfg")
            if rdyn.coverage_zero():
                raise lib.Inconclusive("vacuous: actions never taken in Privileges_mcdyn.cfg: %s" % rdyn.coverage_zero())
        reloads = sum(1 for e in b.events if e["ev"] == "reload") + srep["extra"]["by_action"].get("PersistReload", 0)
        nonempty = sum(1 for e in b.events if e["ev"] == "reload" and
                       (e["stb"]["edges"] or any(a["g"] for a in e["stb"]["accts"])))
        rows = sum(s["rows"] for s in sts)
        def dynflags(e):
            return [{d["wgo"] for d in a.get("d", [])} for a in e["stb"]["accts"]]
        with_dyn = sum(1 for e in b.events if e["ev"] == "reload" and any(f for f in dynflags(e)))
        mixed_dyn = sum(1 for e in b.events if e["ev"] == "reload" and any(len(f) == 2 for f in dynflags(e)))
        if reloads < 30 or nonempty < 20 or rows < 3000 or mixed_dyn < 3:
            raise lib.Inconclusive("vacuous: %d reloads (%d of non-empty states, %d with an account holding two dynamic privileges with different grant-option flags), %d probe rows" % (reloads, nonempty, mixed_dyn, rows))
        some = next(e for e in b.events if e["ev"] == "reload" and e["stb"]["edges"] and any(a["g"] for a in e["stb"]["accts"]))
        rc = v.finish()
        lib.write_evidence("C41", tier, "model_checking", {
            "states": r.distinct, "transitions": r.generated,
            "traces_validated_against_impl": len(b.hist),
            "samples": [{"history": [t["act"] for t in b.hist[some["h"]][1]], "show_grants_before": some["gb"], "show_grants_after": some["ga"]}],
            "evaluations": reloads,
            "distinct_nontrivial": nonempty,
            "rule": "evaluations = persist -> load-into-fresh-engine round trips compared (Persist/Reload steps inside histories + one after every history); non-trivial = the reloaded state holds at least one grant or role edge; %d probe outcomes compared before/after and judged against Allowed; %d of the end-of-history round trips with dynamic privileges, %d with an account holding two of them with different grant-option flags" % (rows, with_dyn, mixed_dyn),
            "reloads_with_dynamic_privileges": with_dyn, "reloads_with_mixed_grant_option_flags": mixed_dyn,
            "model_check_dynamic_privileges": None if rdyn is None else {"config": "Privileges_mcdyn.cfg", "states": rdyn.distinct, "transitions": rdyn.generated, "depth": rdyn.depth, "tlc_wall_s": round(rdyn.wall, 1)},
            "model_check": {"config": mc_cfg, "depth": r.depth, "tlc_wall_s": round(r.wall, 1), "property": "ReloadIdentity"},
            "simulated": {"config": sim_cfg, "histories": srep["extra"]["histories"], "depth": depth, "steps": srep["cases"],
                          "by_action": srep["extra"]["by_action"]},
            "trace_lines_validated": len(b.events), "trace_tlc_wall_s": round(b.tlc_wall, 1),
            "mismatch_signatures": sigs, "forged_trace_selftest": forged,
            "not_this_property": other,
        }, time.time() - t0, violations=len(v.violations),
            assumptions=["a fresh engine = new in-memory provider with the same databases/tables, mysql database enabled, root account added, then LoadData(persisted bytes)",
                         "mismatches of steps other than Persist/Reload belong to C39 and are listed under not_this_property"])
        return rc
