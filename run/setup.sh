#!/bin/sh
# Run once in /verif after a fresh restore, offline. Builds every harness binary against /repo
# (warming the Go build cache), SANY-parses every specification module.
set -e
cd "$(dirname "$0")/.."
export GOFLAGS=-mod=mod GOPROXY=off GOSUMDB=off GOTOOLCHAIN=local
python3 - <<'PY'
import sys, os, glob
sys.path.insert(0, "run")
import lib
for d in sorted(glob.glob(os.path.join(lib.HARNESS, "cmd", "*"))):
    lib.build(os.path.basename(d))
PY
tmp=$(mktemp -d)
cp spec/*.tla "$tmp"/
fail=0
for f in "$tmp"/*.tla; do
  if ! (cd "$tmp" && timeout 120 tla-sany "$(basename "$f")" >"$tmp/sany.out" 2>&1); then
    echo "SANY failed: $(basename "$f")"; tail -5 "$tmp/sany.out"; fail=1
  fi
done
rm -rf "$tmp"
[ $fail -eq 0 ] && echo "setup ok"
exit $fail
