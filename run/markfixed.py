#!/usr/bin/env python3
"""markfixed.py <finding-id> <commit> : mark a known finding as repaired by a `fix:` commit of /repo.
A fixed entry suppresses nothing (lib.Verdict only matches open findings); its witness keeps being replayed."""
import json, subprocess, sys
fid, commit = sys.argv[1], sys.argv[2]
path = "/verif/known_findings.jsonl"
full = subprocess.run(["git", "-C", "/repo", "rev-parse", commit], capture_output=True, text=True).stdout.strip()
subj = subprocess.run(["git", "-C", "/repo", "log", "-1", "--format=%s", commit], capture_output=True, text=True).stdout.strip()
assert full and subj.startswith("fix:"), (full, subj)
out, hit = [], False
for line in open(path):
    if line.strip() and not line.startswith("#"):
        d = json.loads(line)
        if d["id"] == fid:
            assert d.get("status", "open") == "open", "already fixed"
            d["status"] = "fixed"
            d["commit"] = full
            d["fixed"] = "fixed: property=%s %s %s" % (d["property"], full[:12], d["what"][:200])
            d["fix_subject"] = subj
            line = json.dumps(d) + "\n"
            hit = True
    out.append(line)
assert hit, "no such finding " + fid
open(path, "w").writelines(out)
print("marked", fid, full[:12])
