"""Shared pieces of the query-semantics checks (C01..C08, C11, C12): chunked parallel trace validation
against spec/Trace_Query.tla, isolation re-runs, classification of disagreements."""
import json, os, re, shutil, subprocess, time, concurrent.futures as cf
import lib


def split_trace(path, chunk):
    """Split an ndjson trace into chunks of ~chunk lines; every chunk starts with the db event in force.
    Returns [(lines, global_line_numbers)]."""
    chunks, cur, nums, db = [], [], [], None
    with open(path) as f:
        for n, line in enumerate(f, 1):
            line = line.rstrip("\n")
            if not line:
                continue
            is_db = line.startswith('{"ev":"db"')
            if is_db:
                db = (line, n)
            if len(cur) >= chunk and not is_db:
                chunks.append((cur, nums))
                cur, nums = ([db[0]], [db[1]]) if db else ([], [])
            elif len(cur) >= chunk and is_db:
                chunks.append((cur, nums))
                cur, nums = [], []
            cur.append(line)
            nums.append(n)
    if cur:
        chunks.append((cur, nums))
    return chunks


def _validate_chunk(args):
    module, cfg, lines, nums, timeout, dfs = args
    d = lib.tempfile.mkdtemp(prefix="verif-tv-")
    try:
        with open(os.path.join(d, "trace.ndjson"), "w") as f:
            f.write("\n".join(lines) + "\n")
        r = lib.tlc(module, cfg, workdir=d, workers=1, timeout=timeout, heap="2g", dfs=dfs)
        mms = []
        for m in r.jsons("MM"):
            m["line"] = nums[m["l"] - 1]
            mms.append(m)
        bad = None
        if r.error or not r.completed:
            bad = (r.error or "TLC did not complete") + "\n" + r.out[-1500:]
        return mms, r.distinct, bad
    finally:
        shutil.rmtree(d, ignore_errors=True)


def validate_trace(path, module="Trace_Query", cfg=None, chunk=300, procs=None, timeout=900, dfs=False):
    """Validate a recorded trace with TLC, chunks in parallel. Returns (mismatches, states).
    A chunk that TLC did not fully consume (evaluation error, postcondition) raises Inconclusive."""
    cfg = cfg or module + ".cfg"
    chunks = split_trace(path, chunk)
    procs = procs or max(1, lib.NCPU - 2)
    mms, states = [], 0
    with cf.ThreadPoolExecutor(max_workers=procs) as ex:
        for res, st, bad in ex.map(_validate_chunk, [(module, cfg, c, n, timeout, dfs) for c, n in chunks]):
            if bad:
                raise lib.Inconclusive("trace validation did not complete: " + bad)
            mms.extend(res)
            states += st
    return mms, states


def load_events(path):
    evs = {}
    with open(path) as f:
        for n, line in enumerate(f, 1):
            if line.strip():
                evs[n] = json.loads(line)
    return evs


def msg_class(msg):
    """Normalise an engine error message to a short class (numbers and quoted names removed)."""
    m = re.sub(r"[`'\"][^`'\"]*[`'\"]", "_", msg or "")
    m = re.sub(r"\d+", "N", m)
    return m.strip().split("\n")[0][:80]


def signature(prefix, ev):
    """Signature of a disagreement: property-level prefix, outcome kind (+ error class), shape tags."""
    res = ev.get("res") or {}
    kind = res.get("kind", "?")
    if kind in ("err", "panic"):
        kind += ":" + msg_class(res.get("msg", ""))
    return "%s|%s|%s" % (prefix, kind, ",".join(ev.get("tags", [])))


def sql_value(v):
    if v["t"] == "n":
        return None
    if v["t"] == "s":
        return "".join(chr(c) for c in v["v"])
    return v.get("v", v.get("s"))


def pretty_rows(rows):
    return [[sql_value(v) for v in r] for r in rows]


def run_witnesses(binp, pid, verdict, sc):
    """Execute the recorded witness of every finding of pid (open AND fixed: a fixed defect that
    returns is a violation) in one engine process and one TLC validation; a witness that still
    disagrees with the specification is reported through the verdict (-> KNOWN-FINDING if open)."""
    fs = [f for f in lib.load_findings(pid) if f.get("witness_file")]
    if not fs:
        return 0
    src = os.path.join(sc, "witnesses-in.ndjson")
    owner = {}
    with open(src, "w") as out:
        for k, f in enumerate(fs):
            for line in open(os.path.join(lib.VERIF, f["witness_file"])):
                if not line.strip():
                    continue
                e = json.loads(line)
                if "id" in e:
                    e["id"] = 9000000 + k * 1000 + e["id"] % 1000
                    owner[e["id"]] = f["id"]
                out.write(json.dumps(e) + "\n")
    res = os.path.join(sc, "witnesses-out.ndjson")
    lib.run_report([binp, "-mode", "exec", "-in", src, "-out", res])
    mms, _ = validate_trace(res, chunk=1000, procs=2)
    evs = load_events(res)
    for m in mms:
        ev = bad_result(evs[m["line"]], m)
        verdict.add(signature(pid, ev), {"sql": ev.get("sql"), "got": ev.get("res"), "witness_of": owner.get(ev.get("id"))})
    return len(mms)


# ---------------------------------------------------------------- generic driver-based check

def confirm_batch(binp, pid, run_args, evs, scd, tag="case", module="Trace_Query"):
    """Re-run the given mismatching cases alone in ONE fresh process and re-validate them. Returns the
    set of ids that disagree again; keeps one isolated case file per confirmed id under replays/."""
    if not evs:
        return set()
    ids = sorted({e["id"] for e in evs})
    out = os.path.join(scd, "confirm-%s.ndjson" % tag)
    lib.run_report([binp] + run_args + ["-only", ",".join(map(str, ids)), "-out", out])
    mms, _ = validate_trace(out, module=module, chunk=400)
    cevs = load_events(out)
    again = {cevs[m["line"]]["id"] for m in mms}
    d = os.path.join(lib.VERIF, "replays", pid)
    os.makedirs(d, exist_ok=True)
    lines = open(out).read().splitlines()
    cur_db = None
    for line in lines:
        if line.startswith('{"ev":"db"'):
            cur_db = line
            continue
        e = json.loads(line)
        if e.get("id") in again:
            keep = os.path.join(d, "%s-seed%d-id%d.ndjson" % (tag, lib.seed(), e["id"]))
            with open(keep, "w") as f:
                f.write((cur_db or "") + "\n" + line + "\n")
            for ev in evs:
                if ev["id"] == e["id"]:
                    ev["case_file"] = keep
    return again


def bad_result(ev, m):
    """For multi/same events: a copy of ev focused on the first disagreeing variant."""
    if ev.get("ev") in ("multi", "same") and m.get("bad"):
        i = sorted(m["bad"])[0] - 1
        e2 = dict(ev)
        e2["res"] = ev["ress"][i]
        e2["sql"] = ev["sqls"][i]
        e2["variant"] = (ev.get("labels") or [str(i)] * (i + 1))[i]
        return e2
    if ev.get("ev") in ("tlp", "equiv"):
        e2 = dict(ev)
        ress = [ev[k] for k in ("all", "t", "f", "n", "sel")] if ev["ev"] == "tlp" else ev["ress"]
        bad = [r for r in ress if r["kind"] != "rows"]
        e2["res"] = bad[0] if bad else ress[0]
        e2["sql"] = " ;; ".join(ev.get("sqls", [])[1:3])
        e2["variant"] = "%s:%s problems=%s meaning=%s" % (ev["ev"], ev.get("place") or ev.get("kind"),
                                                         ",".join(sorted(m.get("problems", []))), sorted(m.get("meaning", [])))
        return e2
    return ev


def driver_check(pid, tier, gen_args, rule, chunk=80, level="model_checking", extra_cov=None, assumptions=(), mc_sample=0, module="Trace_Query", binary="sqlq"):
    """Generate with cmd/sqlq (gen_args), validate every recorded event with TLC against
    Trace_Query/SQLSem, confirm each disagreement in isolation, classify, write evidence."""
    t0 = time.time()
    binp = lib.build(binary)
    v = lib.Verdict(pid)
    with lib.Scratch() as scd:
        nw = run_witnesses(lib.build("sqlq") if binary != "sqlq" else binp, pid, v, scd)
        mc_cov = run_mc_cases(lib.build("sqlq"), pid, v, scd, mc_sample) if mc_sample else {}
        trace = os.path.join(scd, "trace.ndjson")
        rep = lib.run_report([binp] + gen_args + ["-out", trace], timeout=3000)
        lib.log("[%s] generated %d cases in %.1fs" % (pid, rep["cases"], time.time() - t0))
        mms, states = validate_trace(trace, module=module, chunk=chunk)
        lib.log("[%s] validated, %d mismatches, %.1fs" % (pid, len(mms), time.time() - t0))
        evs = load_events(trace)
        bad = [evs[m["line"]] for m in mms]
        again = confirm_batch(binp, pid, gen_args, bad, scd, module=module)
        for m in mms:
            ev = evs[m["line"]]
            if ev["id"] not in again:
                raise lib.Inconclusive("mismatch did not reproduce in isolation: %s" % (ev.get("sql") or ev.get("sqls")))
            b = bad_result(ev, m)
            sig = signature(pid, b)
            if b.get("variant"):
                sig += "|variant:" + b["variant"]
            v.add(sig, {"sql": b.get("sql"), "got": b.get("res"), "expected_rows": pretty_rows(m.get("exp", [])),
                        "id": ev["id"], "seed": lib.seed(), "gen_args": gen_args, "case_file": ev.get("case_file"),
                        "what": m.get("what")})
        rc = v.finish()
        cov = {
            "states": states, "transitions": states,
            "traces_validated_against_impl": rep["cases"],
            "samples": rep["samples"] or ["(no sample met the sampling rule this run)"],
            "evaluations": rep["cases"], "distinct_nontrivial": rep["nontrivial"],
            "rule": rule, "result_kinds": rep["extra"].get("result_kinds"),
            "mismatches_reproduced": len(mms), "witness_mismatches": nw,
        }
        cov.update({k: v2 for k, v2 in rep["extra"].items() if k != "result_kinds"})
        cov.update(mc_cov)
        if extra_cov:
            cov.update(extra_cov)
        lib.write_evidence(pid, tier, level, cov, time.time() - t0, violations=len(v.violations), assumptions=assumptions)
        return rc


def replay_case(pid, path, module="Trace_Query"):
    """Re-run a recorded case file (db + q/multi events) on the current tree and re-validate it."""
    binp = lib.build("sqlq")
    if path.endswith(".json"):
        path = json.load(open(path))["first"]["detail"]["case_file"]
    with lib.Scratch() as scd:
        out = os.path.join(scd, "replay.ndjson")
        lib.run_report([binp, "-mode", "exec", "-in", path, "-out", out])
        mms, _ = validate_trace(out, module=module, chunk=1000, procs=1)
        evs = load_events(out)
        for m in mms:
            print("VIOLATION property=%s replay=%s" % (pid, path))
            print(json.dumps({"sql": evs[m["line"]].get("sql"), "got": evs[m["line"]].get("res"), "expected": m.get("exp")})[:2000])
        return 1 if mms else 0


# ---------------------------------------------------------------- binding A: TLC-enumerated query cases

def mc_query_cases(n, path, id_base=1000000):
    """TLC (spec/MC_Query.tla, simulate mode) draws n (table, predicate) pairs from the bounded
    enumeration, checks the design-level laws on each, and emits the query family of each pair; the
    cases are written as db/q events for `sqlq -mode exec`. Returns (number of queries, TLCResult)."""
    r = lib.tlc("MC_Query", "MC_Query_emit.cfg", workers=1, timeout=900, simulate="num=%d" % n, depth=3,
                tlc_seed=lib.seed(), heap="3g")
    if r.error or r.invariant_violated:
        raise lib.Inconclusive("MC_Query: %s\n%s" % (r.error or r.invariant_violated, r.out[-2000:]))
    cases = r.jsons("CASE")
    if len(cases) < n * 0.9:
        raise lib.Inconclusive("MC_Query emitted only %d cases" % len(cases))
    urows = [[{"t": "i", "v": 1}, {"t": "n"}], [{"t": "i", "v": 0}, {"t": "i", "v": 1}]]
    cases.sort(key=lambda c: json.dumps(c["tb"], sort_keys=True))
    last, nq = None, 0
    with open(path, "w") as f:
        for c in cases:
            key = json.dumps(c["tb"], sort_keys=True)
            if key != last:
                last = key
                cols = [{"ty": "i", "coll": "none", "notnull": False}] * 2
                schema = [{"name": "t", "cols": cols, "pk": [], "indexes": [], "unique": [], "rows": c["tb"]},
                          {"name": "u", "cols": cols, "pk": [], "indexes": [], "unique": [], "rows": urows}]
                f.write(json.dumps({"ev": "db", "db": {"t": {"w": 2, "rows": c["tb"]}, "u": {"w": 2, "rows": urows}},
                                    "schema": schema}) + "\n")
            for q in c["qs"]:
                nq += 1
                f.write(json.dumps({"ev": "q", "id": id_base + nq, "q": q}) + "\n")
    return nq, r


def run_mc_cases(binp, pid, verdict, scd, n):
    """Binding A for the query properties: execute TLC-enumerated cases on the engine and validate."""
    cases = os.path.join(scd, "mc-cases.ndjson")
    nq, r = mc_query_cases(n, cases)
    out = os.path.join(scd, "mc-trace.ndjson")
    rep = lib.run_report([binp, "-mode", "exec", "-in", cases, "-out", out], timeout=1800)
    mms, states = validate_trace(out, chunk=300)
    evs = load_events(out)
    bad = [evs[m["line"]] for m in mms]
    again = confirm_batch(binp, pid, ["-mode", "exec", "-in", cases], bad, scd, tag="case-mc")
    for m in mms:
        ev = evs[m["line"]]
        if ev["id"] not in again:
            raise lib.Inconclusive("enumerated-case mismatch did not reproduce: %s" % ev.get("sql"))
        verdict.add(signature(pid, ev) + "|enumerated", {"sql": ev.get("sql"), "got": ev.get("res"),
                    "expected_rows": pretty_rows(m.get("exp", [])), "case_file": ev.get("case_file")})
    return {"mc_cases_drawn": n, "mc_queries_executed": rep["cases"], "mc_states_validated": states,
            "mc_tlc_wall_s": round(r.wall, 1), "mc_mismatches": len(mms)}
