"""Shared pieces of the query-semantics checks (C01..C08, C11, C12): chunked parallel trace validation
against spec/Trace_Query.tla, isolation re-runs, classification of disagreements."""
import json, os, re, shutil, subprocess, time, concurrent.futures as cf
import lib


def split_trace(path, chunk):
    """Split an ndjson trace into chunks of ~chunk lines; every chunk starts with the db event in force.
    Returns [(lines, global_line_numbers)]."""
    chunks, cur, nums, db = [], [], [], None
    with open(path) as f:
        for n, line in enumerate(f, 1):
            line = line.rstrip("\n")
            if not line:
                continue
            is_db = line.startswith('{"ev":"db"')
            if is_db:
                db = (line, n)
            if len(cur) >= chunk and not is_db:
                chunks.append((cur, nums))
                cur, nums = ([db[0]], [db[1]]) if db else ([], [])
            elif len(cur) >= chunk and is_db:
                chunks.append((cur, nums))
                cur, nums = [], []
            cur.append(line)
            nums.append(n)
    if cur:
        chunks.append((cur, nums))
    return chunks


def _validate_chunk(args):
    module, cfg, lines, nums, timeout, dfs = args
    d = lib.tempfile.mkdtemp(prefix="verif-tv-")
    try:
        with open(os.path.join(d, "trace.ndjson"), "w") as f:
            f.write("\n".join(lines) + "\n")
        r = lib.tlc(module, cfg, workdir=d, workers=1, timeout=timeout, heap="2g", dfs=dfs)
        mms = []
        for m in r.jsons("MM"):
            m["line"] = nums[m["l"] - 1]
            mms.append(m)
        bad = None
        if r.error or not r.completed:
            bad = (r.error or "TLC did not complete") + "\n" + r.out[-1500:]
        return mms, r.distinct, bad
    finally:
        shutil.rmtree(d, ignore_errors=True)


def validate_trace(path, module="Trace_Query", cfg=None, chunk=300, procs=None, timeout=900, dfs=False):
    """Validate a recorded trace with TLC, chunks in parallel. Returns (mismatches, states).
    A chunk that TLC did not fully consume (evaluation error, postcondition) raises Inconclusive."""
    cfg = cfg or module + ".cfg"
    chunks = split_trace(path, chunk)
    procs = procs or max(1, lib.NCPU - 2)
    mms, states = [], 0
    with cf.ThreadPoolExecutor(max_workers=procs) as ex:
        for res, st, bad in ex.map(_validate_chunk, [(module, cfg, c, n, timeout, dfs) for c, n in chunks]):
            if bad:
                raise lib.Inconclusive("trace validation did not complete: " + bad)
            mms.extend(res)
            states += st
    return mms, states


def load_events(path):
    evs = {}
    with open(path) as f:
        for n, line in enumerate(f, 1):
            if line.strip():
                evs[n] = json.loads(line)
    return evs


def msg_class(msg):
    """Normalise an engine error message to a short class (numbers and quoted names removed)."""
    m = re.sub(r"[`'\"][^`'\"]*[`'\"]", "_", msg or "")
    m = re.sub(r"\d+", "N", m)
    return m.strip().split("\n")[0][:80]


def signature(prefix, ev):
    """Signature of a disagreement: property-level prefix, outcome kind (+ error class), shape tags."""
    res = ev.get("res") or {}
    kind = res.get("kind", "?")
    if kind in ("err", "panic"):
        kind += ":" + msg_class(res.get("msg", ""))
    return "%s|%s|%s" % (prefix, kind, ",".join(ev.get("tags", [])))


def sql_value(v):
    if v["t"] == "n":
        return None
    if v["t"] == "s":
        return "".join(chr(c) for c in v["v"])
    return v.get("v", v.get("s"))


def pretty_rows(rows):
    return [[sql_value(v) for v in r] for r in rows]


def run_witnesses(binp, pid, verdict, sc):
    """Execute the recorded witness of every open finding of pid that has one; a witness that still
    disagrees with the specification is reported through the verdict (-> KNOWN-FINDING)."""
    n = 0
    for f in lib.load_findings(pid):      # open AND fixed: a fixed defect that returns is a violation
        wit = f.get("witness_file")
        if not wit:
            continue
        src = os.path.join(lib.VERIF, wit)
        out = os.path.join(sc, "wit-%s.ndjson" % f["id"])
        lib.run_report([binp, "-mode", "exec", "-in", src, "-out", out])
        mms, _ = validate_trace(out, chunk=1000, procs=2)
        evs = load_events(out)
        for m in mms:
            ev = evs[m["line"]]
            verdict.add(signature(pid, ev), {"sql": ev.get("sql"), "got": ev.get("res"), "witness_of": f["id"]})
            n += 1
    return n
