#!/usr/bin/env python3
"""Validates MANIFEST.json and every evidence file against the schemas (uses the tooling venv)."""
import json, glob, sys
import jsonschema
ms = json.load(open('/root/.vp/MANIFEST.schema.json')); es = json.load(open('/root/.vp/EVIDENCE.schema.json'))
jsonschema.validate(json.load(open('/verif/MANIFEST.json')), ms)
bad = 0
for f in sorted(glob.glob('/verif/evidence/*.json')):
    try:
        jsonschema.validate(json.load(open(f)), es)
    except Exception as e:
        bad += 1; print("INVALID", f, str(e)[:300])
print("manifest valid; evidence files:", len(glob.glob('/verif/evidence/*.json')), "invalid:", bad)
sys.exit(1 if bad else 0)
