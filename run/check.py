#!/usr/bin/env python3
"""Entry point of every registered check:  python3 run/check.py <ID> quick|thorough
   Replay of a recorded violation:            python3 run/check.py <ID> --replay <path>
Each property lives in run/props/<ID>.py exposing META (manifest entry) and check(tier) -> exit code."""
import importlib.util, os, sys, time, traceback
sys.path.insert(0, os.path.dirname(os.path.abspath(__file__)))
import lib


def load(pid):
    path = os.path.join(lib.VERIF, "run", "props", pid + ".py")
    if not os.path.exists(path):
        print("no check for " + pid, file=sys.stderr)
        sys.exit(2)
    spec = importlib.util.spec_from_file_location("prop_" + pid, path)
    mod = importlib.util.module_from_spec(spec)
    spec.loader.exec_module(mod)
    return mod


def main():
    if len(sys.argv) < 3:
        print(__doc__, file=sys.stderr)
        sys.exit(2)
    pid, tier = sys.argv[1], sys.argv[2]
    os.chdir(lib.VERIF)
    mod = load(pid)
    try:
        if tier == "--replay":
            rc = mod.replay(sys.argv[3])
        else:
            tier = os.environ.get("VERIF_TIER", tier)
            if tier not in ("quick", "thorough"):
                tier = "quick"
            rc = mod.check(tier)
    except lib.Inconclusive as e:
        print("INCONCLUSIVE property=%s: %s" % (pid, e), file=sys.stderr)
        rc = 2
    except Exception:
        traceback.print_exc()
        print("INCONCLUSIVE property=%s: internal error of the check" % pid, file=sys.stderr)
        rc = 2
    sys.exit(rc)


if __name__ == "__main__":
    main()
