#!/usr/bin/env python3
"""Regenerates the generated tables of DESIGN.md (between <!-- gen:NAME --> and <!-- /gen:NAME --> markers):
   fixes (11.2) and open findings (11.3), from known_findings.jsonl and /repo's git log."""
import json, re, subprocess, collections
fs = [json.loads(l) for l in open('/verif/known_findings.jsonl') if l.strip() and not l.startswith('#')]
subj = {}
for l in subprocess.run(['git', '-C', '/repo', 'log', '--format=%H %s'], capture_output=True, text=True).stdout.splitlines():
    h, s = l.split(' ', 1)
    subj[h] = s
def full(c):
    for h in subj:
        if h.startswith(c): return h
    return c
rows = collections.OrderedDict()
for f in fs:
    if f['status'] == 'fixed':
        h = full(f['commit'])
        rows.setdefault(h, []).append(f)
order = [h for h in reversed(list(subj)) if h in rows]
fix = ['| commit | subject | property: finding ids |', '|---|---|---|']
for h in order:
    fix.append('| %s | %s | %s |' % (h[:9], subj.get(h, '?').replace('|', '\\|'), '; '.join('%s: %s' % (f['property'], f['id']) for f in rows[h])))
op = collections.defaultdict(list)
for f in fs:
    if f['status'] == 'open': op[f['property']].append(f)
opn = ['| property | open findings (id — what, first sentence) |', '|---|---|']
for p in sorted(op):
    items = ['`%s` — %s' % (f['id'], re.split(r'(?<=[a-z\)])[:;.] ', f['what'])[0][:160].replace('|', '\\|')) for f in op[p]]
    opn.append('| %s (%d) | %s |' % (p, len(items), '<br>'.join(items)))
import glob, os
seeds = ['| seed | the change | caught by (quick tier unless noted) | missed by / what was strengthened |', '|---|---|---|---|']
for mp in sorted(glob.glob('/verif/seeded/*/meta.json')):
    m = json.load(open(mp))
    cr = m.get('checks_run', {})
    cell = lambda xs: '<br>'.join(x.replace('|', '\\|') for x in xs) if xs else '—'
    summ = m.get('summary', '').replace('|', '\\|')
    seeds.append('| %s | %s | %s | %s |' % (os.path.basename(os.path.dirname(mp)), summ[:260] + ('…' if len(summ) > 260 else ''), cell(cr.get('caught_by', [])), cell(cr.get('missed_by', []))))
import re as _re
mg = collections.defaultdict(list)
for n in sorted(os.listdir('/verif/selftest/mutants')):
    m = _re.match(r'^(c|dml_)(\d+)?', n)
    if n.startswith('seed_') or n.startswith('fix_'):
        continue
    k = 'C' + m.group(2) if m and m.group(2) else 'C13/C14 (dml_*)'
    mg[k].append(n)
muts = ['| check | one-line code mutants (each makes the check exit 1) |', '|---|---|']
for k in sorted(mg):
    muts.append('| %s (%d) | %s |' % (k, len(mg[k]), ', '.join('`%s`' % x for x in mg[k])))
s = open('/verif/DESIGN.md').read()
for name, body in (('fixes', fix), ('open', opn), ('seeds', seeds), ('mutants', muts)):
    a, b = '<!-- gen:%s -->' % name, '<!-- /gen:%s -->' % name
    if a in s:
        s = s[:s.index(a) + len(a)] + '\n' + '\n'.join(body) + '\n' + s[s.index(b):]
open('/verif/DESIGN.md', 'w').write(s)
print('seeds:', len(seeds) - 2)
print('fix commits:', len(order), 'fixed findings:', sum(len(v) for v in rows.values()), 'open findings:', sum(len(v) for v in op.values()))
