"""Shared machinery of the data-modification checks C13, C14, C16, C19, C20.

Specification: spec/SQLTables.tla (statement meanings as SETS of allowed (post-state, reply) pairs),
spec/MC_Tables.tla (bounded exhaustive models + invariants + action properties),
spec/Trace_Tables.tla (binding B: recorded engine histories validated by TLC, resynchronising).
Driver: harness/cmd/dml (generators in harness/lib/dmlgen, AST mirror in harness/lib/dmlast).

Every verdict comes from TLC: Python only selects each property's PROJECTION of the `what` list
that Trace_Tables prints for a disagreeing statement, builds signatures, re-runs disagreeing
histories in isolation, and (thorough tier, binding A) walks the transition graph TLC dumped from
MC_Tables and has the engine execute those TLC-generated behaviours."""
import json, os, random, shutil, threading, time, concurrent.futures as cf
import lib, sqlcommon as sc

MODULE = "Trace_Tables"
PROFILE_WHAT = {
    "C13": ("kind", "post", "affected"),
    "C14": ("inv:pk", "inv:uniq"),
    "C16": ("probe",),
    "C19": ("post", "inv:notnull", "inv:check", "inv:gen"),
    "C20": ("kind", "post", "insert_id"),
}


# ---------------------------------------------------------------- trace validation

def split_histories(path, per_chunk):
    """Chunks of whole histories (a history starts with its schema event)."""
    chunks, cur, nums, nh = [], [], [], 0
    with open(path) as f:
        for n, line in enumerate(f, 1):
            line = line.rstrip("\n")
            if not line:
                continue
            if line.startswith('{"ev":"schema"'):
                if nh >= per_chunk and cur:
                    chunks.append((cur, nums))
                    cur, nums, nh = [], [], 0
                nh += 1
            cur.append(line)
            nums.append(n)
    if cur:
        chunks.append((cur, nums))
    return chunks


def validate(path, per_chunk=5, procs=8, timeout=1200):
    """Validate a recorded trace with TLC (Trace_Tables), whole histories per chunk, chunks in
    parallel.  Returns (mismatch records with global `line`, states explored)."""
    chunks = split_histories(path, per_chunk)
    mms, states = [], 0
    with cf.ThreadPoolExecutor(max_workers=max(1, procs)) as ex:
        for res, st, bad in ex.map(sc._validate_chunk, [(MODULE, MODULE + ".cfg", c, n, timeout, False) for c, n in chunks]):
            if bad:
                raise lib.Inconclusive("trace validation did not complete: " + bad)
            mms.extend(res)
            states += st
    return mms, states


def got_kind(ev):
    r = ev["reply"]
    return r["kind"] + (":" + r["class"] if r.get("class") else "")


def exp_kinds(mm):
    return sorted({o["reply"]["kind"] + (":" + o["reply"]["class"] if o["reply"]["class"] else "") for o in mm["exp"]})


def project(pid, mm, ev):
    """The part of a disagreement that the property `pid` states something about."""
    what = mm["what"]
    got, exp = got_kind(ev), exp_kinds(mm)
    involved = lambda cls: cls in got or any(cls in x for x in exp)
    out = [w for w in what if w in PROFILE_WHAT[pid]]
    if pid == "C19" and ev["stmt"]["k"] != "insert" and "post" in out:
        out.remove("post")        # defaults are an INSERT matter; updates are judged by the invariants on the log
    if pid == "C14" and "post" in what and not out and ev["stmt"]["k"] == "insert" and ev["stmt"].get("mode") in ("ignore", "replace", "odku") \
            and {"pk1", "pkN", "uniq"} & set(ev.get("tags", [])):
        # INSERT IGNORE / REPLACE / ON DUPLICATE KEY UPDATE on a keyed table: the outcome kind is allowed but the
        # contents are not, i.e. a row was skipped / replaced / updated although the specification sees no key
        # collision for it, or was not although it does (when a key invariant breaks too, that is the report)
        out.insert(0, "post")
    if "kind" in what and "kind" not in out:
        if pid == "C14" and involved("dup"):
            out.insert(0, "kind")
        if pid == "C19" and (involved("notnull") or involved("check")):
            out.insert(0, "kind")
    if pid == "C16":
        return out if mm.get("postok", True) else []
    # a disagreement that starts from tables the engine had already corrupted is a consequence of
    # the earlier disagreement (which was reported when the invariant first broke)
    if not mm.get("preok", True):
        return []
    return out


def signature(pid, mm, ev, proj):
    if pid == "C16":
        ps = [ev["probes"][i - 1] for i in mm.get("badprobes", [])]
        kinds = sorted({("pk" if p["idx"] == "PRIMARY" else "uniq" if p["idx"].startswith("u") else "plain") + "/" + p["via"] for p in ps})
        return "C16|probe|%s|after=%s|%s" % (",".join(kinds), ev["stmt"]["k"], ",".join(ev.get("tags", [])))
    diag = []
    if "affected" in proj:
        los = [o["reply"]["lo"] for o in mm["exp"] if o["reply"]["kind"] == "ok"]
        diag.append("aff<lo" if los and ev["reply"]["affected"] < min(los) else "aff>hi")
    if ev.get("_lastgen"):
        diag.append("lastgen=" + ev["_lastgen"])   # the kind of the last successful generating INSERT before LAST_INSERT_ID()
    # (ev["_alterlow"], the history saw ALTER TABLE .. AUTO_INCREMENT = n with n <= a stored id, is no longer
    # part of the signature: the finding it classified is fixed and such ALTERs are now a regular part of the
    # C20 histories, so the flag would only hide the signatures of the remaining open findings)
    if mm.get("binok"):
        diag.append("cionly")     # TLC: the outcome is the allowed one once key collations are taken as binary
    return "%s|%s|got=%s|exp=%s|%s|%s" % (pid, "+".join(proj), got_kind(ev), ",".join(exp_kinds(mm)), ",".join(diag), ",".join(ev.get("tags", [])))


def mark_alterlow(evs):
    """Shape bookkeeping for signatures: flag every statement of a history that comes after an
    ALTER TABLE .. AUTO_INCREMENT = n whose n does not exceed the largest stored id."""
    low, lastgen = set(), {}
    for n in sorted(evs):
        e = evs[n]
        if e.get("ev") != "stmt":
            continue
        if e["h"] in low:
            e["_alterlow"] = True
        st = e["stmt"]
        if st["k"] == "lastid":
            e["_lastgen"] = lastgen.get(e["h"], "")
        if st["k"] == "insert" and e["reply"]["kind"] == "ok" and "generates" in e.get("tags", []):
            lastgen[e["h"]] = st["mode"] + ("/firstexplicit" if "firstexplicit" in e["tags"] else "")
        if st["k"] == "alterauto":
            ids = [r[0]["v"] for r in e["post"].get(st["t"], []) if r and r[0].get("t") == "i"]
            if ids and st["n"] <= max(ids):
                low.add(e["h"])


def pretty_rows(rows):
    return [[sc.sql_value(v) if v.get("t") in ("n", "i", "s") else v for v in r] for r in rows]


def detail(mm, ev, extra=None):
    d = {"id": ev["id"], "history": ev["h"], "sql": ev.get("sql"), "reply": ev["reply"], "what": mm["what"],
         "post": {t: pretty_rows(r) for t, r in ev["post"].items()},
         "allowed": [{"reply": o["reply"], "table": o["t"], "rows": pretty_rows(o["rows"])} for o in mm["exp"][:4]],
         "seed": lib.seed()}
    if mm.get("badprobes"):
        p = ev["probes"][mm["badprobes"][0] - 1]
        d["probe"] = {"sql": p["sql"], "via": p["via"], "idx": p["idx"], "got": pretty_rows(p["res"].get("rows", [])),
                      "expected": pretty_rows(mm.get("expprobe", []))}
    if extra:
        d.update(extra)
    return d


def history_sql(path, h, upto):
    """The statements of one recorded history as SQL text (for reports)."""
    out = []
    for e in lib.read_ndjson(path):
        if e.get("h") != h:
            continue
        if e["ev"] == "schema":
            out += e.get("create", [])
        elif e["ev"] == "stmt" and e["id"] <= upto:
            out.append(e["sql"])
    return out


# ---------------------------------------------------------------- isolation re-run

def confirm_all(binp, args, pid, jobs, scd, tag="c", attempt=1):
    """Re-run the history of every disagreeing statement alone (fresh process, fresh engine, up to
    that statement); all re-runs are validated together by TLC.  Returns, per job, the kept case file
    (the recorded re-run) iff the same projected disagreement showed again, else None."""
    if not jobs:
        return []
    def rerun(k):
        m, ev, proj = jobs[k]
        out = os.path.join(scd, "%s-%d-%d.ndjson" % (tag, k, ev["id"]))
        lib.run_report([binp] + args + ["-only", str(ev["h"]), "-upto", str(ev["id"]), "-out", out])
        return out
    with cf.ThreadPoolExecutor(max_workers=6) as ex:
        outs = list(ex.map(rerun, range(len(jobs))))
    allp = os.path.join(scd, tag + "-all.ndjson")
    owner = {}                      # global line -> job
    with open(allp, "w") as f:
        n = 0
        for k, o in enumerate(outs):
            for line in open(o):
                if line.strip():
                    n += 1
                    owner[n] = k
                    f.write(line)
    mms, _ = validate(allp, per_chunk=max(1, (len(jobs) + 3) // 4), procs=4)
    evs = sc.load_events(allp)
    mark_alterlow_runs(evs, owner)
    res = [None] * len(jobs)
    # exact: the same statement disagrees in the same projection; otherwise (engine behaviour that
    # depends on map iteration / unstable sort order) the same kind of disagreement anywhere in the
    # re-run history prefix still shows the property broken for that history
    for exact in (True, False):
        for m in mms:
            k = owner[m["line"]]
            e2 = evs[m["line"]]
            _, ev, proj = jobs[k]
            if res[k] is None and project(pid, m, e2) == proj and (e2["id"] == ev["id"] or not exact):
                d = os.path.join(lib.VERIF, "replays", pid)
                os.makedirs(d, exist_ok=True)
                keep = os.path.join(d, "case-seed%d-id%d.ndjson" % (lib.seed(), ev["id"]))
                shutil.copy(outs[k], keep)
                res[k] = keep
    missing = [k for k in range(len(jobs)) if res[k] is None]
    if missing and attempt < 3:
        again = confirm_all(binp, args, pid, [jobs[k] for k in missing], scd, "%s%d" % (tag, attempt), attempt + 1)
        for k, r in zip(missing, again):
            res[k] = r
    return res


def mark_alterlow_runs(evs, owner):
    """mark_alterlow for a concatenation of re-runs (the same history number may occur several times)."""
    by = {}
    for n, e in evs.items():
        by.setdefault(owner[n], {})[n] = e
    for sub in by.values():
        mark_alterlow(sub)


def judge_trace(pid, binp, args, trace, verdict, scd, per_chunk=5, procs=8, max_confirm=3, tag="c"):
    """Validate a trace; every disagreement inside the property's projection is re-run in isolation
    (the first `max_confirm` per signature) and only then handed to the verdict.
    Returns statistics."""
    mms, states = validate(trace, per_chunk=per_chunk, procs=procs)
    evs = sc.load_events(trace)
    mark_alterlow(evs)
    by_sig, cascade, other = {}, 0, 0
    for m in mms:
        ev = evs[m["line"]]
        proj = project(pid, m, ev)
        if not proj:
            if not m.get("preok", True):
                cascade += 1
            else:
                other += 1
            continue
        by_sig.setdefault(signature(pid, m, ev, proj), []).append((m, ev, proj))
    jobs = []
    for rank in range(max_confirm):       # one per signature always, further ones while the batch stays small
        for sig, items in by_sig.items():
            if rank < len(items) and (rank == 0 or len(jobs) < 10):
                m, ev, proj = items[rank]
                jobs.append((sig, m, ev, proj))
    confirmed = 0
    kept = confirm_all(binp, args, pid, [(m, ev, proj) for _, m, ev, proj in jobs], scd, tag)
    for (sig, m, ev, proj), keep in zip(jobs, kept):
        if not keep:
            raise lib.Inconclusive("disagreement did not reproduce in isolation: history %d statement %d %s %s"
                                   % (ev["h"], ev["id"], ev.get("sql"), m["what"]))
        confirmed += 1
        verdict.add(sig, detail(m, ev, {"case_file": keep, "occurrences_of_signature": len(by_sig[sig]),
                                        "history_sql": history_sql(keep, ev["h"], ev["id"])}))
    return {"states": states, "mismatches": len(mms), "in_projection": sum(len(v) for v in by_sig.values()),
            "signatures": sorted(by_sig), "confirmed": confirmed, "cascade": cascade, "outside_projection": other}


class Witnesses(threading.Thread):
    """Executes the recorded witness history of every finding of pid on the engine and has TLC judge
    all of them in one run (in the background); finish() hands the disagreements to the verdict."""

    def __init__(self, binp, pid, scd, probes=False):
        super().__init__()
        self.binp, self.pid, self.scd, self.probes = binp, pid, scd, probes
        self.exc, self.items = None, []

    def run(self):
        try:
            allp = os.path.join(self.scd, "wit-all.ndjson")
            owner, n = {}, 0
            finds = [f for f in lib.load_findings(self.pid) if f.get("witness_file")]
            with open(allp, "w") as out:
                for f in finds:
                    o = os.path.join(self.scd, "wit-%s.ndjson" % f["id"])
                    lib.run_report([self.binp, "-mode", "exec", "-in", os.path.join(lib.VERIF, f["witness_file"]), "-out", o]
                                   + (["-probes"] if self.probes else []))
                    for line in open(o):
                        if line.strip():
                            n += 1
                            owner[n] = f
                            out.write(line)
            if not finds:
                return
            mms, _ = validate(allp, per_chunk=1000, procs=1)
            evs = sc.load_events(allp)
            by = {}
            for k, e in evs.items():
                by.setdefault(owner[k]["id"], {})[k] = e
            for sub in by.values():
                mark_alterlow(sub)
            hits = {f["id"]: 0 for f in finds}
            for m in mms:
                ev = evs[m["line"]]
                proj = project(self.pid, m, ev)
                if proj:
                    f = owner[m["line"]]
                    hits[f["id"]] += 1
                    self.items.append((signature(self.pid, m, ev, proj), detail(m, ev, {"witness_of": f["id"]})))
            for f in finds:
                if hits[f["id"]] == 0 and f.get("status", "open") == "open":
                    lib.log("[%s] NOTE: the witness of open finding %s no longer disagrees with the specification" % (self.pid, f["id"]))
        except Exception as e:
            self.exc = e

    def finish(self, verdict):
        self.join()
        if self.exc:
            raise self.exc
        for sig, d in self.items:
            verdict.add(sig, d)
        return len(self.items)


# ---------------------------------------------------------------- bounded models

class MCRun(threading.Thread):
    """Runs the exhaustive MC_Tables configurations in the background."""

    def __init__(self, cfgs, workers=6, coverage=False, timeout=3000):
        super().__init__()
        self.cfgs, self.workers, self.coverage, self.timeout = cfgs, workers, coverage, timeout
        self.results, self.exc = [], None

    def one(self, cfg):
        t0 = time.time()
        r = lib.tlc("MC_Tables", cfg, workers=max(2, self.workers // len(self.cfgs)), coverage=self.coverage, timeout=self.timeout, heap="4g")
        lib.log("[mc] %s: %d distinct states, %d transitions, %.1fs" % (cfg, r.distinct, r.generated, time.time() - t0))
        return cfg, r

    def run(self):
        try:
            with cf.ThreadPoolExecutor(max_workers=len(self.cfgs)) as ex:
                self.results = list(ex.map(self.one, self.cfgs))
        except Exception as e:     # surfaced by finish()
            self.exc = e

    def finish(self):
        self.join()
        if self.exc:
            raise self.exc
        states = trans = 0
        for cfg, r in self.results:
            lib.tlc_ok(r, "MC_Tables/" + cfg)
            if r.distinct < 10:
                raise lib.Inconclusive("MC_Tables/%s explored only %d states" % (cfg, r.distinct))
            states += r.distinct
            trans += r.generated
        return states, trans


def binding_a(pid, binp, cfg, verdict, scd, walks, depth, rnd, probes=False):
    """Binding A: TLC dumps every transition of a bounded MC_Tables model (Emit action constraint);
    behaviours of that TLC-generated graph (random walks from the initial state) are executed by the
    real engine and validated statement by statement by Trace_Tables.  For transitions with a single
    allowed outcome the engine's tables are also compared directly with TLC's post-state."""
    r = lib.tlc("MC_Tables", cfg, workers=4, timeout=3000, heap="4g")
    lib.tlc_ok(r, "MC_Tables/" + cfg)
    schema = r.jsons("SC")
    trs = r.jsons("TR")
    if not schema or len(trs) < 50:
        raise lib.Inconclusive("transition dump of %s is empty (%d transitions)" % (cfg, len(trs)))
    schema = schema[0]
    key = lambda rows, auto, last: json.dumps([rows, auto, last], sort_keys=True)
    graph = {}
    for t in trs:
        graph.setdefault(key(t["pre"], t["preauto"], t["prelast"]), []).append(t)
    init = key({t: [] for t in schema}, {t: 0 for t in schema}, 0)
    if init not in graph:
        raise lib.Inconclusive("initial state missing from the transition dump of " + cfg)
    cases, expect = [], {}
    for w in range(1, walks + 1):
        cases.append({"ev": "schema", "h": w, "tabs": schema, "autoinc": {t: 0 for t in schema}})
        cur, k = init, 0
        while k < depth and cur in graph:
            # prefer statements that change something, as a plain random walk mostly stutters
            cands = graph[cur]
            moving = [t for t in cands if key(t["post"], t["postauto"], t["postlast"]) != cur]
            t = rnd.choice(moving if moving and rnd.random() < 0.7 else cands)
            k += 1
            sid = w * 1000 + k
            cases.append({"ev": "stmt", "id": sid, "stmt": t["stmt"]})
            expect[sid] = t
            cur = key(t["post"], t["postauto"], t["postlast"])
    src = os.path.join(scd, "a-cases.ndjson")
    lib.write_ndjson(src, cases)
    out = os.path.join(scd, "a-trace.ndjson")
    args = ["-mode", "exec", "-in", src] + (["-probes"] if probes else [])
    rep = lib.run_report([binp] + args + ["-out", out])
    stats = judge_trace(pid, binp, args, out, verdict, scd, per_chunk=40, tag="a")
    # direct comparison with TLC's own post-state while the engine follows TLC's behaviour
    flagged = set()
    mms, _ = [], 0
    evs = lib.read_ndjson(out)
    direct = differ = 0
    diverged = set()
    canon = lambda rows: sorted(json.dumps(r, sort_keys=True) for r in rows)
    unexplained = []
    for e in evs:
        if e["ev"] != "stmt":
            continue
        t = expect[e["id"]]
        if e["h"] in diverged:
            continue
        same = all(canon(e["post"][tb]) == canon(t["post"][tb]) for tb in t["post"])
        if t["nout"] == 1:
            direct += 1
            if not same:
                differ += 1
                unexplained.append(e["id"])
        if not same:
            diverged.add(e["h"])
    explored = {}
    for t in trs:
        st = t["stmt"]
        k = "%s:%s%s->%s%s" % (st["k"], st["mode"], "ignore" if st["ignore"] else "", t["reply"]["kind"],
                               ":" + t["reply"]["class"] if t["reply"]["class"] else "")
        explored[k] = explored.get(k, 0) + 1
    stats.update({"explored": explored, "transitions_dumped": len(trs), "dump_states": r.distinct, "walks": walks, "replayed": rep["cases"],
                  "direct_compared": direct, "direct_differ": differ})
    if differ and stats["mismatches"] == 0:
        raise lib.Inconclusive("binding A: the engine's tables differ from TLC's single allowed post-state at statements %s "
                               "but trace validation accepted them (the two bindings disagree)" % unexplained[:5])
    return stats


def selftest_binding(trace, scd):
    """Binding B rejects corrupted logs: in a copy of the first recorded history one affected-row
    count is changed and one row is dropped from a logged table; TLC must report both statements."""
    evs, hist = lib.read_ndjson(trace), []
    for e in evs:
        if e["ev"] == "schema" and hist:
            break
        hist.append(e)
    hist = json.loads(json.dumps(hist))
    want = {}
    for e in hist:
        if e["ev"] != "stmt" or e["reply"]["kind"] != "ok" or e["stmt"]["k"] not in ("insert", "update", "delete"):
            continue
        t = e["stmt"]["t"]
        if "affected" not in want.values() and e["reply"]["affected"] >= 1:
            e["reply"]["affected"] += 5
            want[e["id"]] = "affected"
        elif "post" not in want.values() and e["post"].get(t):
            e["post"][t] = e["post"][t][1:]
            want[e["id"]] = "post"
            break          # later statements start from the corrupted table
    if len(want) < 2:
        return 0
    p = os.path.join(scd, "selftest.ndjson")
    lib.write_ndjson(p, [e for e in hist if e["ev"] == "schema" or e["id"] <= max(want)])
    mms, _ = validate(p, per_chunk=1000, procs=1)
    evs2 = sc.load_events(p)
    seen = {evs2[m["line"]]["id"]: m["what"] for m in mms}
    for i, w in want.items():
        if w not in seen.get(i, []):
            raise lib.Inconclusive("binding self-test: a corrupted %s at statement %d was not rejected by Trace_Tables (%s)" % (w, i, seen.get(i)))
    return len(want)


# ---------------------------------------------------------------- the generic check

def check(pid, tier, profile, mc_quick, mc_thorough, dump_cfg, n_quick=36, n_thorough=200, floors=None, rule="", probes=False,
          count=None):
    """Common body of the five checks. `floors` = minimal counts (keys of the driver report's extra /
    reply kinds) below which the run is vacuous (exit 2). `count(events)` adds property-specific
    measured counts to the evidence."""
    t0 = time.time()
    binp = lib.build("dml")
    v = lib.Verdict(pid)
    quick = tier == "quick"
    # no `-coverage 1`: TLC's coverage instrumentation of the recursive evaluator runs out of memory
    # (6 GB heap, no state after 6 minutes even on the smallest configuration); what the models
    # explored is measured from the transition dump instead (statement kind x reply class counts)
    mc = MCRun(mc_quick if quick else mc_thorough, workers=6 if quick else 8, coverage=False)
    mc.start()
    try:
        with lib.Scratch() as scd:
            wit = Witnesses(binp, pid, scd, probes=probes)
            wit.start()
            trace = os.path.join(scd, "trace.ndjson")
            nh = n_quick if quick else n_thorough
            args = ["-mode", "gen", "-profile", profile, "-seed", str(lib.seed()), "-n", str(nh)]
            rep = lib.run_report([binp] + args + ["-out", trace], timeout=3000)
            lib.log("[%s] %d histories, %d statements recorded in %.1fs" % (pid, nh, rep["cases"], time.time() - t0))
            stats = judge_trace(pid, binp, args, trace, v, scd, per_chunk=(nh + 4) // 5 if quick else 10, procs=5 if quick else 12)
            lib.log("[%s] validated: %d disagreement(s), %d in projection, %d signature(s), %.1fs"
                    % (pid, stats["mismatches"], stats["in_projection"], len(stats["signatures"]), time.time() - t0))
            extra = rep["extra"]
            measured = dict(extra.get("reply_kinds", {}))
            measured.update({"changed": extra.get("changed", 0), "probes_via_index": extra.get("probes_via_index", 0),
                             "statements": rep["cases"]})
            if count:
                measured.update(count(lib.read_ndjson(trace)))
            for k, floor in (floors or {}).items():
                if measured.get(k, 0) < floor:
                    raise lib.Inconclusive("vacuous run: %s = %d < %d" % (k, measured.get(k, 0), floor))
            a_stats = None
            if not quick:
                lib.log("[%s] binding self-test: %d corrupted log entries rejected" % (pid, selftest_binding(trace, scd)))
            if not quick and dump_cfg:
                a_stats = binding_a(pid, binp, dump_cfg, v, scd, walks=150, depth=20, rnd=random.Random(lib.seed()), probes=probes)
                lib.log("[%s] binding A: %s" % (pid, {k: a_stats[k] for k in ("transitions_dumped", "replayed", "mismatches", "direct_compared", "direct_differ")}))
            nw = wit.finish(v)
            mc_states, mc_trans = mc.finish()
            if a_stats:
                ex = a_stats["explored"]
                kinds = {k.split("->")[0].split(":")[0] for k in ex}
                if not {"insert", "delete"} <= kinds or len(ex) < 6 or not any("->err" in k for k in ex):
                    raise lib.Inconclusive("vacuous model: the transition dump of %s only has %s" % (dump_cfg, sorted(ex)))
            rc = v.finish()
            cov = {
                "states": mc_states + stats["states"], "transitions": mc_trans + rep["cases"],
                "traces_validated_against_impl": nh + (a_stats["walks"] if a_stats else 0),
                "samples": rep["samples"] or [{"note": "no sample"}],
                "evaluations": rep["cases"] + (a_stats["replayed"] if a_stats else 0),
                "distinct_nontrivial": extra.get("changed", 0),
                "rule": rule + " Non-trivial = the statement changed the contents of some table (counted by the driver).",
                "exhaustive_models": [cfg for cfg, _ in mc.results], "model_states": mc_states, "model_transitions": mc_trans,
                "statement_kinds": extra.get("stmt_kinds"), "reply_kinds": extra.get("reply_kinds"), "measured": measured,
                "disagreements": stats["mismatches"], "in_projection": stats["in_projection"], "confirmed_in_isolation": stats["confirmed"],
                "consequences_of_earlier_corruption": stats["cascade"], "outside_projection": stats["outside_projection"],
                "signatures": stats["signatures"], "witness_mismatches": nw,
            }
            if a_stats:
                cov["binding_a"] = {k: a_stats[k] for k in a_stats if k != "signatures"}
            lib.write_evidence(pid, tier, "model_checking", cov, time.time() - t0, violations=len(v.violations),
                               assumptions=["TLC; the SQL renderer and value normaliser in harness/lib (representation only)",
                                            "interpreted fragment: INT / VARCHAR(32) under utf8mb4_0900_bin and _ai_ci, strings over [0-9A-Za-z], int32-safe integers",
                                            "generator guarantees listed in harness/lib/dmlgen/gen.go (ORDER BY only over the full primary key, no UPDATE of the AUTO_INCREMENT column, ...)"])
            return rc
    finally:
        mc.join()


def replay(pid, path, probes=False):
    """Re-run a recorded case file (schema + stmt events) on the current tree and re-validate it."""
    binp = lib.build("dml")
    if path.endswith(".json"):
        path = json.load(open(path))["first"]["detail"]["case_file"]
    with lib.Scratch() as scd:
        out = os.path.join(scd, "replay.ndjson")
        lib.run_report([binp, "-mode", "exec", "-in", path, "-out", out] + (["-probes"] if probes else []))
        mms, _ = validate(out, per_chunk=1000, procs=1)
        evs = sc.load_events(out)
        bad = 0
        for m in mms:
            ev = evs[m["line"]]
            proj = project(pid, m, ev)
            if proj:
                bad += 1
                print("VIOLATION property=%s replay=%s" % (pid, path))
                print(json.dumps(detail(m, ev))[:3000])
        return 1 if bad else 0
