#!/bin/sh
# Runs the repository's pinned baseline (guard OFF) and prints pass/fail counts of the 162 stable tests.
cd /repo && go test -mod=mod -json -vet=off -count=1 -timeout 25m ./... 2>/dev/null > /tmp/baseline_off.json
python3 - <<'PY'
import json
base = set(json.load(open('/root/.vp/BASELINE.json'))['stable_pass'])
res = {}
for l in open('/tmp/baseline_off.json'):
    try: e = json.loads(l)
    except Exception: continue
    if e.get('Test') and e.get('Action') in ('pass', 'fail'):
        res[e['Package'] + '::' + e['Test']] = e['Action']
ok = [t for t in base if res.get(t) == 'pass']
bad = [t for t in base if res.get(t) != 'pass']
print("baseline stable tests passing: %d / %d" % (len(ok), len(base)))
for t in bad[:10]: print("NOT PASSING", t, res.get(t))
PY
rm -f /tmp/baseline_off.json
