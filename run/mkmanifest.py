#!/usr/bin/env python3
"""Regenerates /verif/MANIFEST.json from the META of every run/props/<ID>.py and run/not_applicable.json.
Properties with neither a check nor an explicit N/A reason are listed as not yet claimed."""
import importlib.util, json, os, sys
sys.path.insert(0, os.path.dirname(os.path.abspath(__file__)))
import lib

props = [json.loads(l)["id"] for l in open(os.path.join(lib.VERIF, "properties.jsonl"))]
na = json.load(open(os.path.join(lib.VERIF, "run", "not_applicable.json")))
# only checks the lead has accepted (green on >= 5 seeds, mutants killed) are registered
registered = set(json.load(open(os.path.join(lib.VERIF, "run", "registered.json"))))
checks, not_app = [], []
for pid in props:
    path = os.path.join(lib.VERIF, "run", "props", pid + ".py")
    if os.path.exists(path) and pid in registered and pid not in na.get("_disabled", {}):
        spec = importlib.util.spec_from_file_location("p" + pid, path)
        mod = importlib.util.module_from_spec(spec)
        spec.loader.exec_module(mod)
        m = mod.META
        checks.append({
            "property_id": pid,
            "quick_cmd": "python3 run/check.py %s quick" % pid,
            "thorough_cmd": "python3 run/check.py %s thorough" % pid,
            "evidence_file": "/verif/evidence/%s.json" % pid,
            "replay_cmd_template": "python3 run/check.py %s --replay {path}" % pid,
            "engine": m.get("engine", "tlc+gmsverif"),
            "level_claimed": {"category": m["level"], "text": m["text"], "design_ref": m.get("design_ref", "DESIGN.md §7 " + pid)},
            "level_note": m["note"],
            "technique": m["technique"],
        })
    else:
        reason = na.get(pid) or na.get("_disabled", {}).get(pid) or "not yet claimed: the specification module and binding for this property are not built yet (see DESIGN.md §10 build order)"
        not_app.append({"property_id": pid, "reason": reason})
man = {
    "version": 1,
    "setup_cmd": "sh run/setup.sh",
    "hooks": {
        "guard": "verif",
        "enable": "go1.26 build -tags verif -overlay .build/overlay-<hash>.json (GOFLAGS=-mod=mod GOTOOLCHAIN=local), harness module /verif/harness with replace => /repo",
        "baseline_off_cmd": "cd /repo && go test -mod=mod -json -vet=off -count=1 -timeout 25m ./...",
        "source_commits": json.load(open(os.path.join(lib.VERIF, "run", "hook_commits.json"))),
        "add_only": True,
    },
    "engines": [
        {"name": "tlc", "path": "/usr/local/bin/tlc", "serves_properties": [c["property_id"] for c in checks],
         "kind_free_text": "TLC 1.8 explicit-state model checker: exhaustive bounded configs, simulation, trace validation of recorded ndjson traces"},
        {"name": "gmsverif", "path": "/verif/harness", "serves_properties": [c["property_id"] for c in checks],
         "kind_free_text": "Go harness binaries (one per property family) built against /repo's working tree with -tags verif: transition replayers, seeded drivers, trace recorders"},
    ],
    "checks": checks,
    "notes": "All checks are `python3 run/check.py <ID> <tier>`; exit 0 held / 1 reproduced violation / 2 inconclusive (infrastructure). See DESIGN.md.",
    "not_applicable": not_app,
}
json.dump(man, open(os.path.join(lib.VERIF, "MANIFEST.json"), "w"), indent=1)
print("checks:", len(checks), "not claimed:", len(not_app))
