#!/usr/bin/env python3
"""Builds the witness cases of the known findings of the query-semantics properties as ndjson files
under findings/ (db events with schema + q events with the query AST, no results: the results are
produced by the real engine on every run and judged by TLC).  Run once; output is committed."""
import json, os
V = os.path.dirname(os.path.dirname(os.path.abspath(__file__)))

def I(v): return {"t": "i", "v": v}
def S(s): return {"t": "s", "v": [ord(c) for c in s]}
N = {"t": "n"}
def lit(v): return {"k": "lit", "v": v, "d": 0, "i": 0, "neg": False, "dist": False}
def col(d, i, c="none"): return {"k": "col", "d": d, "i": i, "c": c, "neg": False, "dist": False}
def op(o, *a): return {"k": "op", "op": o, "a": list(a), "d": 0, "i": 0, "neg": False, "dist": False}
def fn(f, *a): return {"k": "fn", "f": f, "a": list(a), "d": 0, "i": 0, "neg": False, "dist": False}
def agg(f, a=None, dist=False):
    e = {"k": "agg", "f": f, "d": 0, "i": 0, "neg": False, "dist": dist}
    if a is not None: e["arg"] = a
    return e
def subq(kind, e, q): return {"k": "subq", "kind": kind, "e": e or lit(I(1)), "q": q, "d": 0, "i": 0, "neg": False, "dist": False}
TT = lit(I(1))
def table(n): return {"k": "table", "name": n}
def join(jt, l, r, on=None): return {"k": "join", "jt": jt, "l": l, "r": r, "on": on or TT}
def select(frm, proj, where=None, grouped=False, group=(), having=None, distinct=False, order=(), limit=-1, offset=0, ordalias=False):
    q = {"k": "select", "from": frm, "where": where or TT, "grouped": grouped, "group": list(group), "having": having or TT,
         "proj": list(proj), "distinct": distinct, "order": [{"i": i, "desc": d} for i, d in order], "limit": limit, "offset": offset, "all": False}
    if ordalias: q["ordalias"] = True
    return q
def setop(o, all_, l, r, colls, order=(), limit=-1, offset=0):
    return {"k": "setop", "op": o, "all": all_, "l": l, "r": r, "colls": list(colls), "grouped": False, "group": [], "proj": [], "distinct": False,
            "order": [{"i": i, "desc": d} for i, d in order], "limit": limit, "offset": offset}
def tdef(name, cols, rows, pk=(), indexes=(), unique=()):
    return {"name": name, "cols": [{"ty": t, "coll": c, "notnull": False} for t, c in cols], "pk": list(pk), "indexes": [list(x) for x in indexes],
            "unique": list(unique), "rows": rows}
def db(*tabs):
    return {"ev": "db", "db": {t["name"]: {"w": len(t["cols"]), "rows": t["rows"]} for t in tabs}, "schema": list(tabs)}
def q(i, ast): return {"ev": "q", "id": i, "q": ast}
def write(name, evs):
    with open(os.path.join(V, "findings", name), "w") as f:
        for e in evs: f.write(json.dumps(e, separators=(",", ":")) + "\n")

INT = ("i", "none"); BIN = ("s", "bin"); CI = ("s", "ci")
t2 = tdef("t2", [INT, BIN, INT], [[I(-1), S("1"), I(-1)], [I(2), S("a"), I(0)], [N, S("A"), I(1)]])
write("C02-distinct-order-ordinal.ndjson", [db(t2),
    q(1, select(table("t2"), [col(0, 3)], distinct=True, order=[(1, True)])),
    q(2, select(table("t2"), [lit(I(0)), col(0, 2, "bin"), col(0, 1)], distinct=True, order=[(1, False), (3, True)], limit=2))])
u1 = tdef("u1", [INT, BIN], [[N, S("b")], [I(2), N], [I(2), S("b")], [I(0), S("A")]])
u2 = tdef("u2", [INT, BIN], [[I(-1), N], [I(-2), S("1")], [I(1), S("b")]])
write("C02-setop-offset.ndjson", [db(u1, u2),
    q(1, setop("union", True, select(table("u1"), [col(0, 1), col(0, 2, "bin")]), select(table("u2"), [col(0, 1), lit(N)]),
               ["none", "bin"], order=[(1, False), (2, False)], limit=1, offset=2))])
a = tdef("t1", [INT, INT], [[I(1), I(1)], [I(2), I(2)]])
b = tdef("t2", [INT, INT], [[I(1), I(5)], [I(2), I(7)]])
write("C02-having-join-alias.ndjson", [db(a, b),
    q(1, select(join("cross", table("t1"), table("t2")), [agg("min", col(0, 2))], grouped=True,
                having=op("gt", agg("min", col(0, 3)), lit(I(0)))))])
write("C02-aggregate-over-subquery.ndjson", [db(a, b),
    q(1, select(table("t1"), [agg("max", fn("if", subq("in", col(0, 2), select(table("t2"), [col(0, 1)])), lit(N), fn("sign", col(0, 2))))],
                grouped=True))])
e1 = tdef("e1", [INT, BIN], [[I(3), S("a ")], [I(-2), S("1")], [I(1), S("")], [I(0), S("a ")], [I(5), N]])
write("C02-except-empty-string.ndjson", [db(e1),
    q(1, setop("except", False, select(table("e1"), [col(0, 2, "bin")]), select(table("e1"), [col(0, 2, "bin")], where=op("eq", lit(I(1)), lit(I(0)))), ["bin"])),
    q(2, setop("except", True, select(table("e1"), [col(0, 2, "bin")]), select(table("e1"), [lit(S("zz"))]), ["bin"]))])
print("ok")
