"""Shared pieces of the function-level checks C29 / C33 / C34: TLC case dumps (model checking and
-simulate), chunked parallel validation of recorded traces returning both the MM (mismatch) and the ST
(per-line status) prints, replay / confirmation of enumerated cases, witness bookkeeping."""
import concurrent.futures as cf
import json, os, shutil, tempfile
import lib


def tlc_workers(n):
    cap = int(os.environ.get("VERIF_TLC_WORKERS", "0") or 0)
    return min(n, cap) if cap else n


def dump_cases(module, cfg, path, prefix="CASE", simulate=None, depth=None, workers=4, timeout=3000, heap="4g", coverage=False):
    """Run TLC (model checking, or -simulate num=N) with the module's Emit action constraint; write the
    printed cases as ndjson. Any TLC error / model-level violation is Inconclusive."""
    kw = dict(workers=tlc_workers(workers), timeout=timeout, heap=heap, coverage=coverage)
    if simulate:
        kw.update(workers=1, simulate="num=%d" % simulate, depth=depth, tlc_seed=lib.seed(), coverage=False)
    r = lib.tlc(module, cfg, **kw)
    if r.error or r.invariant_violated or r.action_prop_violated or r.deadlock:
        raise lib.Inconclusive("%s/%s: %s\n%s" % (module, cfg, r.error or r.invariant_violated or "violation", r.out[-2500:]))
    if not simulate and not r.completed:
        raise lib.Inconclusive("%s/%s did not complete\n%s" % (module, cfg, r.out[-2500:]))
    cases = r.jsons(prefix)
    lib.write_ndjson(path, cases)
    return r, cases


def _validate_chunk(args):
    module, cfg, rows, offset, timeout, strip = args
    d = tempfile.mkdtemp(prefix="verif-fn-")
    try:
        with open(os.path.join(d, "trace.ndjson"), "w") as f:
            for r in rows:
                if strip:
                    r = {k: v for k, v in r.items() if k not in strip}
                f.write(json.dumps(r, separators=(",", ":")) + "\n")
        res = lib.tlc(module, cfg, workdir=d, workers=1, timeout=timeout, heap="2g")
        if res.error or not res.completed or res.postcondition_failed or res.invariant_violated:
            raise lib.Inconclusive("trace validation (%s) did not complete: %s\n%s" % (module, res.error, res.out[-2000:]))
        mm, st = res.jsons("MM"), res.jsons("ST")
        if res.distinct != len(rows) + 1 or len(st) != len(rows):
            raise lib.Inconclusive("trace validation (%s): %d lines judged of %d (states %d)\n%s"
                                   % (module, len(st), len(rows), res.distinct, res.out[-1500:]))
        for x in mm + st:
            x["l"] += offset
        return mm, st, res.distinct
    finally:
        shutil.rmtree(d, ignore_errors=True)


def validate_rows(rows, module, cfg=None, nchunks=4, timeout=1500, strip=("sql",)):
    """Judge recorded lines with a Trace_* module in parallel chunks. Returns (MM list, ST list, states);
    `l` is the 1-based index into rows. Every line must be consumed (ST per line + high-water mark)."""
    if not rows:
        return [], [], 0
    cfg = cfg or module + ".cfg"
    n = max(1, (len(rows) + nchunks - 1) // nchunks)
    parts = [(module, cfg, rows[i:i + n], i, timeout, strip) for i in range(0, len(rows), n)]
    mm, st, states = [], [], 0
    with cf.ThreadPoolExecutor(max_workers=len(parts)) as ex:
        for m, s, d in ex.map(_validate_chunk, parts):
            mm += m
            st += s
            states += d
    return mm, st, states


def confirm_cases(binp, pid, verdict, rep, scd, tag, replay_args=("replay",)):
    """Binding A: every kept example of every signature is re-run alone in ONE fresh process and must
    disagree again with the same signature; then one verdict entry per signature. Returns #disagreements."""
    ex = rep["mismatches"]
    if not ex:
        return 0
    p = os.path.join(scd, "confirm-a-%s.ndjson" % tag)
    lib.write_ndjson(p, [m["input"]["case"] for m in ex])
    again = lib.run_report([binp] + list(replay_args) + ["-file", p, "-keep", "100000"])
    sigs = {(m["input"]["sql"], m["signature"]) for m in again["mismatches"]}
    for m in ex:
        if (m["input"]["sql"], m["signature"]) not in sigs:
            raise lib.Inconclusive("enumerated mismatch did not reproduce in a fresh process: %s" % json.dumps(m)[:600])
    total = 0
    for sig, n in rep["extra"]["by_signature"].items():
        first = [m for m in ex if m["signature"] == sig]
        if not first:
            raise lib.Inconclusive("no example kept for signature %s" % sig)
        verdict.add("%s|%s" % (pid, sig), {"sql": first[0]["input"]["sql"], "accepted": first[0]["expected"], "engine": first[0]["got"],
                                          "occurrences": n, "more": [[m["input"]["sql"], m["got"]] for m in first[1:4]],
                                          "case": first[0]["input"]["case"]})
        total += n
    return total


def witness_files(pid):
    """[(finding id, status, [json lines])] for the findings of pid that carry a witness_file."""
    out = []
    for f in lib.load_findings(pid):
        wf = f.get("witness_file")
        if wf:
            out.append((f["id"], f.get("status", "open"), lib.read_ndjson(os.path.join(lib.VERIF, wf))))
    return out
