#!/usr/bin/env python3
"""rebase_mutants.py [--apply]: every selftest/mutants/<name>/<file> is a whole-file copy of /repo's file at the time the
mutant was made, with one small change. After later `fix:` commits such a copy silently reverts the repairs of that
file. This tool re-derives each mutant on /repo's CURRENT file: seeds from seeded/<ID>/patch.diff, other mutants from the
diff against the closest historical version of the file (the one with the fewest differing lines)."""
import difflib, os, subprocess, sys, tempfile, shutil
APPLY = "--apply" in sys.argv
M = "/verif/selftest/mutants"
def git(*a):
    return subprocess.run(["git", "-C", "/repo"] + list(a), capture_output=True, text=True).stdout
def patch_onto_current(rel, difftext):
    d = tempfile.mkdtemp()
    try:
        dst = os.path.join(d, rel)
        os.makedirs(os.path.dirname(dst), exist_ok=True)
        shutil.copy(os.path.join("/repo", rel), dst)
        p = subprocess.run(["patch", "-p1", "-s", "--no-backup-if-mismatch", "-F", "3"], cwd=d, input=difftext, capture_output=True, text=True)
        if p.returncode != 0 or os.path.exists(dst + ".rej"):
            return None
        return open(dst).read()
    finally:
        shutil.rmtree(d)
stale = ok = failed = 0
for name in sorted(os.listdir(M)):
    if name.startswith("fix_"):
        continue
    root = os.path.join(M, name)
    for dp, _, fs in os.walk(root):
        for f in fs:
            path = os.path.join(dp, f)
            rel = os.path.relpath(path, root)
            cur_path = os.path.join("/repo", rel)
            if not os.path.exists(cur_path):
                continue
            mut = open(path).read()
            cur = open(cur_path).read()
            nd = lambda a, b: sum(1 for l in difflib.unified_diff(a.splitlines(), b.splitlines(), lineterm="", n=0) if l[:1] in "+-" and l[:3] not in ("+++", "---"))
            if nd(cur, mut) <= 4 and not name.startswith("seed_"):
                ok += 1
                continue   # already a small change of the current file
            new = None
            if name.startswith("seed_"):
                pd = os.path.join("/verif/seeded", name[5:], "patch.diff")
                if os.path.exists(pd):
                    new = patch_onto_current(rel, open(pd).read())
                    if new is not None and new == mut:
                        ok += 1
                        continue
            if new is None:
                best = None
                for h in git("log", "--format=%H", "--", rel).split():
                    base = git("show", "%s:%s" % (h, rel))
                    k = nd(base, mut)
                    if best is None or k < best[0]:
                        best = (k, h, base)
                    if k <= 12:
                        break
                if best is None:
                    print("NOBASE", name, rel); failed += 1; continue
                diff = "".join(difflib.unified_diff(best[2].splitlines(True), mut.splitlines(True), "a/" + rel, "b/" + rel))
                new = patch_onto_current(rel, diff)
                if new is None:
                    print("CONFLICT", name, rel, "base", best[1][:9], "difflines", best[0]); failed += 1; continue
            if nd(cur, new) >= nd(cur, mut):
                ok += 1
                continue
            stale += 1
            print("REBASED" if APPLY else "STALE", name, rel, "lines differing from current before:", nd(cur, mut), "after:", nd(cur, new))
            if APPLY:
                open(path, "w").write(new)
print("ok %d, stale %d, failed %d" % (ok, stale, failed))
