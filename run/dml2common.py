"""Shared machinery of the checks C15, C17, C18, C23 (driver harness/cmd/dml2).

Specifications: spec/Trace_Faults.tla (C15, EXTENDS Trace_Tables), spec/SQLSession.tla + MC_Txn + Trace_Txn
(C17), spec/SQLForeignKeys.tla + MC_FK + Trace_FK (C18), spec/SQLTriggers.tla + MC_Trig + Trace_Trig (C23).
Every verdict comes from TLC: Python runs the driver (several processes, disjoint history ranges),
cuts the recorded trace into chunks of whole histories, has TLC validate them, groups the
disagreement lines TLC printed by signature, re-runs each disagreeing history alone in a fresh
process and has TLC judge that re-run again; only a disagreement that shows again counts."""
import json, os, shutil, threading, time, concurrent.futures as cf
import lib, dmlcommon as dc


# ---------------------------------------------------------------- driver

def merge_reports(reps):
    out = {"cases": 0, "nontrivial": 0, "samples": [], "extra": {}}
    for r in reps:
        out["cases"] += r["cases"]
        out["nontrivial"] += r["nontrivial"]
        out["samples"] += r.get("samples") or []
        for k, v in (r.get("extra") or {}).items():
            if isinstance(v, dict):
                d = out["extra"].setdefault(k, {})
                for kk, vv in v.items():
                    d[kk] = d.get(kk, 0) + vv
            elif isinstance(v, bool):
                out["extra"][k] = out["extra"].get(k, False) or v
            elif isinstance(v, (int, float)):
                if k.startswith("max_"):
                    out["extra"][k] = max(out["extra"].get(k, 0), v)
                else:
                    out["extra"][k] = out["extra"].get(k, 0) + v
            else:
                out["extra"][k] = v
    out["samples"] = out["samples"][:4]
    return out


def run_gen(binp, prop, nh, scd, procs=4, extra=(), tag="gen", timeout=1500):
    """Generates and runs histories 1..nh in `procs` driver processes; returns (trace path, report)."""
    procs = max(1, min(procs, nh))
    per = (nh + procs - 1) // procs
    jobs = []
    for p in range(procs):
        lo = 1 + p * per
        n = min(per, nh - lo + 1)
        if n <= 0:
            break
        out = os.path.join(scd, "%s-%d.ndjson" % (tag, p))
        jobs.append((lo, n, out))

    def one(j):
        lo, n, out = j
        return lib.run_report([binp, "-prop", prop, "-mode", "gen", "-seed", str(lib.seed()), "-from", str(lo), "-n", str(n),
                               "-out", out] + list(extra), timeout=timeout)
    with cf.ThreadPoolExecutor(max_workers=len(jobs)) as ex:
        reps = list(ex.map(one, jobs))
    trace = os.path.join(scd, tag + ".ndjson")
    with open(trace, "w") as f:
        for _, _, out in jobs:
            with open(out) as g:
                shutil.copyfileobj(g, f)
    return trace, merge_reports(reps)


# ---------------------------------------------------------------- trace validation

DROP_FOR_TLC = ("preprobes", "sql", "tags", "create", "ops", "note", "setup")


def slim(line):
    """The fields TLC does not read are kept in the recorded trace but not handed to TLC (its JSON
    reader is slow); values are unchanged."""
    e = json.loads(line)
    for k in DROP_FOR_TLC:
        e.pop(k, None)
    if isinstance(e.get("reply"), dict):
        e["reply"].pop("msg", None)
    for p in e.get("probes") or []:
        p.pop("sql", None)
        if isinstance(p.get("res"), dict):
            p["res"].pop("msg", None)
    return json.dumps(e, separators=(",", ":"))


def _chunk(args):
    module, cfg, lines, nums, timeout, prefix = args
    d = lib.tempfile.mkdtemp(prefix="verif-tv-")
    try:
        with open(os.path.join(d, "trace.ndjson"), "w") as f:
            f.write("\n".join(slim(x) for x in lines) + "\n")
        r = lib.tlc(module, cfg, workdir=d, workers=1, timeout=timeout, heap="3g")
        mms = []
        for m in r.jsons(prefix):
            m["line"] = nums[m["l"] - 1]
            mms.append(m)
        bad = None
        if r.error or not r.completed:
            bad = (r.error or "TLC did not complete") + "\n" + r.out[-1500:]
        return mms, r.distinct, bad
    finally:
        shutil.rmtree(d, ignore_errors=True)


def validate(module, path, per_chunk=5, procs=5, timeout=1200, prefix="MF", cfg=None):
    """TLC validates a recorded trace (whole histories per chunk, chunks in parallel).
    Returns (disagreement records with the global line number `line`, states explored)."""
    chunks = dc.split_histories(path, per_chunk)
    mms, states = [], 0
    with cf.ThreadPoolExecutor(max_workers=max(1, procs)) as ex:
        for res, st, bad in ex.map(_chunk, [(module, cfg or module + ".cfg", c, n, timeout, prefix) for c, n in chunks]):
            if bad:
                raise lib.Inconclusive("trace validation (%s) did not complete: %s" % (module, bad))
            mms.extend(res)
            states += st
    return mms, states


def load_events(path):
    evs = {}
    with open(path) as f:
        for n, line in enumerate(f, 1):
            if line.strip():
                evs[n] = json.loads(line)
    return evs


def pretty_rows(rows):
    return dc.pretty_rows(rows)


def pretty_tabs(tabs):
    return {t: pretty_rows(r) for t, r in (tabs or {}).items()}


# ---------------------------------------------------------------- isolation re-run

def confirm_all(binp, prop, module, jobs, scd, key, pid, extra=(), tag="c", attempt=1, src=None, prefix="MF"):
    """jobs: list of (mm, ev).  Each disagreeing history is re-run alone (fresh process, fresh engine,
    up to the disagreeing statement); all re-runs are validated by ONE TLC run.  `key(mm, ev)` is what
    must show again (same statement, same fault position / session, same `what`).  Returns per job
    the kept case file or None.  src: (mode exec) file holding the histories instead of the generator."""
    if not jobs:
        return []

    def rerun(k):
        m, ev = jobs[k]
        out = os.path.join(scd, "%s-%d-%d.ndjson" % (tag, k, ev["id"]))
        args = [binp, "-prop", prop] + (["-mode", "exec", "-in", src] if src else ["-mode", "gen", "-seed", str(lib.seed()), "-from", str(ev["h"]), "-n", "1"])
        lib.run_report(args + ["-only", str(ev["h"]), "-upto", str(ev["id"]), "-out", out] + list(extra))
        return out
    with cf.ThreadPoolExecutor(max_workers=5) as ex:
        outs = list(ex.map(rerun, range(len(jobs))))
    allp = os.path.join(scd, tag + "-all.ndjson")
    owner, n = {}, 0
    with open(allp, "w") as f:
        for k, o in enumerate(outs):
            for line in open(o):
                if line.strip():
                    n += 1
                    owner[n] = k
                    f.write(line)
    mms, _ = validate(module, allp, per_chunk=max(1, (len(jobs) + 3) // 4), procs=4, prefix=prefix)
    evs = load_events(allp)
    res = [None] * len(jobs)
    for m in mms:
        k = owner[m["line"]]
        m0, ev0 = jobs[k]
        if res[k] is None and key(m, evs[m["line"]]) == key(m0, ev0):
            d = os.path.join(lib.VERIF, "replays", pid)
            os.makedirs(d, exist_ok=True)
            keep = os.path.join(d, "case-seed%d-id%d.ndjson" % (lib.seed(), ev0["id"]))
            shutil.copy(outs[k], keep)
            res[k] = keep
    missing = [k for k in range(len(jobs)) if res[k] is None]
    if missing and attempt < 3:
        again = confirm_all(binp, prop, module, [jobs[k] for k in missing], scd, key, pid, extra, "%s%d" % (tag, attempt), attempt + 1, src, prefix)
        for k, r in zip(missing, again):
            res[k] = r
    return res


def judge_trace(pid, binp, prop, module, trace, verdict, scd, signature, key, detail, per_chunk=5, procs=5, max_confirm=2, tag="c",
                extra=(), src=None, accept=lambda m, ev: True, prefix="MF"):
    """Validate a trace; every disagreement (that `accept`s) is grouped by signature, the first
    `max_confirm` of each signature are re-run in isolation and only then handed to the verdict."""
    mms, states = validate(module, trace, per_chunk=per_chunk, procs=procs, prefix=prefix)
    evs = load_events(trace)
    by_sig, skipped = {}, 0
    for m in mms:
        ev = evs[m["line"]]
        if not accept(m, ev):
            skipped += 1
            continue
        by_sig.setdefault(signature(m, ev), []).append((m, ev))
    jobs = []
    for rank in range(max_confirm):
        for sig, items in by_sig.items():
            if rank < len(items) and (rank == 0 or len(jobs) < 8):
                jobs.append((sig,) + items[rank])
    kept = confirm_all(binp, prop, module, [(m, ev) for _, m, ev in jobs], scd, key, pid, extra, tag, src=src, prefix=prefix)
    confirmed = 0
    for (sig, m, ev), keep in zip(jobs, kept):
        if not keep:
            raise lib.Inconclusive("disagreement did not reproduce in isolation: history %s statement %s %s %s"
                                   % (ev.get("h"), ev.get("id"), ev.get("sql"), m.get("what")))
        confirmed += 1
        d = detail(m, ev)
        d.update({"case_file": keep, "occurrences_of_signature": len(by_sig[sig]), "seed": lib.seed()})
        verdict.add(sig, d)
    return {"states": states, "mismatches": len(mms), "in_projection": sum(len(v) for v in by_sig.values()),
            "signatures": sorted(by_sig), "confirmed": confirmed, "skipped": skipped, "events": len(evs)}


class Witnesses(threading.Thread):
    """Executes the recorded witness history of every finding of pid (-mode exec) and has TLC judge
    all of them in one run, in the background; finish() hands the disagreements to the verdict."""

    def __init__(self, binp, pid, prop, module, scd, signature, detail, extra=(), accept=lambda m, ev: True, prefix="MF", prepare=None):
        super().__init__()
        self.prefix, self.prepare = prefix, prepare
        self.binp, self.pid, self.prop, self.module, self.scd = binp, pid, prop, module, scd
        self.signature, self.detail, self.extra, self.accept = signature, detail, list(extra), accept
        self.exc, self.items = None, []

    def run(self):
        try:
            finds = [f for f in lib.load_findings(self.pid) if f.get("witness_file")]
            if not finds:
                return
            allp = os.path.join(self.scd, "wit-all.ndjson")
            owner, n = {}, 0
            with open(allp, "w") as out:
                for f in finds:
                    o = os.path.join(self.scd, "wit-%s.ndjson" % f["id"])
                    lib.run_report([self.binp, "-prop", self.prop, "-mode", "exec", "-in", os.path.join(lib.VERIF, f["witness_file"]), "-out", o] + self.extra)
                    for line in open(o):
                        if line.strip():
                            n += 1
                            owner[n] = f
                            out.write(line)
            mms, _ = validate(self.module, allp, per_chunk=1000, procs=1, prefix=self.prefix)
            evs = load_events(allp)
            if self.prepare:
                self.prepare(evs)
            hits = {f["id"]: 0 for f in finds}
            for m in mms:
                ev = evs[m["line"]]
                if not self.accept(m, ev):
                    continue
                f = owner[m["line"]]
                hits[f["id"]] += 1
                d = self.detail(m, ev)
                d["witness_of"] = f["id"]
                self.items.append((self.signature(m, ev), d))
            for f in finds:
                if hits[f["id"]] == 0 and f.get("status", "open") == "open":
                    lib.log("[%s] NOTE: the witness of open finding %s no longer disagrees with the specification" % (self.pid, f["id"]))
        except Exception as e:
            self.exc = e

    def finish(self, verdict):
        self.join()
        if self.exc:
            raise self.exc
        for sig, d in self.items:
            verdict.add(sig, d)
        return len(self.items)


class MC(threading.Thread):
    """Runs bounded TLC models in the background: runs = [(module, cfg, kwargs)]."""

    def __init__(self, runs, workers=4):
        super().__init__()
        self.runs, self.workers = runs, workers
        self.results, self.exc = [], None

    def one(self, run):
        module, cfg, kw = run
        t0 = time.time()
        kw = dict(kw)
        kw.setdefault("workers", max(2, self.workers // max(1, len(self.runs))))
        kw.setdefault("timeout", 1500)
        kw.setdefault("heap", "4g")
        r = lib.tlc(module, cfg, **kw)
        lib.log("[mc] %s/%s: %d distinct states, %d transitions, %.1fs" % (module, cfg, r.distinct, r.generated, time.time() - t0))
        return module, cfg, r

    def run(self):
        try:
            with cf.ThreadPoolExecutor(max_workers=max(1, len(self.runs))) as ex:
                self.results = list(ex.map(self.one, self.runs))
        except Exception as e:
            self.exc = e

    def finish(self):
        self.join()
        if self.exc:
            raise self.exc
        return self.results


def replay(pid, prop, module, path, signature, detail, extra=(), accept=lambda m, ev: True, prefix="MF", prepare=None):
    """Re-run a recorded case file on the current tree and re-validate it."""
    binp = lib.build("dml2")
    if path.endswith(".json"):
        path = json.load(open(path))["first"]["detail"]["case_file"]
    with lib.Scratch() as scd:
        out = os.path.join(scd, "replay.ndjson")
        lib.run_report([binp, "-prop", prop, "-mode", "exec", "-in", path, "-out", out] + list(extra))
        mms, _ = validate(module, out, per_chunk=1000, procs=1, prefix=prefix)
        evs = load_events(out)
        if prepare:
            prepare(evs)
        bad = 0
        for m in mms:
            ev = evs[m["line"]]
            if accept(m, ev):
                bad += 1
                print("VIOLATION property=%s replay=%s" % (pid, path))
                print(json.dumps(detail(m, ev), default=str)[:3000])
        return 1 if bad else 0
