#!/usr/bin/env python3
"""mkmutant.py <name> <repo-relative-file> <old> <new> [count]
Creates selftest/mutants/<name>/<file> = /repo/<file> with the first (or count-th) occurrence of <old> replaced
by <new>. Mutants are supplied to one build through VERIF_EXTRA_OVERLAY=<name>; /repo is never touched."""
import os, sys
name, rel, old, new = sys.argv[1:5]
nth = int(sys.argv[5]) if len(sys.argv) > 5 else 1
src = open(os.path.join("/repo", rel)).read()
idx = -1
for _ in range(nth):
    idx = src.find(old, idx + 1)
    if idx < 0:
        sys.exit("pattern not found")
out = src[:idx] + new + src[idx + len(old):]
dst = os.path.join(os.path.dirname(os.path.dirname(os.path.abspath(__file__))), "selftest", "mutants", name, rel)
os.makedirs(os.path.dirname(dst), exist_ok=True)
open(dst, "w").write(out)
print(dst)
