#!/usr/bin/env python3
"""Builds findings/C24-witnesses.ndjson: one minimal procedure per recorded finding of C24, as program
ASTs of spec/ProcMachine.tla (no outcomes: the real engine produces them on every run and TLC judges
them against the structured semantics).  Run once; the output is committed."""
import json, os
V = os.path.dirname(os.path.dirname(os.path.abspath(__file__)))
N = {"t": "n"}
def I(v): return {"t": "i", "v": v}
def lit(v): return {"k": "lit", "v": v}
def var(n): return {"k": "var", "n": n}
def op(o, *a): return {"k": "op", "op": o, "a": list(a)}
def block(body, lbl="", decls=(), hs=()): return {"k": "block", "lbl": lbl, "decls": list(decls), "hs": list(hs), "body": list(body)}
def decl(v, d=None): return {"v": v, "has": d is not None, "d": d if d is not None else N}
def hnd(act, s, cond="exc"): return {"act": act, "cond": cond, "s": s}
def set_(v, e): return {"k": "set", "v": v, "e": e}
def ins(e): return {"k": "ins", "e": e}
def sel(e): return {"k": "sel", "e": e}
DUP, SIG = {"k": "dup"}, {"k": "sig"}
def if_(c, body, els=()): return {"k": "if", "arms": [{"c": c, "body": list(body)}], "els": list(els)}
def while_(l, c, body): return {"k": "while", "lbl": l, "c": c, "body": list(body)}
def repeat(l, body, c): return {"k": "repeat", "lbl": l, "c": c, "body": list(body)}
def loop(l, body): return {"k": "loop", "lbl": l, "body": list(body)}
def leave(l): return {"k": "leave", "l": l}
def iter_(l): return {"k": "iter", "l": l}
def prog(params, args, body): return {"params": [{"n": n, "m": m} for n, m in params], "args": args, "body": body}
XY = [("x", "inout"), ("y", "out")]
inc = lambda v: set_(v, op("plus", var(v), lit(I(1))))

W = []
def w(finding, tags, p, prelude=None):
    e = {"ev": "p", "id": len(W) + 1, "finding": finding, "tags": tags, "prog": p}
    if prelude: e["prelude"] = prelude
    W.append(e)

# modelled deviations of the code (the machine as coded predicts the engine's outcome)
w("C24-out-param-initial-value", [], prog([("y", "out")], [I(7)], block([ins(var("y"))])))
w("C24-out-param-initial-value", [], prog(XY, [I(1), I(7)], block([if_(op("isnull", var("y")), [set_("x", lit(I(5)))])])))
w("C24-goto-skips-scope-end", [], prog(XY, [I(1), N], block([block([leave("l1")], "l1", [decl("x", I(5))]), set_("y", var("x"))])))
w("C24-goto-skips-scope-end", [], prog(XY, [I(1), N], block([
    block([if_(op("eq", var("x"), lit(I(5))), [set_("y", lit(I(0)))], [block([set_("y", lit(I(9)))])])], "", [decl("x", I(5))]),
    set_("y", var("x"))])))
w("C24-exit-handler-keeps-scope", [], prog(XY, [I(1), N], block([
    block([SIG], "", [decl("x", I(5))], [hnd("exit", set_("y", lit(I(0))))]), set_("y", var("x"))])))
w("C24-outer-handler-wins", [], prog(XY, [I(1), N], block([
    block([SIG], "", [], [hnd("continue", set_("y", lit(I(2))))])], "", [], [hnd("continue", set_("y", lit(I(1))))])))
w("C24-handler-dynamic-scope", [], prog(XY, [I(1), N], block([
    block([SIG, ins(var("x"))], "", [decl("x", I(3))]), set_("y", var("x"))], "", [], [hnd("continue", set_("x", lit(I(9))))])))
w("C24-declare-no-default-zero", [], prog(XY, [I(1), N], block([ins(var("x")), set_("y", var("x"))], "", [decl("x")])))
w("C24-repeat-iterate-checks-until", [], prog(XY, [I(0), N], block([
    repeat("l1", [inc("x"), if_(op("lt", var("x"), lit(I(3))), [iter_("l1")])], lit(I(1))), set_("y", var("x"))])))
w("C24-stale-iterate-label", [], prog(XY, [I(0), N], block([
    loop("l1", [inc("x"), if_(op("gt", var("x"), lit(I(1))), [leave("l1")])]),
    while_("l1", op("lt", var("x"), lit(I(5))), [inc("x"), ins(var("x")), if_(op("eq", var("x"), lit(I(3))), [iter_("l1")])]),
    set_("y", var("x"))])))
w("C24-repeat-until-null-exits", [], prog(XY, [I(0), N], block([
    repeat("l1", [inc("x"), ins(var("x"))], op("or", op("gt", var("y"), lit(I(0))), op("gt", var("x"), lit(I(2)))))])))
# deviations outside the machine model (generated programs never contain these forms)
w("C24-handler-statement-block", ["handler-stmt-block"], prog(XY, [I(1), N], block(
    [set_("y", lit(I(1))), SIG, ins(lit(I(5)))], "", [], [hnd("continue", block([set_("y", lit(I(4))), ins(lit(I(100)))]))])))
w("C24-handler-statement-insert-hangs", ["handler-stmt-insert"], prog(XY, [I(1), N], block(
    [SIG, set_("y", lit(I(1)))], "", [], [hnd("continue", ins(lit(I(100))))])))
w("C24-handler-statement-insert-hangs", ["handler-stmt-select"], prog(XY, [I(1), N], block(
    [SIG, set_("y", lit(I(1)))], "", [], [hnd("continue", sel(lit(I(42))))])))
w("C24-declare-default-null", ["declare-default-null"], prog(XY, [I(1), N], block([set_("y", var("x"))], "", [decl("x", N)])))
w("C24-out-param-stale-across-calls", ["second-call-out-param"], prog([("y", "out")], [I(7)], block([ins(lit(I(1)))])),
  prelude=["CREATE PROCEDURE q(OUT y INT) BEGIN SET y = 1; END", "CALL q(@z)"])

with open(os.path.join(V, "findings", "C24-witnesses.ndjson"), "w") as f:
    for e in W:
        f.write(json.dumps(e, separators=(",", ":")) + "\n")
print(len(W), "witnesses")
