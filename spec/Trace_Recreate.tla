--------------------------- MODULE Trace_Recreate ---------------------------
(* Binding B for C22: validates re-creations recorded from the real engine against Recreate.
   trace.ndjson lines:
     {"ev":"obj","id":n,"kind":"table|view|trigger|procedure","obs":{"text":s,"proj":{<IS table>:[[..],..]},"probe":[s,..]}}
          -- the object as first created (Create(obs)); also the boundary between cases
     {"ev":"recreate","id":n,"accepted":b,"obs":{...}}
          -- the object dropped and the printed statement executed in a fresh database
   A recreate event is accepted iff it is an instance of Recreate!Recreate(accepted, obs): the engine
   accepted its own statement and text, every catalog table (as a set of rows) and every probe reply are
   equal.  Otherwise one `MM <json>` line names what differs (Recreate!Diff) with the rows that are
   missing / new per catalog table and the positions of the differing probes, and the state stays at the
   first observation. *)
EXTENDS Recreate, Json

TraceLog == ndJsonDeserialize("trace.ndjson")

VARIABLE l
tvars == <<l, live, obs>>

TInit == l = 1 /\ live = FALSE /\ obs = None

Judge(e) ==
  LET what == Diff(e.accepted, obs, e.obs)
      bad == {w \in ProjTables(obs, e.obs) : ~ProjSameAt(obs, e.obs, w)}
      report == IF what = <<>> THEN TRUE ELSE
                PrintT("MM " \o ToJson([l |-> l, id |-> e.id, what |-> what,
                                         missing |-> [w \in bad |-> ProjRows(obs, w) \ ProjRows(e.obs, w)],
                                         extra |-> [w \in bad |-> ProjRows(e.obs, w) \ ProjRows(obs, w)],
                                         probes |-> IF e.accepted THEN ProbeDiffs(obs, e.obs) ELSE {}]))
  IN /\ report
     /\ IF what = <<>> THEN Recreate(e.accepted, e.obs) ELSE UNCHANGED <<live, obs>>

TNext ==
  /\ l <= Len(TraceLog)
  /\ l' = l + 1
  /\ LET e == TraceLog[l] IN
     CASE e.ev = "obj" -> live' = TRUE /\ obs' = e.obs
       [] e.ev = "recreate" -> Judge(e)
       [] OTHER -> live' = FALSE /\ obs' = None

HW == TLCSet(1, l)
Accepted == TLCGet(1) = Len(TraceLog) + 1
=============================================================================
