INIT Init
NEXT Next
CONSTANTS
  Preset = "auto"
  K = {0, 1}
  MaxRows = 2
  MaxVal = 4
  Modes2 = {"plain", "replace"}
  MaxId = 3
VIEW View
CONSTRAINT Bounded
INVARIANTS InvPKUnique InvUniqueIdx InvNotNull InvChecks InvGenerated InvAutoCovers
ACTION_CONSTRAINT Emit
CHECK_DEADLOCK FALSE
