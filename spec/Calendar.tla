------------------------------ MODULE Calendar ------------------------------
(* C31.  The proleptic Gregorian calendar as MySQL's date functions use it, as integer algorithms.

   A date is a record [y, m, d]; a datetime adds sod (second of the day, 0..86399).  Everything is
   total on integers, so "dates" that do not exist (Feb 30) can be carried around and judged by
   Valid.  The supported range is 0001-01-01 .. 9999-12-31.

   Day numbers: DaysFromCivil counts days from 1970-01-01 (era algorithm: 400-year eras of 146097
   days, years starting in March).  ToDays is MySQL's TO_DAYS numbering (0001-01-01 = 366).
   Second arithmetic is only done within +-24000 days of 2000-01-01 (InWindow), where the second
   count fits 32-bit integers (TLC's integers are 32 bit). *)
EXTENDS Integers, Sequences, TLC

Min(a, b) == IF a <= b THEN a ELSE b
Abs(x) == IF x < 0 THEN -x ELSE x
\* integer division truncating toward zero (TLA+'s \div floors)
Quot(x, k) == IF x >= 0 THEN x \div k ELSE -((-x) \div k)

MinYear == 1
MaxYear == 9999

IsLeap(y) == (y % 4 = 0 /\ y % 100 # 0) \/ y % 400 = 0
DaysInMonth(y, m) == IF m = 2 THEN (IF IsLeap(y) THEN 29 ELSE 28)
                     ELSE IF m \in {4, 6, 9, 11} THEN 30 ELSE 31
DaysInYear(y) == IF IsLeap(y) THEN 366 ELSE 365

D(y, m, d) == [y |-> y, m |-> m, d |-> d]
Valid(y, m, d) == y \in MinYear..MaxYear /\ m \in 1..12 /\ d >= 1 /\ d <= DaysInMonth(y, m)
ValidDate(a) == Valid(a.y, a.m, a.d)

\* ---- day numbers ---------------------------------------------------------------------------
DaysFromCivil(a) ==
    LET y   == IF a.m <= 2 THEN a.y - 1 ELSE a.y
        era == y \div 400
        yoe == y - era * 400
        mp  == IF a.m > 2 THEN a.m - 3 ELSE a.m + 9
        doy == (153 * mp + 2) \div 5 + a.d - 1
        doe == yoe * 365 + yoe \div 4 - yoe \div 100 + doy
    IN era * 146097 + doe - 719468

CivilFromDays(n) ==
    LET z   == n + 719468
        era == z \div 146097
        doe == z - era * 146097
        yoe == (doe - doe \div 1460 + doe \div 36524 - doe \div 146096) \div 365
        doy == doe - (365 * yoe + yoe \div 4 - yoe \div 100)
        mp  == (5 * doy + 2) \div 153
        d   == doy - (153 * mp + 2) \div 5 + 1
        m   == IF mp < 10 THEN mp + 3 ELSE mp - 9
        y   == yoe + era * 400 + (IF m <= 2 THEN 1 ELSE 0)
    IN D(y, m, d)

ToDaysOffset == 719528                        \* TO_DAYS('1970-01-01')
ToDays(a) == DaysFromCivil(a) + ToDaysOffset
FromDays(n) == CivilFromDays(n - ToDaysOffset)
MinDayNo == DaysFromCivil(D(MinYear, 1, 1))
MaxDayNo == DaysFromCivil(D(MaxYear, 12, 31))

\* the next calendar day, by the month-length table only (an independent formulation used by the
\* sanity invariants)
NextDay(a) == IF a.d < DaysInMonth(a.y, a.m) THEN D(a.y, a.m, a.d + 1)
              ELSE IF a.m < 12 THEN D(a.y, a.m + 1, 1) ELSE D(a.y + 1, 1, 1)

\* ---- derived date functions -------------------------------------------------------------------
LastDay(a) == D(a.y, a.m, DaysInMonth(a.y, a.m))
DayOfYear(a) == DaysFromCivil(a) - DaysFromCivil(D(a.y, 1, 1)) + 1
DayOfWeek(a) == ((DaysFromCivil(a) + 4) % 7) + 1        \* 1 = Sunday (1970-01-01 was a Thursday)
WeekDay(a) == (DaysFromCivil(a) + 3) % 7                \* 0 = Monday
DateDiff(a, b) == DaysFromCivil(a) - DaysFromCivil(b)

\* ---- interval arithmetic ----------------------------------------------------------------------
\* Results: a date, or NullDate (beyond 9999-12-31: MySQL returns NULL with a warning), or
\* UnspecDate (before 0001-01-01: outside the supported range, MySQL's own result is a year-0 date
\* or NULL depending on the unit; not judged).  Both are records of the date shape with month 0.
NullDate == [y |-> 10000, m |-> 0, d |-> 0]
UnspecDate == [y |-> 0, m |-> 0, d |-> 0]
DayUnits == {"DAY", "WEEK"}
MonthUnits == {"MONTH", "QUARTER", "YEAR"}
DateUnits == DayUnits \cup MonthUnits
SecUnits == {"SECOND", "MINUTE", "HOUR"}
UnitDays(u) == IF u = "WEEK" THEN 7 ELSE 1
UnitMonths(u) == IF u = "YEAR" THEN 12 ELSE IF u = "QUARTER" THEN 3 ELSE 1
UnitSecs(u) == IF u = "HOUR" THEN 3600 ELSE IF u = "MINUTE" THEN 60 ELSE 1

AddDays(a, k) ==
    LET n == DaysFromCivil(a) + k
    IN IF n > MaxDayNo THEN NullDate ELSE IF n < MinDayNo THEN UnspecDate ELSE CivilFromDays(n)

MonthTarget(a, k) ==            \* year and month k months away (no day yet)
    LET p == a.y * 12 + (a.m - 1) + k IN [y |-> p \div 12, m |-> (p % 12) + 1]
AddMonths(a, k) ==
    LET t == MonthTarget(a, k)
    IN IF t.y > MaxYear THEN NullDate ELSE IF t.y < MinYear THEN UnspecDate
       ELSE D(t.y, t.m, Min(a.d, DaysInMonth(t.y, t.m)))      \* end-of-month clamping

AddInterval(a, n, u) == IF u \in DayUnits THEN AddDays(a, n * UnitDays(u)) ELSE AddMonths(a, n * UnitMonths(u))

IsDate(r) == r.m # 0

\* No end-of-month clamping happens when n units are added to a.
NoClamp(a, n, u) ==
    \/ u \in DayUnits \/ u \in SecUnits
    \/ LET t == MonthTarget(a, n * UnitMonths(u)) IN a.d <= DaysInMonth(t.y, t.m)

\* ---- datetimes: [y, m, d, sod] ------------------------------------------------------------------
DT(a, sod) == [y |-> a.y, m |-> a.m, d |-> a.d, sod |-> sod]
DateOf(t) == D(t.y, t.m, t.d)
Z2000 == DaysFromCivil(D(2000, 1, 1))
WindowDays == 24000
InWindow(t) == Abs(DaysFromCivil(DateOf(t)) - Z2000) <= WindowDays
Secs(t) == (DaysFromCivil(DateOf(t)) - Z2000) * 86400 + t.sod        \* only for InWindow(t)

\* add k seconds (|k| small), carrying into the date
AddSeconds(t, k) ==
    LET s == t.sod + k
        r == AddDays(DateOf(t), s \div 86400)
    IN IF IsDate(r) THEN DT(r, s % 86400) ELSE DT(r, 0)
\* add a date-granular interval to a datetime: the time of day is kept
AddIntervalDT(t, n, u) ==
    IF u \in SecUnits THEN AddSeconds(t, n * UnitSecs(u))
    ELSE LET r == AddInterval(DateOf(t), n, u) IN IF IsDate(r) THEN DT(r, t.sod) ELSE DT(r, 0)

\* ---- differences ------------------------------------------------------------------------------------
Before(s, t) == \/ DaysFromCivil(DateOf(s)) < DaysFromCivil(DateOf(t))
                \/ (DaysFromCivil(DateOf(s)) = DaysFromCivil(DateOf(t)) /\ s.sod < t.sod)
\* complete months / days from beg to end, for beg not after end
MonthsBetween(beg, end) ==
    (end.y - beg.y) * 12 + (end.m - beg.m)
      - (IF end.d < beg.d \/ (end.d = beg.d /\ end.sod < beg.sod) THEN 1 ELSE 0)
DaysBetween(beg, end) ==
    DaysFromCivil(DateOf(end)) - DaysFromCivil(DateOf(beg)) - (IF end.sod < beg.sod THEN 1 ELSE 0)

\* seconds from beg to end; only for values at most SpanDays apart (32-bit integers)
SpanDays == 24000
NearEnough(s, t) == Abs(DaysFromCivil(DateOf(s)) - DaysFromCivil(DateOf(t))) <= SpanDays
SecsBetween(beg, end) == (DaysFromCivil(DateOf(end)) - DaysFromCivil(DateOf(beg))) * 86400 + (end.sod - beg.sod)

\* TIMESTAMPDIFF(u, s, t) = t - s in complete units, signed.  SECOND/MINUTE/HOUR only if NearEnough(s, t).
TimestampDiff(u, s, t) ==
    LET neg  == Before(t, s)
        beg  == IF neg THEN t ELSE s
        end  == IF neg THEN s ELSE t
        sign == IF neg THEN -1 ELSE 1
    IN IF u \in MonthUnits THEN sign * (MonthsBetween(beg, end) \div UnitMonths(u))
       ELSE IF u \in DayUnits THEN sign * (DaysBetween(beg, end) \div UnitDays(u))
       ELSE sign * (SecsBetween(beg, end) \div UnitSecs(u))

\* ---- canonical strings ------------------------------------------------------------------------
Pad2(n) == IF n < 10 THEN "0" \o ToString(n) ELSE ToString(n)
Pad3(n) == IF n < 10 THEN "00" \o ToString(n) ELSE IF n < 100 THEN "0" \o ToString(n) ELSE ToString(n)
Pad4(n) == IF n < 1000 THEN "0" \o Pad3(n) ELSE ToString(n)
DateStr(a) == Pad4(a.y) \o "-" \o Pad2(a.m) \o "-" \o Pad2(a.d)
TimeStr(sod) == Pad2(sod \div 3600) \o ":" \o Pad2((sod % 3600) \div 60) \o ":" \o Pad2(sod % 60)
DTStr(t) == DateStr(t) \o " " \o TimeStr(t.sod)
=============================================================================
