------------------------------ MODULE StoreConv ------------------------------
(* C27.  Storing a value into a column:  Store(type, value, mode) is
       [o |-> "Stored",   ...]   the value is representable and is stored exactly,
       [o |-> "Rejected", ...]   the statement fails and nothing is stored            (strict mode),
       [o |-> "Adjusted", ...]   a different value is stored AND a warning/note is raised
                                 (INSERT IGNORE: the nearest representable value; DECIMAL rounding of
                                 excess fraction digits in both modes).
   Never anything else -- in particular never silently a different value -- and re-storing a stored
   value does not change it (Idempotent).

   Types (records with the same fields  k, t, n, members, p, s):
     int      t in DecArith!IntTypes                       range by digit-string comparison
     char / varchar / binary / varbinary (n)               length in characters / bytes
     enum / set (members: sequence of names)
     bit (n <= 16), year, decimal (p, s)
   Input values (k, x, cps, names):
     int / dec   x a DecArith number               str   cps a sequence of code points
     names       a sequence of member names (an ENUM name, or the comma list of a SET)
   Stored values are given in the canonical form the harness reads back:
     [kind |-> "num", s |-> decimal text]    [kind |-> "str" | "bytes", cps |-> code points / bytes]
     [kind |-> "text", s |-> member name / comma list]

   Out of the crisp region (not generated): strings longer than n only because of trailing spaces,
   CHAR values with trailing spaces (PAD_CHAR_TO_FULL_LENGTH), case variants of ENUM/SET members,
   fractional literals into integer columns, numeric SET values beyond the mask under IGNORE,
   negative BIT values. *)
EXTENDS DecArith

Ty(k, t, n, mem, p, s) == [k |-> k, t |-> t, n |-> n, members |-> mem, p |-> p, s |-> s]
IntTy(t) == Ty("int", t, 0, <<>>, 0, 0)
StrTy(k, n) == Ty(k, "-", n, <<>>, 0, 0)
EnumTy(mem) == Ty("enum", "-", 0, mem, 0, 0)
SetTy(mem) == Ty("set", "-", 0, mem, 0, 0)
BitTy(n) == Ty("bit", "-", n, <<>>, 0, 0)
YearTy == Ty("year", "-", 0, <<>>, 0, 0)
DecTy(p, s) == Ty("decimal", "-", 0, <<>>, p, s)

Val(k, x, cps, names) == [k |-> k, x |-> x, cps |-> cps, names |-> names]
IntVal(x) == Val("int", x, <<>>, <<>>)
DecVal(x) == Val("dec", x, <<>>, <<>>)
StrVal(cps) == Val("str", Zero, cps, <<>>)
NamesVal(ns) == Val("names", Zero, <<>>, ns)

\* a stored value: canonical form (kind, s, cps) for the comparison with what the engine reads back,
\* and `re`: the same value as an input (to state idempotence)
Num(x) == [kind |-> "num", s |-> Str(x), cps |-> <<>>, re |-> IF x.s = 0 THEN IntVal(x) ELSE DecVal(x)]
DNum(x) == [kind |-> "num", s |-> Str(x), cps |-> <<>>, re |-> DecVal(x)]
Chars(kind, cps) == [kind |-> kind, s |-> "", cps |-> cps, re |-> StrVal(cps)]
Text(s, names) == [kind |-> "text", s |-> s, cps |-> <<>>, re |-> NamesVal(names)]
None == [kind |-> "none", s |-> "", cps |-> <<>>, re |-> StrVal(<<>>)]

Stored(v) == [o |-> "Stored", v |-> v]
Adjusted(v) == [o |-> "Adjusted", v |-> v]
Rejected == [o |-> "Rejected", v |-> None]
Bad(mode, v) == IF mode = "strict" THEN Rejected ELSE Adjusted(v)      \* unrepresentable input

NatV(i) == IntV(FALSE, FromNat(i))
Between(x, lo, hi) == x.s = 0 /\ DCmp(x, NatV(lo)) >= 0 /\ DCmp(x, NatV(hi)) <= 0
RangeSeq(q) == {q[i] : i \in DOMAIN q}

\* ---- a string of digits (optionally signed) read as an integer -----------------------------------
IsDigits(cps) == cps # <<>> /\ \A i \in DOMAIN cps : cps[i] \in 48..57
NumOfDigits(cps) == IntV(FALSE, Strip([i \in 1..Len(cps) |-> cps[Len(cps) + 1 - i] - 48]))
IsIntText(cps) == IsDigits(cps) \/ (Len(cps) > 1 /\ cps[1] = 45 /\ IsDigits(Tail(cps)))
NumOfText(cps) == IF cps[1] = 45 THEN DNeg(NumOfDigits(Tail(cps))) ELSE NumOfDigits(cps)

\* ---- integers ---------------------------------------------------------------------------------
StoreIntNum(t, x, mode) ==
  IF InType(x, t) THEN Stored(Num(x))
  ELSE Bad(mode, Num(IF DCmp(x, TMin(t)) < 0 THEN TMin(t) ELSE TMax(t)))          \* IGNORE clamps
StoreInt(t, v, mode) ==
  CASE v.k = "int" -> StoreIntNum(t, v.x, mode)
    [] v.k = "str" -> (IF IsIntText(v.cps) THEN StoreIntNum(t, NumOfText(v.cps), mode) ELSE Bad(mode, Num(Zero)))

\* ---- strings and binary strings -----------------------------------------------------------------
Pad0(cps, n) == cps \o [i \in 1..(n - Len(cps)) |-> 0]
StoreStr(ty, v, mode) ==
  LET kind == IF ty.k \in {"char", "varchar"} THEN "str" ELSE "bytes"
      fit(c) == IF ty.k = "binary" THEN Pad0(c, ty.n) ELSE c                 \* BINARY(n) pads with 0x00
  IN IF Len(v.cps) <= ty.n THEN Stored(Chars(kind, fit(v.cps)))
     ELSE Bad(mode, Chars(kind, SubSeq(v.cps, 1, ty.n)))                    \* IGNORE truncates to n

\* ---- ENUM / SET -----------------------------------------------------------------------------------
RECURSIVE Join(_)
Join(q) == IF q = <<>> THEN "" ELSE IF Len(q) = 1 THEN q[1] ELSE q[1] \o "," \o Join(Tail(q))
ErrEnum == Text("", <<>>)                                                     \* the ENUM error value '' (index 0)
StoreEnum(ty, v, mode) ==
  CASE v.k = "names" -> (IF Len(v.names) = 1 /\ v.names[1] \in RangeSeq(ty.members) THEN Stored(Text(v.names[1], v.names))
                         ELSE Bad(mode, ErrEnum))
    [] v.k = "int" -> (IF Between(v.x, 1, Len(ty.members))
                       THEN LET m == ty.members[ToNat(v.x.m)] IN Stored(Text(m, <<m>>))
                       ELSE Bad(mode, ErrEnum))                                \* index 0 is not a member
SetOf(ty, chosen) == LET q == SelectSeq(ty.members, LAMBDA m : m \in chosen) IN Text(Join(q), q)   \* definition order, no duplicates
RECURSIVE Bit(_)
Bit(i) == IF i = 1 THEN 1 ELSE 2 * Bit(i - 1)
StoreSet(ty, v, mode) ==
  CASE v.k = "names" ->
         (LET given == RangeSeq(v.names) IN
          IF given \subseteq RangeSeq(ty.members) THEN Stored(SetOf(ty, given))
          ELSE Bad(mode, SetOf(ty, given \cap RangeSeq(ty.members))))                \* IGNORE keeps the valid members
    [] v.k = "int" ->
         (IF Between(v.x, 0, Bit(Len(ty.members) + 1) - 1)
          THEN LET w == ToNat(v.x.m) IN
               Stored(SetOf(ty, {ty.members[j] : j \in {j \in DOMAIN ty.members : (w \div Bit(j)) % 2 = 1}}))
          ELSE Rejected)                                                           \* (IGNORE: not generated)

\* ---- BIT(n), YEAR -------------------------------------------------------------------------------
StoreBit(ty, v, mode) ==
  LET max == IntV(FALSE, SubM(Pow2(ty.n), One)) IN
  IF ~v.x.n /\ DCmp(v.x, max) <= 0 THEN Stored(Num(v.x)) ELSE Bad(mode, Num(max))
YearOfNum(x, zeroIs2000) ==
  IF IsZero(x) THEN [ok |-> TRUE, y |-> IF zeroIs2000 THEN NatV(2000) ELSE Zero]
  ELSE IF Between(x, 1, 69) THEN [ok |-> TRUE, y |-> DAdd(NatV(2000), x)]
  ELSE IF Between(x, 70, 99) THEN [ok |-> TRUE, y |-> DAdd(NatV(1900), x)]
  ELSE IF Between(x, 1901, 2155) THEN [ok |-> TRUE, y |-> x]
  ELSE [ok |-> FALSE, y |-> Zero]
StoreYear(v, mode) ==
  LET r == CASE v.k = "int" -> YearOfNum(v.x, FALSE)
             [] v.k = "str" -> (IF IsDigits(v.cps) THEN YearOfNum(NumOfDigits(v.cps), TRUE)   \* '0', '00' mean 2000
                                ELSE [ok |-> FALSE, y |-> Zero])
  IN IF r.ok THEN Stored(Num(r.y)) ELSE Bad(mode, Num(Zero))

\* ---- DECIMAL(p, s) --------------------------------------------------------------------------------
RoundHalfAway(x, s) ==                               \* to scale s, ties away from zero
  IF x.s <= s THEN Rescale(x, s)
  ELSE LET k == x.s - s
           top == IF Len(x.m) >= k THEN x.m[k] ELSE 0                         \* most significant dropped digit
           kept == IF Len(x.m) > k THEN SubSeq(x.m, k + 1, Len(x.m)) ELSE <<>>
       IN Mk(x.n, IF top >= 5 THEN AddM(kept, One) ELSE kept, s)
Nines(p) == [i \in 1..p |-> 9]
StoreDec(ty, v, mode) ==
  LET r == RoundHalfAway(v.x, ty.s) IN
  IF Len(r.m) <= ty.p
  THEN (IF DCmp(r, v.x) = 0 THEN Stored(DNum(r)) ELSE Adjusted(DNum(r)))      \* rounding is reported (note), both modes
  ELSE Bad(mode, DNum(Mk(v.x.n, Nines(ty.p), ty.s)))                          \* IGNORE clamps to +-99..9.99

Store(ty, v, mode) ==
  CASE ty.k = "int" -> StoreInt(ty.t, v, mode)
    [] ty.k \in {"char", "varchar", "binary", "varbinary"} -> StoreStr(ty, v, mode)
    [] ty.k = "enum" -> StoreEnum(ty, v, mode)
    [] ty.k = "set" -> StoreSet(ty, v, mode)
    [] ty.k = "bit" -> StoreBit(ty, v, mode)
    [] ty.k = "year" -> StoreYear(v, mode)
    [] ty.k = "decimal" -> StoreDec(ty, v, mode)

\* Law: whatever was stored (exactly or adjusted) is stored unchanged when stored again, in strict mode.
\* (The ENUM error value '' is the documented exception: it is not a member and cannot be entered.)
Idempotent(ty, v, mode) ==
  LET out == Store(ty, v, mode) IN
  (out.o # "Rejected" /\ out.v # ErrEnum) => Store(ty, out.v.re, "strict") = Stored(out.v)
=============================================================================
