----------------------------- MODULE WireFormat -----------------------------
(* C28.  The MySQL wire representation of column values, as a codec over byte sequences.

   For every column type the module gives
     Format(ty, v, rcs)       the text-protocol bytes of the abstract value v (canonical spelling),
     Parse(ty, bytes, rcs)    grammar membership + denotation: [ok |-> FALSE] or [ok |-> TRUE, v |-> value],
     Announced(ty, rcs)       the maximum text length a server must announce for the column,
     FormatBin / ParseBin     the binary (prepared statement) protocol value,
   so that Parse(Format(v)) = v, Len(Format(v)) <= Announced and ParseBin(FormatBin(v)) = v (checked by
   TLC in MC_Wire) and so that text / binary rows recorded from the real server can be judged
   (Trace_Wire): the bytes must be in the grammar and must denote the stored value.

   TLC has 32-bit integers and no reals.  Numbers are therefore digit sequences (most significant
   digit first, entries 0..9); 64-bit and DECIMAL(65,30) values never become TLC integers.  Bytes and
   code points are small integers.  Conversions base 256 <-> base 10 are done by long multiplication /
   long division on digit sequences.

   Abstract values
     integer kinds (int, year, bit)   [neg, d]            d without leading zeros, zero is not negative
     dec                              [neg, ip, fp]       ip without leading zeros, fp = the scale's digits
     date / datetime / timestamp      [y, mo, d, h, mi, s, us]
     time                             [neg, h, mi, s, us]
     char kinds                       sequence of code points
     binary kinds                     sequence of bytes
     enum                             member index (1-based);   set: set of member indexes
     float / double                   [neg, m, e]  = (+-) 0.m x 10^e, m without leading/trailing zeros
                                      (a decimal numeral's normal form; no real arithmetic)
   Type descriptors  ty = [k, bits, uns, p, s, n, cs, mem]  (k = kind; s = scale or fsp; n = length in
   characters / bytes / bits; cs = column character set; mem = member names as code point sequences).
   rcs = the character set the text is sent in (character_set_results). *)
EXTENDS Integers, Sequences, FiniteSets, TLC

Mod(x, y) == x % y
Div(x, y) == x \div y
Bad == [ok |-> FALSE]
Ok(x) == [ok |-> TRUE, v |-> x]
Rev(s) == [i \in 1..Len(s) |-> s[Len(s) + 1 - i]]
RECURSIVE Flat(_)
Flat(ss) == IF ss = <<>> THEN <<>> ELSE Head(ss) \o Flat(Tail(ss))
Zeros(n) == [i \in 1..n |-> 0]

\* ---- digit sequences -----------------------------------------------------------------------------
RECURSIVE StripZ(_)
StripZ(d) == IF Len(d) > 1 /\ d[1] = 0 THEN StripZ(Tail(d)) ELSE d
RECURSIVE StripTrail(_)
StripTrail(d) == IF Len(d) > 0 /\ d[Len(d)] = 0 THEN StripTrail(SubSeq(d, 1, Len(d) - 1)) ELSE d
IsZeroD(d) == \A i \in DOMAIN d : d[i] = 0
IsDigits(d) == \A i \in DOMAIN d : d[i] \in 0..9

RECURSIVE LexLe(_, _)
LexLe(a, b) == IF a = <<>> THEN TRUE
               ELSE IF Head(a) < Head(b) THEN TRUE
               ELSE IF Head(a) > Head(b) THEN FALSE
               ELSE LexLe(Tail(a), Tail(b))
MagLe(a, b) == LET x == StripZ(a) y == StripZ(b) IN IF Len(x) # Len(y) THEN Len(x) < Len(y) ELSE LexLe(x, y)

\* least significant digit first:  d * m + c   (m, c small)
RECURSIVE MulAddLE(_, _, _)
MulAddLE(d, m, c) ==
    IF d = <<>> THEN (IF c = 0 THEN <<>> ELSE <<Mod(c, 10)>> \o MulAddLE(<<>>, m, Div(c, 10)))
    ELSE LET x == d[1] * m + c IN <<Mod(x, 10)>> \o MulAddLE(Tail(d), m, Div(x, 10))
MulAdd(d, m, c) == StripZ(Rev(MulAddLE(Rev(d), m, c)))
AddSmall(d, c) == MulAdd(d, 1, c)
RECURSIVE DecLE(_)
DecLE(d) == IF d[1] > 0 THEN <<d[1] - 1>> \o Tail(d) ELSE <<9>> \o DecLE(Tail(d))
Dec1(d) == StripZ(Rev(DecLE(Rev(d))))                 \* d - 1 for d >= 1

\* long division by a small m: <<quotient, remainder>>
RECURSIVE DivLoop(_, _, _, _, _)
DivLoop(d, i, m, r, q) ==
    IF i > Len(d) THEN <<StripZ(q), r>>
    ELSE LET x == r * 10 + d[i] IN DivLoop(d, i + 1, m, Mod(x, m), Append(q, Div(x, m)))
DivSmall(d, m) == DivLoop(d, 1, m, 0, <<>>)

\* base 256 (big-endian bytes) -> base 10
RECURSIVE B2DLoop(_, _, _)
B2DLoop(bs, i, acc) == IF i > Len(bs) THEN acc ELSE B2DLoop(bs, i + 1, MulAdd(acc, 256, bs[i]))
BytesToDigits(bs) == B2DLoop(bs, 1, <<0>>)
\* base 10 -> n little-endian bytes (the value modulo 256^n)
RECURSIVE DigitsToLE(_, _)
DigitsToLE(d, n) == IF n = 0 THEN <<>> ELSE LET qr == DivSmall(d, 256) IN <<qr[2]>> \o DigitsToLE(qr[1], n - 1)
FitsBytes(d, n) == MagLe(d, BytesToDigits([i \in 1..n |-> 255]))

RECURSIVE NatDigits(_)
NatDigits(n) == IF n < 10 THEN <<n>> ELSE Append(NatDigits(Div(n, 10)), Mod(n, 10))
RECURSIVE NatLoop(_, _, _)
NatLoop(d, i, acc) == IF i > Len(d) THEN acc ELSE NatLoop(d, i + 1, acc * 10 + d[i])
NatOf(d) == NatLoop(d, 1, 0)                           \* callers keep Len(d) <= 9
PadL(d, w) == IF Len(d) >= w THEN d ELSE Zeros(w - Len(d)) \o d
Pad(n, w) == PadL(NatDigits(n), w)
IntV(n) == [neg |-> n < 0, d |-> NatDigits(IF n < 0 THEN 0 - n ELSE n)]      \* small TLC integer as value
NormInt(v) == [neg |-> v.neg /\ ~IsZeroD(v.d), d |-> StripZ(v.d)]

\* two's complement
Inv(bs) == [i \in DOMAIN bs |-> 255 - bs[i]]
IntOfBE(be, signed) ==
    IF signed /\ Len(be) > 0 /\ be[1] >= 128 THEN [neg |-> TRUE, d |-> AddSmall(BytesToDigits(Inv(be)), 1)]
    ELSE [neg |-> FALSE, d |-> BytesToDigits(be)]
IntOfLE(le, signed) == IntOfBE(Rev(le), signed)
LEOfInt(v, n) == IF v.neg THEN Inv(DigitsToLE(Dec1(v.d), n)) ELSE DigitsToLE(v.d, n)

\* ---- bytes of text -------------------------------------------------------------------------------
Minus == 45   Dot == 46   Colon == 58   Space == 32   Comma == 44
D2B(d) == [i \in 1..Len(d) |-> d[i] + 48]
B2D(b) == [i \in 1..Len(b) |-> b[i] - 48]
AllDigits(b) == \A i \in DOMAIN b : b[i] >= 48 /\ b[i] <= 57
Sub(b, i, j) == IF i > j THEN <<>> ELSE SubSeq(b, i, j)
IndexOf(b, c) == IF \E i \in DOMAIN b : b[i] = c THEN CHOOSE i \in DOMAIN b : b[i] = c /\ \A j \in 1..(i - 1) : b[j] # c ELSE 0

\* ---- character sets --------------------------------------------------------------------------------
Utf8Enc(cp) ==
    IF cp < 128 THEN <<cp>>
    ELSE IF cp < 2048 THEN <<192 + Div(cp, 64), 128 + Mod(cp, 64)>>
    ELSE IF cp < 65536 THEN <<224 + Div(cp, 4096), 128 + Mod(Div(cp, 64), 64), 128 + Mod(cp, 64)>>
    ELSE <<240 + Div(cp, 262144), 128 + Mod(Div(cp, 4096), 64), 128 + Mod(Div(cp, 64), 64), 128 + Mod(cp, 64)>>
Cont(b) == b >= 128 /\ b < 192
\* strict decoder (no overlong forms, no surrogates, <= U+10FFFF); an ill-formed tail yields the element -1
RECURSIVE Utf8Dec(_, _)
Utf8Dec(b, i) ==
    IF i > Len(b) THEN <<>>
    ELSE LET c == b[i] IN
      IF c < 128 THEN <<c>> \o Utf8Dec(b, i + 1)
      ELSE IF c >= 194 /\ c < 224 /\ i + 1 <= Len(b) /\ Cont(b[i + 1])
           THEN <<(c - 192) * 64 + (b[i + 1] - 128)>> \o Utf8Dec(b, i + 2)
      ELSE IF c >= 224 /\ c < 240 /\ i + 2 <= Len(b) /\ Cont(b[i + 1]) /\ Cont(b[i + 2])
           THEN LET cp == (c - 224) * 4096 + (b[i + 1] - 128) * 64 + (b[i + 2] - 128) IN
                IF cp < 2048 \/ (cp >= 55296 /\ cp < 57344) THEN <<-1>> ELSE <<cp>> \o Utf8Dec(b, i + 3)
      ELSE IF c >= 240 /\ c < 245 /\ i + 3 <= Len(b) /\ Cont(b[i + 1]) /\ Cont(b[i + 2]) /\ Cont(b[i + 3])
           THEN LET cp == (c - 240) * 262144 + (b[i + 1] - 128) * 4096 + (b[i + 2] - 128) * 64 + (b[i + 3] - 128) IN
                IF cp < 65536 \/ cp > 1114111 THEN <<-1>> ELSE <<cp>> \o Utf8Dec(b, i + 4)
      ELSE <<-1>>

\* MySQL's latin1 is Windows-1252 (0x81 0x8D 0x8F 0x90 0x9D map to the same code points)
CP1252 == <<8364, 129, 8218, 402, 8222, 8230, 8224, 8225, 710, 8240, 352, 8249, 338, 141, 381, 143,
            144, 8216, 8217, 8220, 8221, 8226, 8211, 8212, 732, 8482, 353, 8250, 339, 157, 382, 376>>
Latin1Cp(b) == IF b < 128 \/ b >= 160 THEN b ELSE CP1252[b - 127]
Latin1Byte(cp) == IF cp < 128 \/ (cp >= 160 /\ cp < 256) THEN cp
                  ELSE IF \E k \in 1..32 : CP1252[k] = cp THEN 127 + (CHOOSE k \in 1..32 : CP1252[k] = cp) ELSE -1
InLatin1(cps) == \A i \in DOMAIN cps : Latin1Byte(cps[i]) >= 0

\* collation id announced in a column definition -> character set
CsOfColl(id) == IF id = 63 THEN "binary"
                ELSE IF id \in {5, 8, 15, 31, 47, 48, 49, 94} THEN "latin1"
                ELSE IF id \in {45, 46, 255} \cup (224..247) \cup (256..323) THEN "utf8mb4"
                ELSE IF id \in {33, 83} \cup (192..215) THEN "utf8mb3"
                ELSE IF id \in {11, 65} THEN "ascii"
                ELSE "other"
MaxLen(cs) == CASE cs = "utf8mb4" -> 4 [] cs = "utf8mb3" -> 3 [] OTHER -> 1

\* code points of bytes in a character set; -1 marks an undecodable byte sequence
DecodeChars(cs, b) ==
    CASE cs \in {"utf8mb4", "utf8mb3"} -> Utf8Dec(b, 1)
      [] cs = "latin1" -> [i \in 1..Len(b) |-> Latin1Cp(b[i])]
      [] cs = "ascii" -> [i \in 1..Len(b) |-> IF b[i] < 128 THEN b[i] ELSE -1]
      [] OTHER -> <<-1>>
EncodeChars(cs, cps) ==
    CASE cs \in {"utf8mb4", "utf8mb3"} -> Flat([i \in 1..Len(cps) |-> Utf8Enc(cps[i])])
      [] OTHER -> [i \in 1..Len(cps) |-> Latin1Byte(cps[i])]
GoodChars(cps) == \A i \in DOMAIN cps : cps[i] >= 0

\* ---- kinds ---------------------------------------------------------------------------------------
IntKinds == {"int", "year", "bit"}
DtKinds == {"date", "datetime", "timestamp"}
CharKinds == {"char", "varchar", "text"}
ByteKinds == {"binary", "varbinary", "blob"}
FloatKinds == {"float", "double"}
Ty(k, bits, uns, p, s, n, cs, mem) == [k |-> k, bits |-> bits, uns |-> uns, p |-> p, s |-> s, n |-> n, cs |-> cs, mem |-> mem]
\* character set the text of a column arrives in
TextCs(ty, rcs) == IF ty.k \in ByteKinds THEN "binary" ELSE IF ty.k = "json" THEN "utf8mb4" ELSE rcs

\* ---- announced maximum text length ---------------------------------------------------------------
\* The formula a server has to use so that no value's text is longer (MySQL's column-definition
\* lengths).  2147483647 stands for "4294967295 or more" (LONGTEXT, LONGBLOB, JSON).
Huge == 2147483647
IntLen(bits, uns) == CASE bits = 8 -> IF uns THEN 3 ELSE 4
                       [] bits = 16 -> IF uns THEN 5 ELSE 6
                       [] bits = 24 -> IF uns THEN 8 ELSE 9
                       [] bits = 32 -> IF uns THEN 10 ELSE 11
                       [] bits = 64 -> 20
RECURSIVE SumLen(_, _)
SumLen(ms, cs) == IF ms = <<>> THEN 0 ELSE Len(Head(ms)) * MaxLen(cs) + SumLen(Tail(ms), cs)
MaxOfSet(S) == IF S = {} THEN 0 ELSE CHOOSE x \in S : \A y \in S : y <= x
Announced(ty, rcs) ==
    CASE ty.k = "int" -> IntLen(ty.bits, ty.uns)
      [] ty.k = "year" -> 4
      [] ty.k = "bit" -> ty.n
      [] ty.k = "dec" -> ty.p + (IF ty.s > 0 THEN 2 ELSE 1) + (IF ty.s = ty.p THEN 1 ELSE 0)   \* DECIMAL(p,p): "-0.dd" has a leading 0
      [] ty.k = "float" -> 12
      [] ty.k = "double" -> 22
      [] ty.k = "date" -> 10
      [] ty.k \in {"datetime", "timestamp"} -> 19 + (IF ty.s > 0 THEN 1 + ty.s ELSE 0)
      [] ty.k = "time" -> 17
      [] ty.k \in {"char", "varchar"} -> ty.n * MaxLen(rcs)
      [] ty.k = "text" -> IF ty.n >= Huge THEN Huge ELSE IF ty.n > Div(Huge, 4) THEN Huge ELSE ty.n * MaxLen(rcs)
      [] ty.k \in ByteKinds -> ty.n
      [] ty.k = "enum" -> MaxOfSet({Len(ty.mem[i]) : i \in DOMAIN ty.mem}) * MaxLen(rcs)
      [] ty.k = "set" -> SumLen(ty.mem, rcs) + (IF Len(ty.mem) > 0 THEN Len(ty.mem) - 1 ELSE 0)
      [] OTHER -> Huge

\* ---- text protocol: Format -----------------------------------------------------------------------
Sign(neg) == IF neg THEN <<Minus>> ELSE <<>>
FmtInt(v) == Sign(v.neg) \o D2B(v.d)
FmtYear(v) == D2B(PadL(v.d, 4))
BitBytes(ty) == Div(ty.n + 7, 8)
FmtBit(ty, v) == Rev(DigitsToLE(v.d, BitBytes(ty)))
FmtDec(ty, v) == Sign(v.neg) \o D2B(v.ip) \o (IF ty.s > 0 THEN <<Dot>> \o D2B(v.fp) ELSE <<>>)
FmtDate(v) == D2B(Pad(v.y, 4)) \o <<Minus>> \o D2B(Pad(v.mo, 2)) \o <<Minus>> \o D2B(Pad(v.d, 2))
FmtFrac(us, fsp) == IF fsp = 0 THEN <<>> ELSE <<Dot>> \o D2B(SubSeq(Pad(us, 6), 1, fsp))
FmtClock(h2, v, fsp) == D2B(h2) \o <<Colon>> \o D2B(Pad(v.mi, 2)) \o <<Colon>> \o D2B(Pad(v.s, 2)) \o FmtFrac(v.us, fsp)
FmtDatetime(ty, v) == FmtDate(v) \o <<Space>> \o FmtClock(Pad(v.h, 2), v, ty.s)
TimeFsp == 6      \* the engine has one TIME type, time(6): six fraction digits always
FmtTime(v) == Sign(v.neg) \o FmtClock(IF v.h < 100 THEN Pad(v.h, 2) ELSE NatDigits(v.h), v, TimeFsp)
RECURSIVE JoinNames(_, _, _)
JoinNames(names, S, i) ==
    IF i > Len(names) THEN <<>>
    ELSE IF i \in S THEN (IF \E j \in S : j < i THEN <<Comma>> ELSE <<>>) \o names[i] \o JoinNames(names, S, i + 1)
    ELSE JoinNames(names, S, i + 1)

Format(ty, v, rcs) ==
    CASE ty.k = "int" -> FmtInt(v)
      [] ty.k = "year" -> FmtYear(v)
      [] ty.k = "bit" -> FmtBit(ty, v)
      [] ty.k = "dec" -> FmtDec(ty, v)
      [] ty.k = "date" -> FmtDate(v)
      [] ty.k \in {"datetime", "timestamp"} -> FmtDatetime(ty, v)
      [] ty.k = "time" -> FmtTime(v)
      [] ty.k \in CharKinds -> EncodeChars(rcs, v)
      [] ty.k \in ByteKinds -> v
      [] ty.k = "enum" -> EncodeChars(rcs, ty.mem[v])
      [] ty.k = "set" -> EncodeChars(rcs, JoinNames(ty.mem, v, 1))

\* ---- text protocol: grammar + denotation ----------------------------------------------------------
\* integer: [-] digits, no leading zeros, no "-0"
ParseInt(b) ==
    LET neg == Len(b) > 0 /\ b[1] = Minus
        body == IF neg THEN Sub(b, 2, Len(b)) ELSE b IN
    IF Len(body) = 0 \/ ~AllDigits(body) \/ (Len(body) > 1 /\ body[1] = 48) \/ (neg /\ body = <<48>>) THEN Bad
    ELSE Ok([neg |-> neg, d |-> B2D(body)])
\* YEAR: exactly four digits, "0000" for the zero year.  (The spelling matters: converted back as a
\* string, '0' is the year 2000 in MySQL's rules, only '0000' is the zero year.)
ParseYear(b) == IF Len(b) = 4 /\ AllDigits(b) THEN Ok([neg |-> FALSE, d |-> StripZ(B2D(b))]) ELSE Bad
\* BIT(n): ceil(n/8) bytes, big-endian, the unused high bits zero
ParseBit(ty, b) ==
    IF Len(b) # BitBytes(ty) THEN Bad
    ELSE LET d == BytesToDigits(b)
             top == Mod(ty.n, 8) IN
         IF top # 0 /\ b[1] >= 2 ^ top THEN Bad ELSE Ok([neg |-> FALSE, d |-> d])
\* DECIMAL(p,s): [-] integer digits (no leading zeros) [. exactly s digits], at most p - s integer digits
ParseDec(ty, b) ==
    LET neg == Len(b) > 0 /\ b[1] = Minus
        body == IF neg THEN Sub(b, 2, Len(b)) ELSE b
        dot == IndexOf(body, Dot)
        ip == IF dot = 0 THEN body ELSE Sub(body, 1, dot - 1)
        fp == IF dot = 0 THEN <<>> ELSE Sub(body, dot + 1, Len(body)) IN
    IF Len(ip) = 0 \/ ~AllDigits(ip) \/ ~AllDigits(fp) \/ (Len(ip) > 1 /\ ip[1] = 48) THEN Bad
    ELSE IF (ty.s = 0 /\ dot # 0) \/ (ty.s > 0 /\ (dot = 0 \/ Len(fp) # ty.s)) THEN Bad
    ELSE IF Len(ip) > ty.p - ty.s /\ ip # <<48>> THEN Bad
    ELSE Ok([neg |-> neg, ip |-> B2D(ip), fp |-> B2D(fp)])
NormDec(v) == LET z == IsZeroD(v.ip) /\ IsZeroD(v.fp) IN
              [neg |-> v.neg /\ ~z, ip |-> StripZ(v.ip), fp |-> StripTrail(v.fp)]
\* coefficient x 10^exp (the stored form) as a DECIMAL value
DecOfCoeff(neg, c, exp) ==
    IF exp >= 0 THEN NormDec([neg |-> neg, ip |-> c \o Zeros(exp), fp |-> <<>>])
    ELSE LET k == 0 - exp
             cc == PadL(c, k + 1) IN
         NormDec([neg |-> neg, ip |-> SubSeq(cc, 1, Len(cc) - k), fp |-> SubSeq(cc, Len(cc) - k + 1, Len(cc))])

DtV(y, mo, d, h, mi, s, us) == [y |-> y, mo |-> mo, d |-> d, h |-> h, mi |-> mi, s |-> s, us |-> us]
\* 'YYYY-MM-DD'
ParseDate(b) ==
    IF Len(b) # 10 \/ b[5] # Minus \/ b[8] # Minus \/ ~AllDigits(Sub(b, 1, 4) \o Sub(b, 6, 7) \o Sub(b, 9, 10)) THEN Bad
    ELSE LET mo == NatOf(B2D(Sub(b, 6, 7)))
             d == NatOf(B2D(Sub(b, 9, 10))) IN
         IF mo > 12 \/ d > 31 THEN Bad ELSE Ok(DtV(NatOf(B2D(Sub(b, 1, 4))), mo, d, 0, 0, 0, 0))
\* fraction: "" for fsp 0, "." + exactly fsp digits otherwise; value in microseconds
ParseFrac(b, fsp) ==
    IF fsp = 0 THEN (IF b = <<>> THEN Ok(0) ELSE Bad)
    ELSE IF Len(b) # fsp + 1 \/ b[1] # Dot \/ ~AllDigits(Sub(b, 2, Len(b))) THEN Bad
    ELSE Ok(NatOf(B2D(Sub(b, 2, Len(b))) \o Zeros(6 - fsp)))
\* 'hh:mm:ss' + fraction
ParseHMS(b, fsp) ==
    IF Len(b) < 8 \/ b[3] # Colon \/ b[6] # Colon \/ ~AllDigits(Sub(b, 1, 2) \o Sub(b, 4, 5) \o Sub(b, 7, 8)) THEN Bad
    ELSE LET fr == ParseFrac(Sub(b, 9, Len(b)), fsp)
             h == NatOf(B2D(Sub(b, 1, 2)))
             mi == NatOf(B2D(Sub(b, 4, 5)))
             s == NatOf(B2D(Sub(b, 7, 8))) IN
         IF ~fr.ok \/ mi > 59 \/ s > 59 THEN Bad ELSE Ok([h |-> h, mi |-> mi, s |-> s, us |-> fr.v])
\* 'YYYY-MM-DD hh:mm:ss[.f{fsp}]'
ParseDatetime(ty, b) ==
    IF Len(b) < 19 \/ b[11] # Space THEN Bad
    ELSE LET dd == ParseDate(Sub(b, 1, 10))
             tt == ParseHMS(Sub(b, 12, Len(b)), ty.s) IN
         IF ~dd.ok \/ ~tt.ok THEN Bad
         ELSE IF tt.v.h > 23 THEN Bad
         ELSE Ok(DtV(dd.v.y, dd.v.mo, dd.v.d, tt.v.h, tt.v.mi, tt.v.s, tt.v.us))
\* TIME: [-] hh | hhh (no leading zero in three digits, <= 838) :mm:ss [. 1..6 digits]
ParseTime(b) ==
    LET neg == Len(b) > 0 /\ b[1] = Minus
        body == IF neg THEN Sub(b, 2, Len(b)) ELSE b
        c1 == IndexOf(body, Colon) IN
    IF c1 \notin {3, 4} \/ Len(body) < c1 + 5 THEN Bad
    ELSE LET hb == Sub(body, 1, c1 - 1)
             rest == Sub(body, c1 + 1, Len(body))            \* mm:ss[.ffffff]
             fb == Sub(rest, 6, Len(rest)) IN
         IF ~AllDigits(hb) \/ (Len(hb) = 3 /\ hb[1] = 48) \/ rest[3] # Colon \/ ~AllDigits(Sub(rest, 1, 2) \o Sub(rest, 4, 5)) THEN Bad
         ELSE IF fb # <<>> /\ (fb[1] # Dot \/ Len(fb) \notin 2..7 \/ ~AllDigits(Sub(fb, 2, Len(fb)))) THEN Bad
         ELSE LET h == NatOf(B2D(hb))
                  mi == NatOf(B2D(Sub(rest, 1, 2)))
                  s == NatOf(B2D(Sub(rest, 4, 5)))
                  us == IF fb = <<>> THEN 0 ELSE NatOf(B2D(Sub(fb, 2, Len(fb))) \o Zeros(7 - Len(fb))) IN
              IF h > 838 \/ mi > 59 \/ s > 59 THEN Bad
              ELSE Ok([neg |-> neg /\ (h + mi + s + us > 0), h |-> h, mi |-> mi, s |-> s, us |-> us])

ParseChars(cs, b) == LET cps == DecodeChars(cs, b) IN IF GoodChars(cps) THEN Ok(cps) ELSE Bad
ParseEnum(ty, cs, b) ==
    LET r == ParseChars(cs, b) IN
    IF ~r.ok THEN Bad
    ELSE LET hits == {i \in DOMAIN ty.mem : ty.mem[i] = r.v} IN
         IF Cardinality(hits) # 1 THEN Bad ELSE Ok(CHOOSE i \in hits : TRUE)
\* split a code point sequence at commas
RECURSIVE SplitComma(_)
SplitComma(cps) == LET i == IndexOf(cps, Comma) IN
                   IF i = 0 THEN <<cps>> ELSE <<Sub(cps, 1, i - 1)>> \o SplitComma(Sub(cps, i + 1, Len(cps)))
\* SET: member names joined by commas, in definition order, no repetition; '' is the empty set
ParseSet(ty, cs, b) ==
    LET r == ParseChars(cs, b) IN
    IF ~r.ok THEN Bad
    ELSE IF r.v = <<>> THEN Ok({})
    ELSE LET names == SplitComma(r.v)
             idx == [k \in 1..Len(names) |-> IF \E i \in DOMAIN ty.mem : ty.mem[i] = names[k]
                                               THEN CHOOSE i \in DOMAIN ty.mem : ty.mem[i] = names[k] ELSE 0] IN
         IF \E k \in DOMAIN idx : idx[k] = 0 THEN Bad
         ELSE IF \E k \in 1..(Len(idx) - 1) : idx[k] >= idx[k + 1] THEN Bad
         ELSE Ok({idx[k] : k \in DOMAIN idx})

\* decimal / scientific numeral: [-] digits [. digits] [e [+-] digits]; normal form 0.m x 10^e
Numeral(b) ==
    LET neg == Len(b) > 0 /\ b[1] = Minus
        body == IF neg THEN Sub(b, 2, Len(b)) ELSE b
        epos == IF IndexOf(body, 101) # 0 THEN IndexOf(body, 101) ELSE IndexOf(body, 69)
        mant == IF epos = 0 THEN body ELSE Sub(body, 1, epos - 1)
        ex == IF epos = 0 THEN <<>> ELSE Sub(body, epos + 1, Len(body))
        exneg == Len(ex) > 0 /\ ex[1] = Minus
        exd == IF Len(ex) > 0 /\ ex[1] \in {Minus, 43} THEN Sub(ex, 2, Len(ex)) ELSE ex
        dot == IndexOf(mant, Dot)
        ip == IF dot = 0 THEN mant ELSE Sub(mant, 1, dot - 1)
        fp == IF dot = 0 THEN <<>> ELSE Sub(mant, dot + 1, Len(mant)) IN
    IF Len(ip) = 0 \/ ~AllDigits(ip) \/ ~AllDigits(fp) \/ (dot # 0 /\ Len(fp) = 0) THEN Bad
    ELSE IF epos # 0 /\ (Len(exd) = 0 \/ Len(exd) > 4 \/ ~AllDigits(exd)) THEN Bad
    ELSE LET all == B2D(ip \o fp)
             lead == IF IsZeroD(all) THEN Len(all) ELSE (CHOOSE i \in DOMAIN all : all[i] # 0 /\ \A j \in 1..(i - 1) : all[j] = 0) - 1
             m == StripTrail(Sub(all, lead + 1, Len(all)))
             x == IF epos = 0 THEN 0 ELSE (IF exneg THEN 0 - NatOf(B2D(exd)) ELSE NatOf(B2D(exd))) IN
         IF m = <<>> THEN Ok([neg |-> neg, m |-> <<>>, e |-> 0])
         ELSE Ok([neg |-> neg, m |-> m, e |-> Len(ip) - lead + x])
\* the two spellings strconv / MySQL use for a normal form (design half: the normal form does not depend on the spelling)
FmtSci(v) == IF v.m = <<>> THEN Sign(v.neg) \o <<48>>
             ELSE Sign(v.neg) \o D2B(<<v.m[1]>>) \o (IF Len(v.m) > 1 THEN <<Dot>> \o D2B(Tail(v.m)) ELSE <<>>)
                  \o <<101>> \o (IF v.e - 1 < 0 THEN <<Minus>> ELSE <<43>>)
                  \o D2B(Pad(IF v.e - 1 < 0 THEN 1 - v.e ELSE v.e - 1, 2))
FmtFix(v) == IF v.m = <<>> THEN Sign(v.neg) \o <<48>>
             ELSE IF v.e <= 0 THEN Sign(v.neg) \o <<48, Dot>> \o D2B(Zeros(0 - v.e) \o v.m)
             ELSE IF v.e >= Len(v.m) THEN Sign(v.neg) \o D2B(v.m \o Zeros(v.e - Len(v.m)))
             ELSE Sign(v.neg) \o D2B(SubSeq(v.m, 1, v.e)) \o <<Dot>> \o D2B(SubSeq(v.m, v.e + 1, Len(v.m)))
SameNumber(a, b) == a.m = b.m /\ (a.m = <<>> \/ (a.e = b.e /\ a.neg = b.neg))

Parse(ty, b, rcs) ==
    CASE ty.k = "int" -> ParseInt(b)
      [] ty.k = "year" -> ParseYear(b)
      [] ty.k = "bit" -> ParseBit(ty, b)
      [] ty.k = "dec" -> ParseDec(ty, b)
      [] ty.k = "date" -> ParseDate(b)
      [] ty.k \in {"datetime", "timestamp"} -> ParseDatetime(ty, b)
      [] ty.k = "time" -> ParseTime(b)
      [] ty.k \in CharKinds -> ParseChars(rcs, b)
      [] ty.k \in ByteKinds -> Ok(b)
      [] ty.k = "enum" -> ParseEnum(ty, rcs, b)
      [] ty.k = "set" -> ParseSet(ty, rcs, b)
      [] ty.k \in FloatKinds -> Numeral(b)
      [] OTHER -> Bad

\* ---- framing -------------------------------------------------------------------------------------
\* length-encoded string at the head of b: [ok, v = payload, rest]; 251 (0xfb) is the text protocol's NULL
LenEnc(b) ==
    IF Len(b) = 0 THEN Bad
    ELSE IF b[1] < 251 THEN (IF Len(b) < 1 + b[1] THEN Bad ELSE [ok |-> TRUE, v |-> Sub(b, 2, 1 + b[1]), rest |-> Sub(b, 2 + b[1], Len(b))])
    ELSE IF b[1] = 252 /\ Len(b) >= 3
         THEN LET n == b[2] + 256 * b[3] IN
              IF Len(b) < 3 + n THEN Bad ELSE [ok |-> TRUE, v |-> Sub(b, 4, 3 + n), rest |-> Sub(b, 4 + n, Len(b))]
    ELSE IF b[1] = 253 /\ Len(b) >= 4
         THEN LET n == b[2] + 256 * b[3] + 65536 * b[4] IN
              IF Len(b) < 4 + n THEN Bad ELSE [ok |-> TRUE, v |-> Sub(b, 5, 4 + n), rest |-> Sub(b, 5 + n, Len(b))]
    ELSE Bad
LenEncOf(b) == IF Len(b) < 251 THEN <<Len(b)>> \o b
               ELSE IF Len(b) < 65536 THEN <<252, Mod(Len(b), 256), Div(Len(b), 256)>> \o b
               ELSE <<253, Mod(Len(b), 256), Mod(Div(Len(b), 256), 256), Div(Len(b), 65536)>> \o b

\* ---- binary protocol -----------------------------------------------------------------------------
\* column type codes of the protocol
TTiny == 1  TShort == 2  TLong == 3  TFloat == 4  TDouble == 5  TTimestamp == 7  TLongLong == 8  TInt24 == 9
TDate == 10  TTime == 11  TDatetime == 12  TYear == 13  TVarchar == 15  TBit == 16  TJson == 245  TNewDecimal == 246
TEnum == 247  TSet == 248  TTinyBlob == 249  TMediumBlob == 250  TLongBlob == 251  TBlob == 252  TVarString == 253  TString == 254
FixedWidth(code) == CASE code = TTiny -> 1 [] code \in {TShort, TYear} -> 2 [] code \in {TLong, TInt24, TFloat} -> 4
                      [] code \in {TLongLong, TDouble} -> 8 [] OTHER -> 0
IntCodes == {TTiny, TShort, TLong, TInt24, TLongLong, TYear}
DtCodes == {TDate, TDatetime, TTimestamp}
StrCodes == {TVarchar, TBit, TJson, TNewDecimal, TEnum, TSet, TTinyBlob, TMediumBlob, TLongBlob, TBlob, TVarString, TString}
\* the type code a server announces for a column kind
CodeOf(ty) == CASE ty.k = "int" -> (CASE ty.bits = 8 -> TTiny [] ty.bits = 16 -> TShort [] ty.bits = 24 -> TInt24 [] ty.bits = 32 -> TLong [] OTHER -> TLongLong)
                [] ty.k = "year" -> TYear [] ty.k = "bit" -> TBit [] ty.k = "dec" -> TNewDecimal
                [] ty.k = "float" -> TFloat [] ty.k = "double" -> TDouble [] ty.k = "date" -> TDate
                [] ty.k = "datetime" -> TDatetime [] ty.k = "timestamp" -> TTimestamp [] ty.k = "time" -> TTime
                [] ty.k \in {"char", "binary", "enum", "set"} -> TString [] ty.k \in {"varchar", "varbinary"} -> TVarString
                [] ty.k \in {"text", "blob"} -> TBlob [] OTHER -> TJson
\* which representation class a column kind needs from the announced code
ClassOfCode(code) == IF code \in IntCodes THEN "int" ELSE IF code = TFloat THEN "float" ELSE IF code = TDouble THEN "double"
                     ELSE IF code \in DtCodes THEN "dt" ELSE IF code = TTime THEN "time" ELSE IF code \in StrCodes THEN "str" ELSE "other"
ClassOfKind(k) == IF k \in {"int", "year"} THEN "int" ELSE IF k \in {"float", "double"} THEN k ELSE IF k \in DtKinds THEN "dt"
                  ELSE IF k = "time" THEN "time" ELSE "str"

LE16(b) == b[1] + 256 * b[2]
LE32ok(b) == b[4] < 128
LE32(b) == b[1] + 256 * b[2] + 65536 * b[3] + 16777216 * b[4]
LE16Of(n) == <<Mod(n, 256), Div(n, 256)>>
LE32Of(n) == <<Mod(n, 256), Mod(Div(n, 256), 256), Mod(Div(n, 65536), 256), Div(n, 16777216)>>

\* DATE / DATETIME / TIMESTAMP struct: length byte 0 | 4 | 7 | 11
ParseBinDt(b) ==
    IF Len(b) = 0 \/ b[1] \notin {0, 4, 7, 11} \/ Len(b) # b[1] + 1 THEN Bad
    ELSE LET n == b[1] IN
         IF n = 0 THEN Ok(DtV(0, 0, 0, 0, 0, 0, 0))
         ELSE LET y == LE16(Sub(b, 2, 3))
                  h == IF n >= 7 THEN b[6] ELSE 0
                  mi == IF n >= 7 THEN b[7] ELSE 0
                  s == IF n >= 7 THEN b[8] ELSE 0 IN
              IF n = 11 /\ ~LE32ok(Sub(b, 9, 12)) THEN Bad
              ELSE LET us == IF n = 11 THEN LE32(Sub(b, 9, 12)) ELSE 0 IN
                   IF y > 9999 \/ b[4] > 12 \/ b[5] > 31 \/ h > 23 \/ mi > 59 \/ s > 59 \/ us > 999999 THEN Bad
                   ELSE Ok(DtV(y, b[4], b[5], h, mi, s, us))
\* TIME struct: length byte 0 | 8 | 12: sign, days (uint32), hours, minutes, seconds [, microseconds (uint32)]
ParseBinTime(b) ==
    IF Len(b) = 0 \/ b[1] \notin {0, 8, 12} \/ Len(b) # b[1] + 1 THEN Bad
    ELSE IF b[1] = 0 THEN Ok([neg |-> FALSE, h |-> 0, mi |-> 0, s |-> 0, us |-> 0])
    ELSE IF b[2] \notin {0, 1} \/ ~LE32ok(Sub(b, 3, 6)) \/ (b[1] = 12 /\ ~LE32ok(Sub(b, 10, 13))) THEN Bad
    ELSE LET days == LE32(Sub(b, 3, 6))
             us == IF b[1] = 12 THEN LE32(Sub(b, 10, 13)) ELSE 0 IN
         IF days > 34 \/ b[7] > 23 \/ b[8] > 59 \/ b[9] > 59 \/ us > 999999 THEN Bad
         ELSE LET h == days * 24 + b[7] IN
              Ok([neg |-> b[2] = 1 /\ (h + b[8] + b[9] + us > 0), h |-> h, mi |-> b[8], s |-> b[9], us |-> us])

\* the value part of a binary row for one column: [ok, v] where v is the abstract value of the column
\* kind.  code / uns are what the column definition announced.  FLOAT / DOUBLE denote their bytes.
ParseBin(ty, code, uns, b, rcs) ==
    IF ClassOfCode(code) # ClassOfKind(ty.k) THEN Bad
    ELSE CASE code \in IntCodes -> (IF Len(b) # FixedWidth(code) THEN Bad ELSE Ok(NormInt(IntOfLE(b, ~uns))))
           [] code \in {TFloat, TDouble} -> (IF Len(b) # FixedWidth(code) THEN Bad ELSE Ok(b))
           [] code \in DtCodes -> ParseBinDt(b)
           [] code = TTime -> ParseBinTime(b)
           [] OTHER -> LET le == LenEnc(b) IN IF ~le.ok THEN Bad ELSE IF le.rest # <<>> THEN Bad ELSE Parse(ty, le.v, rcs)

FmtBinDt(ty, v) ==
    IF v.y + v.mo + v.d + v.h + v.mi + v.s + v.us = 0 THEN <<0>>
    ELSE IF ty.k = "date" \/ v.h + v.mi + v.s + v.us = 0 THEN <<4>> \o LE16Of(v.y) \o <<v.mo, v.d>>
    ELSE IF v.us = 0 THEN <<7>> \o LE16Of(v.y) \o <<v.mo, v.d, v.h, v.mi, v.s>>
    ELSE <<11>> \o LE16Of(v.y) \o <<v.mo, v.d, v.h, v.mi, v.s>> \o LE32Of(v.us)
FmtBinTime(v) ==
    IF v.h + v.mi + v.s + v.us = 0 THEN <<0>>
    ELSE LET hd == <<IF v.neg THEN 1 ELSE 0>> \o LE32Of(Div(v.h, 24)) \o <<Mod(v.h, 24), v.mi, v.s>> IN
         IF v.us = 0 THEN <<8>> \o hd ELSE <<12>> \o hd \o LE32Of(v.us)
FormatBin(ty, v, rcs) ==
    CASE ty.k = "int" -> LEOfInt(v, Div(IF ty.bits = 24 THEN 32 ELSE ty.bits, 8))
      [] ty.k = "year" -> LEOfInt(v, 2)
      [] ty.k \in DtKinds -> FmtBinDt(ty, v)
      [] ty.k = "time" -> FmtBinTime(v)
      [] OTHER -> LenEncOf(Format(ty, v, rcs))

\* ---- rows with one column --------------------------------------------------------------------------
\* text row: one length-encoded string or 0xfb
TextRow(b) == IF b = <<251>> THEN [ok |-> TRUE, null |-> TRUE, v |-> <<>>]
              ELSE LET le == LenEnc(b) IN
                   IF ~le.ok THEN [ok |-> FALSE, null |-> FALSE, v |-> <<>>]
                   ELSE IF le.rest # <<>> THEN [ok |-> FALSE, null |-> FALSE, v |-> <<>>]
                   ELSE [ok |-> TRUE, null |-> FALSE, v |-> le.v]
\* binary row: header 0x00, NULL bitmap (bit 2 = the first column), value bytes
BinRow(b) == IF Len(b) < 2 \/ b[1] # 0 \/ b[2] \notin {0, 4} THEN [ok |-> FALSE, null |-> FALSE, v |-> <<>>]
             ELSE IF b[2] = 4 THEN [ok |-> Len(b) = 2, null |-> TRUE, v |-> <<>>]
             ELSE [ok |-> TRUE, null |-> FALSE, v |-> Sub(b, 3, Len(b))]
=============================================================================
