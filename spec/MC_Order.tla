------------------------------ MODULE MC_Order ------------------------------
(* C04, binding A.  Bounded enumeration over SQLSem of ORDER BY / LIMIT / OFFSET:
   all tables of <= MaxRows rows over two key columns with values {NULL, 0, 1}  x  all key lists of
   1-2 keys (each ASC or DESC)  x  all (LIMIT, OFFSET) <= 5 (and no LIMIT).

   TLC checks, on the specification alone, that the acceptance test the engine is judged by
   (SQLSem!ResultOK) is neither vacuous nor too strict:
     SelfOK       the specification's own result is accepted, and has the prescribed length;
     TiesOpen     the result computed from the table in reverse physical order (another valid
                  tie-breaking) is accepted as well;
     NullsPlace   with one key and no LIMIT, NULL keys come first for ASC and last for DESC;
     SwapRejected exchanging two adjacent rows with different sort keys is rejected;
     DropRejected a result one row short is rejected; a result of a different slice (shifted by one
                  position) is rejected when the keys at the two ends differ.
   and emits (table, queries) cases that the driver harness/cmd/c04 executes on the real engine; the
   recorded results are validated by Trace_Query (SQLSem!ResultOK).

   The table is chosen in Init and the query in Next because TLC computes initial states on one
   thread. *)
EXTENDS SQLSem, Json

CONSTANT MaxRows

Vals == {NULL, I(0), I(1)}
Col(i) == [k |-> "col", d |-> 0, i |-> i, c |-> "none"]
RowsDom == [1..2 -> Vals]
TablesDom == UNION {[1..n -> RowsDom] : n \in 0..MaxRows}
Ord(i, d) == [i |-> i, desc |-> d]
KeyLists == {<<Ord(i, d)>> : i \in 1..2, d \in BOOLEAN}
            \cup {<<Ord(i, d), Ord(3 - i, e)>> : i \in 1..2, d \in BOOLEAN, e \in BOOLEAN}
Lims == -1..5
Offs(lim) == IF lim < 0 THEN {0} ELSE 0..5     \* OFFSET without LIMIT is not generated (C10's subject)

VARIABLES tb, ks, lim, off, phase
vars == <<tb, ks, lim, off, phase>>

T == [k |-> "table", name |-> "t"]
DBof(rows) == [t |-> [w |-> 2, rows |-> rows]]
DB == DBof(tb)
QQ(keys, l, o) == [Sel(T, TT, <<Col(1), Col(2)>>) EXCEPT !.order = keys, !.limit = l, !.offset = o]
Qry == QQ(ks, lim, off)
CS == <<"none", "none">>

Init == tb \in TablesDom /\ ks = <<>> /\ lim = -1 /\ off = 0 /\ phase = 0
Next ==
  /\ phase = 0
  /\ phase' = 1
  /\ ks' \in KeyLists
  /\ lim' \in Lims
  /\ off' \in Offs(lim')
  /\ UNCHANGED tb
\* sampling variant for `-simulate` (one random table and one random query per behaviour)
\* (the table is drawn in the step: the initial states of a simulation are computed once)
SInit == tb = <<>> /\ ks = <<>> /\ lim = -1 /\ off = 0 /\ phase = 0
SNext ==
  /\ phase = 0
  /\ phase' = 1
  /\ tb' = RandomElement(TablesDom)
  /\ ks' = RandomElement(KeyLists)
  /\ lim' = RandomElement(Lims)
  /\ off' = RandomElement(Offs(lim'))

Res == Rows(Qry, <<>>, DB)
RevTb == [i \in DOMAIN tb |-> tb[Len(tb) + 1 - i]]
Swap(s, i) == [j \in DOMAIN s |-> IF j = i THEN s[i + 1] ELSE IF j = i + 1 THEN s[i] ELSE s[j]]
Full == Rows(QQ(ks, -1, 0), <<>>, DB)

SelfOK == ResultOK(Qry, DB, Res) /\ Len(Res) = ExpectedLen(Qry, Len(tb))
TiesOpen == ResultOK(Qry, DB, Rows(Qry, <<>>, DBof(RevTb)))
NullsPlace ==
  (Len(ks) = 1 /\ lim < 0) =>
     \A a, b \in DOMAIN Res :
        (IsN(Res[a][ks[1].i]) /\ ~IsN(Res[b][ks[1].i])) => (IF ks[1].desc THEN a > b ELSE a < b)
SwapRejected ==
  \A i \in 1..(Len(Res) - 1) :
     RowLt(ks, CS, Res[i], Res[i + 1]) => ~ResultOK(Qry, DB, Swap(Res, i))
DropRejected ==
  /\ Len(Res) >= 1 => ~ResultOK(Qry, DB, SubSeq(Res, 1, Len(Res) - 1))
  /\ (lim >= 1 /\ Len(Full) > off + Len(Res) /\ Len(Res) >= 1
        /\ ~RowKeyEq(ks, CS, Full[off + 1], Full[off + Len(Res) + 1]))
       => ~ResultOK(Qry, DB, SubSeq(Full, off + 2, off + Len(Res) + 1))

Laws == phase = 1 => /\ SelfOK /\ TiesOpen /\ NullsPlace /\ SwapRejected /\ DropRejected

\* ---- cases for the engine (binding A): the chosen slice, the unsliced order, the top-1 path and
\* ---- the slice without OFFSET, over the chosen table
Cases(keys, l, o) == << QQ(keys, l, o), QQ(keys, -1, 0), QQ(keys, 1, o), QQ(keys, IF l < 0 THEN 2 ELSE l, 0) >>
Emit == PrintT("CASE " \o ToJson([tb |-> tb', qs |-> Cases(ks', lim', off')]))
=============================================================================
