--------------------------- MODULE Trace_Outfile ---------------------------
(* C50, binding A + B: judges recorded INTO OUTFILE -> LOAD DATA executions of the real engine.
   trace.ndjson lines (written by harness/cmd/c50):
     {"ev":"case","id":n,"o":<option set>,"types":[..],"want":<rows the case asked for>,
      "orig":<SELECT * FROM t before the export>,"out":"ok"|"err"|..,"load":"ok"|"err"|..,
      "reload":<SELECT * FROM u after the load>,"file":<code points of the exported file>, ...}

   VERDICT (the property's own): the statement pair export + load is a stuttering step of the
   table's data -- the reloaded table equals the exported table as a BAG of rows, and both
   statements succeed.  Nothing else decides.
   Reported with a disagreement, never deciding: which original rows are lost and which hostile
   character classes they contain (RowClasses), and on which side the failure lies: the engine's file
   decoded with the specification's Decode denotes the rows => import side, otherwise export side. *)
EXTENDS OutfileCodec, Json, SequencesExt

TraceLog == ndJsonDeserialize("trace.ndjson")

VARIABLES l
vars == <<l>>

Init == l = 1

Count(r, rows) == Cardinality({i \in DOMAIN rows : rows[i] = r})
BagEq(a, b) == /\ Len(a) = Len(b)
               /\ \A i \in DOMAIN a : Count(a[i], a) = Count(a[i], b)
Lost(a, b) == {i \in DOMAIN a : Count(a[i], b) < Count(a[i], a)}       \* rows of a missing from b

Shape(o) == [enc |-> IF o.enc = <<>> THEN "none" ELSE IF o.opt THEN "optional" ELSE "always",
             ft |-> Len(o.ft), lt |-> Len(o.lt), st |-> Len(o.st)]

FileDenotes(e) == BagEq(Decode(e.file, e.o), e.orig)

Judge(e) ==
  IF ~GoodOptions(e.o) \/ e.orig # e.want
  THEN PrintT("MM " \o ToJson([l |-> l, id |-> e.id, what |-> "fixture",      \* not about the engine's codec
                                detail |-> IF GoodOptions(e.o) THEN "inserted rows differ from the case" ELSE "option set outside the model"]))
  ELSE IF e.out # "ok"
  THEN PrintT("MM " \o ToJson([l |-> l, id |-> e.id, what |-> "outfile-" \o e.out, side |-> "export", shape |-> Shape(e.o),
                                lost |-> [i \in DOMAIN e.orig |-> RowClasses(e.orig[i], e.types, e.o)], lostidx |-> DOMAIN e.orig, extra |-> 0]))
  ELSE IF e.load = "ok" /\ BagEq(e.orig, e.reload) THEN TRUE
  ELSE LET lost == Lost(e.orig, e.reload)
           ls == SetToSeq(lost)
       IN PrintT("MM " \o ToJson([l |-> l, id |-> e.id,
                                   what |-> IF e.load # "ok" THEN "load-" \o e.load ELSE IF lost = {} THEN "extra-rows" ELSE "lost-row",
                                   side |-> IF FileDenotes(e) THEN "import" ELSE "export",
                                   shape |-> Shape(e.o),
                                   lostidx |-> ls,
                                   lost |-> [k \in DOMAIN ls |-> RowClasses(e.orig[ls[k]], e.types, e.o)],
                                   extra |-> Cardinality(Lost(e.reload, e.orig)),
                                   decoded |-> Decode(e.file, e.o)]))

Next ==
  /\ l <= Len(TraceLog)
  /\ l' = l + 1
  /\ Judge(TraceLog[l])

HW == TLCSet(1, l)
Accepted == TLCGet(1) = Len(TraceLog) + 1
=============================================================================
