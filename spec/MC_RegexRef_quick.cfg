CONSTANT Sigma = {97, 98}
CONSTANT MaxSub = 3
CONSTANT Deep = FALSE
INIT Init
NEXT Next
INVARIANT Sane
ACTION_CONSTRAINT Emit
CHECK_DEADLOCK FALSE
