CONSTANTS
  Big = TRUE
INIT PInit
NEXT PNext
INVARIANT Injective
CHECK_DEADLOCK FALSE
