CONSTANTS
  Conns = {1, 2, 3}
  Pids = {1, 2}
  MaxTok = 3
  MaxErr = 0
INIT Init
NEXT Next
VIEW View
INVARIANTS TypeOK PidIndex ListShowsLive ConnectedCounter 
PROPERTIES KillTargeted FreshNotCancelled OnlyKillCancelsCurrent KillHits
CHECK_DEADLOCK FALSE
ACTION_CONSTRAINT Emit
