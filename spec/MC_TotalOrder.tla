---------------------------- MODULE MC_TotalOrder ----------------------------
(* C26: the law operators of TotalOrder checked on EVERY 3 x 3 matrix over {-1, 0, 1} (3^9 = 19683
   states): a matrix passes Reflexive /\ Antisymmetric /\ Transitive exactly when it is the comparison
   matrix of some ranking of the three values (a total preorder), and NullFirst singles out the
   rankings that put the NULL positions strictly first.  The first row is chosen in Init. *)
EXTENDS TotalOrder, TLC

Ent == {-1, 0, 1}
Rows == [1..3 -> Ent]
VARIABLES m, ph
vars == <<m, ph>>
Init == \E r \in Rows : m = <<r, r, r>> /\ ph = 0
Next == ph = 0 /\ ph' = 1 /\ \E r2 \in Rows, r3 \in Rows : m' = <<m[1], r2, r3>>

Ranks == [1..3 -> 1..3]
OfRank(r) == [i \in 1..3 |-> [j \in 1..3 |-> Sign(r[i] - r[j])]]
IsOrder(M) == \E r \in Ranks : OfRank(r) = M
Laws == ph = 1 =>
  /\ (Reflexive(m) /\ Antisymmetric(m) /\ Transitive(m)) <=> IsOrder(m)
  /\ \A nulls \in SUBSET (1..3) :
        (IsOrder(m) /\ NullFirst(m, nulls)) <=>
        (\E r \in Ranks : /\ OfRank(r) = m
                          /\ \A i \in nulls, j \in 1..3 : (j \notin nulls => r[i] < r[j]) /\ (j \in nulls => r[i] = r[j]))
  /\ (IsOrder(m) => Broken(m, m, m, {}) = {})
  /\ LexCmp(<<m[1][1], m[1][2]>>, <<m[2][1], m[2][2]>>) = 0 - LexCmp(<<m[2][1], m[2][2]>>, <<m[1][1], m[1][2]>>)
=============================================================================
