CONSTANTS
  TableNames = {"t1", "t2", "t3"}
  ColNames = {"a", "b", "c", "d"}
  IdxNames = {"i1", "i2"}
  FkNames = {"fk1", "fk2"}
  CkNames = {"ck1", "ck2"}
  ViewNames = {"v1"}
  TrigNames = {"tr1", "tr2"}
  ProcNames = {"p1"}
  MaxCols = 4
  MaxSteps = 18
INIT Init
NEXT NextRandom
INVARIANTS TypeOK ColumnNamesUnique IndexColsExist PKNotNull FKRefsExist ConstraintNamesUnique ChecksOnExistingCols DependentsExist
ACTION_CONSTRAINT Emit
CHECK_DEADLOCK FALSE
