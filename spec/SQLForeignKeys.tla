--------------------------- MODULE SQLForeignKeys ---------------------------
(* Foreign keys over the tables of SQLTables (C18).

   Catalog: fks = sequence of [name, child, ccols, parent, pcols, ondel, onupd]
            (ccols / pcols: sequences of column ordinals of equal length; actions
             "restrict" | "noaction" | "cascade" | "setnull").
   Flag fkc = foreign_key_checks (off: statements mean what SQLTables says, nothing is checked or cascaded).

   MySQL rules modelled (InnoDB: every check and action is immediate, row by row):
     * MATCH SIMPLE: a child key with ANY NULL column is exempt;
     * INSERT / UPDATE of a child row whose (changed) non-NULL key has no parent row fails;
       a row may reference a row inserted earlier in the same statement, or itself;
     * DELETE of a parent row / UPDATE of its referenced columns, per foreign key referencing the table:
       RESTRICT and NO ACTION fail if a child row matches the old key; CASCADE deletes the child rows /
       rewrites their key columns; SET NULL sets the child key columns NULL (failing on a NOT NULL column);
       the child edits trigger the actions of the keys that reference the CHILD table, recursively
       (multi-level chains, diamonds, self references); every (table,row) is deleted at most once, so
       cycles terminate; a fuel bound stands for MySQL's cascade depth limit;
     * a statement that violates a key fails without effect on ANY table.
   Left open (both "fails without effect" and "the row-by-row result" are allowed): a RESTRICT / NO ACTION
   hit of a DELETE whose only matching child rows are rows the same statement is still going to delete or
   is the deleted row itself, and a self-referencing child check that only a later row of the same statement satisfies --
   the outcome depends on the processing order, which SQL does not fix.
   Statement shapes outside the fragment (never generated): REPLACE / ON DUPLICATE KEY UPDATE / IGNORE
   on tables with foreign keys, TRUNCATE of a referenced table, key columns that are part of another key. *)
EXTENDS SQLTables

KeyOf(row, cols) == [j \in DOMAIN cols |-> row[cols[j]]]
HasNullKey(k) == \E j \in DOMAIN k : IsN(k[j])
FkParents(fks, t) == {i \in DOMAIN fks : fks[i].parent = t}      \* keys that reference table t
FkChildren(fks, t) == {i \in DOMAIN fks : fks[i].child = t}      \* keys table t declares
Involved(fks, t) == FkParents(fks, t) # {} \/ FkChildren(fks, t) # {}

RefIntegrity(tabs, fks) ==
  \A fi \in DOMAIN fks :
     LET f == fks[fi] IN
     \A i \in DOMAIN tabs[f.child].rows :
        LET k == KeyOf(tabs[f.child].rows[i], f.ccols) IN
        HasNullKey(k) \/ \E p \in DOMAIN tabs[f.parent].rows : KeyOf(tabs[f.parent].rows[p], f.pcols) = k

\* ------------------------------------------------------------------ the working state of a statement
\* w = [val |-> [t |-> sequence of rows], alive |-> [t |-> set of positions]]; positions never shift
W0(st) == [val |-> [t \in DOMAIN st.tabs |-> st.tabs[t].rows], alive |-> [t \in DOMAIN st.tabs |-> DOMAIN st.tabs[t].rows]]
RowsOfW(w, t) == LET keep == SelectSeq(IdxSeq(Len(w.val[t])), LAMBDA i : i \in w.alive[t])
                 IN [k \in 1..Len(keep) |-> w.val[t][keep[k]]]

Matching(w, f, key) == {j \in w.alive[f.child] : KeyOf(w.val[f.child][j], f.ccols) = key}
HasParent(w, f, key) == \E p \in w.alive[f.parent] : KeyOf(w.val[f.parent][p], f.pcols) = key

SetSeq(Sx) == LET RECURSIVE Go(_)
                  Go(R) == IF R = {} THEN <<>> ELSE LET x == SetMin(R) IN <<x>> \o Go(R \ {x})
              IN Go(Sx)

\* events: [k |-> "del"|"upd", t, i, old, new]; r = [w, q (pending events), viol (set of "hard"|"soft")]
DelEv(t, i, old) == [k |-> "del", t |-> t, i |-> i, old |-> old, new |-> old]
UpdEv(t, i, old, new) == [k |-> "upd", t |-> t, i |-> i, old |-> old, new |-> new]

\* one matching child row j of key f for event e
ChildStep(tabs, f, e, j, r, pend) ==
  LET act == IF e.k = "del" THEN f.ondel ELSE f.onupd
      w == r.w
      c == f.child
      oldc == w.val[c][j]
      self == c = e.t /\ j = e.i
  IN IF j \notin w.alive[c] THEN r
     ELSE IF act \in {"restrict", "noaction"}
          THEN [r EXCEPT !.viol = @ \cup {IF e.k = "del" /\ (self \/ j \in pend[c]) THEN "soft" ELSE "hard"}]
     ELSE IF act = "cascade" /\ e.k = "del"
          THEN [r EXCEPT !.w.alive[c] = @ \ {j}, !.q = Append(@, DelEv(c, j, oldc))]
     ELSE LET newc == [x \in DOMAIN oldc |->
                         LET p == PosIn(f.ccols, x) IN
                         IF p = 0 THEN oldc[x] ELSE IF act = "setnull" THEN NULL ELSE e.new[f.pcols[p]]]
          IN IF NotNullViol(tabs[c], newc) THEN [r EXCEPT !.viol = @ \cup {"hard"}]
             ELSE IF newc = oldc THEN r
             ELSE [r EXCEPT !.w.val[c][j] = newc, !.q = Append(@, UpdEv(c, j, oldc, newc))]

RECURSIVE ChildSteps(_, _, _, _, _, _)
ChildSteps(tabs, f, e, js, r, pend) ==
  IF js = <<>> THEN r ELSE ChildSteps(tabs, f, e, Tail(js), ChildStep(tabs, f, e, Head(js), r, pend), pend)

\* all keys referencing e.t react to event e
RECURSIVE KeySteps(_, _, _, _, _, _)
KeySteps(tabs, fks, fis, e, r, pend) ==
  IF fis = <<>> THEN r
  ELSE LET f == fks[Head(fis)]
           key == KeyOf(e.old, f.pcols)
           changed == e.k = "del" \/ KeyOf(e.new, f.pcols) # key
           js == IF changed /\ ~HasNullKey(key) THEN SetSeq(Matching(r.w, f, key)) ELSE <<>>
       IN KeySteps(tabs, fks, Tail(fis), e, ChildSteps(tabs, f, e, js, r, pend), pend)

RECURSIVE RunQ(_, _, _, _, _)
RunQ(tabs, fks, r, pend, fuel) ==
  IF r.q = <<>> THEN r
  ELSE IF fuel = 0 THEN [r EXCEPT !.viol = @ \cup {"soft"}, !.q = <<>>]
  ELSE LET e == Head(r.q)
           r1 == KeySteps(tabs, fks, SetSeq(FkParents(fks, e.t)), e, [r EXCEPT !.q = Tail(@)], pend)
       IN RunQ(tabs, fks, r1, pend, fuel - 1)

Fuel == 40
NoPend(tabs) == [t \in DOMAIN tabs |-> {}]

\* ------------------------------------------------------------------ DELETE
RECURSIVE DelSeeds(_, _, _, _, _, _)
DelSeeds(tabs, fks, t, sel, k, r) ==
  IF k > Len(sel) THEN r
  ELSE LET i == sel[k] IN
       IF i \notin r.w.alive[t] THEN DelSeeds(tabs, fks, t, sel, k + 1, r)     \* already gone by a cascade
       ELSE LET pend == [NoPend(tabs) EXCEPT ![t] = {sel[x] : x \in (k + 1)..Len(sel)}]
                row == r.w.val[t][i]
                \* a row that references ITSELF under RESTRICT / NO ACTION: whether it can be deleted is left open
                selfv == IF \E fi \in FkParents(fks, t) :
                               /\ fks[fi].child = t /\ fks[fi].ondel \in {"restrict", "noaction"}
                               /\ ~HasNullKey(KeyOf(row, fks[fi].ccols)) /\ KeyOf(row, fks[fi].ccols) = KeyOf(row, fks[fi].pcols)
                         THEN {"soft"} ELSE {}
                r1 == [r EXCEPT !.w.alive[t] = @ \ {i}, !.q = <<DelEv(t, i, row)>>, !.viol = @ \cup selfv]
            IN DelSeeds(tabs, fks, t, sel, k + 1, RunQ(tabs, fks, r1, pend, Fuel))

\* ------------------------------------------------------------------ child-side check of a new / changed row
\* viol contribution of row `new` of table t (position i; `later` = rows of the statement not yet in w)
ChildCheck(fks, t, w, i, old, new, isNew, later) ==
  UNION {LET f == fks[fi]
             key == KeyOf(new, f.ccols)
             unchanged == ~isNew /\ KeyOf(old, f.ccols) = key
             selfOK == f.parent = t /\ KeyOf(new, f.pcols) = key
             laterOK == f.parent = t /\ \E x \in DOMAIN later : KeyOf(later[x], f.pcols) = key
         IN IF unchanged \/ HasNullKey(key) \/ selfOK \/ HasParent(w, f, key) THEN {}
            ELSE IF laterOK THEN {"soft"} ELSE {"hard"}
         : fi \in FkChildren(fks, t)}

\* ------------------------------------------------------------------ UPDATE (new = the rows SQLTables computes, same positions)
RECURSIVE UpdSeeds(_, _, _, _, _, _, _)
UpdSeeds(tabs, fks, t, new, sel, k, r) ==
  IF k > Len(sel) THEN r
  ELSE LET i == sel[k]
           old == r.w.val[t][i]
           nw == new[i]
           later == [x \in 1..(Len(sel) - k) |-> new[sel[k + x]]]
       IN IF nw = old \/ i \notin r.w.alive[t] THEN UpdSeeds(tabs, fks, t, new, sel, k + 1, r)
          ELSE LET v1 == ChildCheck(fks, t, r.w, i, old, nw, FALSE, later)
                   pend == [NoPend(tabs) EXCEPT ![t] = {sel[x] : x \in (k + 1)..Len(sel)}]
                   r1 == [r EXCEPT !.viol = @ \cup v1, !.w.val[t][i] = nw, !.q = <<UpdEv(t, i, old, nw)>>]
               IN UpdSeeds(tabs, fks, t, new, sel, k + 1, RunQ(tabs, fks, r1, pend, Fuel))

\* ------------------------------------------------------------------ INSERT (added = the rows SQLTables appended, in order)
RECURSIVE InsSeeds(_, _, _, _, _)
InsSeeds(fks, t, added, k, r) ==
  IF k > Len(added) THEN r
  ELSE LET nw == added[k]
           later == [x \in 1..(Len(added) - k) |-> added[k + x]]
           v1 == ChildCheck(fks, t, r.w, 0, nw, nw, TRUE, later)
           pos == Len(r.w.val[t]) + 1
       IN InsSeeds(fks, t, added, k + 1,
                   [r EXCEPT !.viol = @ \cup v1, !.w.val[t] = Append(@, nw), !.w.alive[t] = @ \cup {pos}])

\* ------------------------------------------------------------------ outcomes
\* an outcome: [rows |-> [t |-> rows of every table], base |-> the SQLTables outcome (uniq / hi / lastid / reply of
\* the statement's table), reply]
Lift(st, o) == [rows |-> [t \in DOMAIN st.tabs |-> IF t = o.t THEN o.rows ELSE st.tabs[t].rows], base |-> o, reply |-> o.reply]
ErrFk(st, t) == LET o == ErrOut(st, t, "fk") IN [rows |-> [x \in DOMAIN st.tabs |-> st.tabs[x].rows], base |-> o, reply |-> o.reply]

FKEffect(st, fks, stmt, o) ==
  LET t == stmt.t
      T == st.tabs[t]
      r0 == [w |-> W0(st), q |-> <<>>, viol |-> {}]
  IN CASE stmt.k = "delete" -> DelSeeds(st.tabs, fks, t, Targets(T, T.rows, stmt.where, stmt.order, stmt.limit), 1, r0)
       [] stmt.k = "update" -> UpdSeeds(st.tabs, fks, t, o.rows, Targets(T, T.rows, stmt.where, stmt.order, stmt.limit), 1, r0)
       [] stmt.k = "insert" -> InsSeeds(fks, t, SubSeq(o.rows, Len(T.rows) + 1, Len(o.rows)), 1, r0)

FKOutcomes(st, fks, fkc, stmt, G) ==
  LET base == Outcomes(st, stmt, G) IN
  IF ~fkc \/ stmt.k \notin {"insert", "update", "delete"} \/ ~Involved(fks, stmt.t)
  THEN {Lift(st, o) : o \in base}
  ELSE UNION {IF o.reply.kind # "ok" THEN {Lift(st, o), ErrFk(st, stmt.t)}      \* (which of several errors is reported is open)
              ELSE LET r == FKEffect(st, fks, stmt, o)
                       okout == [rows |-> [t \in DOMAIN st.tabs |-> RowsOfW(r.w, t)], base |-> o, reply |-> o.reply]
                   IN IF "hard" \in r.viol THEN {ErrFk(st, stmt.t)}
                      ELSE IF r.viol # {} THEN {okout, ErrFk(st, stmt.t)}
                      ELSE {okout}
              : o \in base}

ApplyF(st, x) ==
  [tabs |-> [t \in DOMAIN st.tabs |-> [st.tabs[t] EXCEPT !.rows = x.rows[t], !.uniq = IF t = x.base.t THEN x.base.uniq ELSE @]],
   autoinc |-> [t \in DOMAIN st.tabs |-> IF t = x.base.t THEN x.base.hi ELSE st.autoinc[t]],
   lastid |-> x.base.lastid]
=============================================================================
