\* C35 thorough: no external cancel, stalls + read timeout, strict refinement.
CONSTANTS
  BatchSize = 3
  RowCap = 3
  ResCap = 2
  MaxRows = 8
  Kills = FALSE
  Timeouts = TRUE
  CtxAwareIter = TRUE
  Faults = TRUE
INIT Init
NEXT Next
INVARIANTS TypeOK InOrder BatchSizes MoreFlags Conservation OkComplete ErrorReturned NoSendOnClosed Joined
PROPERTY Refines
CHECK_DEADLOCK TRUE
