--------------------------- MODULE ReadOnlyModes ---------------------------
(* C42.  Read-only modes block every write and nothing else.

   A statement KIND carries a class that is written here from the SQL definition of the statement
   (what the statement does to persistent data, schema objects, accounts), NOT from the engine's
   per-node IsReadOnly() flags:

     writes    the statement modifies persistent data or persistent catalog objects
     reads     the statement only reads, or only touches state private to the session
     unjudged  the treatment is mode-dependent in MySQL itself (temporary tables, ANALYZE, CALL of a
               procedure that does not write (a CALL whose body writes is the write kind call_write),
               LOCK TABLES, FLUSH, transaction control, SELECT .. INTO, named locks, KILL,
               SET GLOBAL/PERSIST, PREPARE of a write, EXPLAIN of a write, replication commands):
               executed and recorded, never compared

   and, for writes, the scope of what is modified:
     db      an object of the database the mode is about (database d of the fixture)
     other   an object of another, writable database
     server  accounts, roles, grants, the set of databases

   Modes:  none | engine_ro (sqle.Config.IsReadOnly) | server_locked (sqle.Config.IsServerLocked) |
           ro_txn (START TRANSACTION READ ONLY) | ro_db (d is a sql.ReadOnlyDatabase) |
           ro_db_mem (the same, with the memory backend's own session commit path: see harness/cmd/c42).
   A read-only DATABASE restricts only what lives in it; the other three modes restrict everything.

   The kinds follow the statement switch of sql/planbuilder/builder.go `build` (SelectStatement,
   Analyze, Show[*], DDL[create/drop/alter/rename/truncate x table/view/trigger/procedure/event],
   AlterTable[clauses], DBDDL, Explain, Insert, Delete, Update, Load, Set, Use, Begin .. ReleaseSavepoint,
   replication, BeginEndBlock, Call, Kill, Signal, LockTables, UnlockTables, CreateUser .. RevokeRole,
   ShowGrants, ShowPrivileges, Flush, Prepare, Execute, Deallocate); statements
   that only exist inside stored programs (DECLARE, cursors, loops, IF/CASE, LEAVE/ITERATE) have no
   top-level kind (they run inside CALL).  Not in the table because the engine does not execute
   them at all (same error with and without a read-only mode): RENAME USER ("not yet implemented"),
   GRANT/REVOKE PROXY, CREATE FUNCTION, top-level BEGIN..END, CREATE SPATIAL REFERENCE SYSTEM.

   Statement SHAPES and TABLE FEATURES.  The planner sends some shapes of a DML statement down
   special paths (an unfiltered single-table DELETE is rewritten to TRUNCATE when the table has no
   AUTO_INCREMENT column, no DELETE trigger and is not referenced by a foreign key; LIMIT / ORDER BY,
   multi-table UPDATE / DELETE, INSERT .. SELECT, REPLACE, LOAD DATA, statements run through
   PREPARE / EXECUTE and through CALL are planned by their own rule batches), and which path is
   taken depends on the target table.  The shape kinds (suffix _shape / _unfiltered / _limit)
   therefore carry a second coordinate `tab`, the feature of the target table (TableFeatures);
   TabsOf(k) is the set of features the kind is enumerated with ("any" = the kind's statements name
   their own tables, e.g. call_write: procedures over a plain, an AUTO_INCREMENT and a trigger table).  The rule never looks at `tab`: a write is a write on
   every table.  TRUNCATE TABLE spelled as such stays DDL (MySQL: implicit commit), while
   DELETE FROM t is DML whatever the planner turns it into.

   State: (mode, db) where db abstracts the digest of all data + catalog (a version counter: a
   statement that takes effect moves it).  Exec(kind, tab) gives the outcome and the next digest. *)
EXTENDS Integers, Sequences, FiniteSets, TLC, Json

W(k, sc, fam) == [kind |-> k, class |-> "writes", scope |-> sc, family |-> fam]
R(k)     == [kind |-> k, class |-> "reads", scope |-> "none", family |-> "read"]
U(k)     == [kind |-> k, class |-> "unjudged", scope |-> "none", family |-> "unjudged"]

\* family: dml (row changes) | ddl (catalog objects) | account (users, roles, grants) -- used only to
\* name disagreements, never by the rule
KindTable == {
  \* ---- DML on tables of d
  W("insert_values", "db", "dml"), W("insert_set", "db", "dml"), W("insert_select", "db", "dml"),
  W("insert_odku", "db", "dml"), W("insert_ignore", "db", "dml"), W("replace", "db", "dml"),
  W("update", "db", "dml"), W("update_multi", "db", "dml"), W("update_cte", "db", "dml"),
  W("delete", "db", "dml"), W("delete_multi", "db", "dml"), W("delete_cte", "db", "dml"),
  W("load_data", "db", "dml"), W("execute_write", "db", "dml"),
  \* ---- DML shapes with their own planner paths, one statement per table feature (TabsOf)
  W("delete_unfiltered", "db", "dml"), W("delete_limit", "db", "dml"),
  W("update_unfiltered", "db", "dml"), W("update_limit", "db", "dml"),
  W("insert_shape", "db", "dml"), W("replace_shape", "db", "dml"), W("multi_table_shape", "db", "dml"),
  W("load_data_shape", "db", "dml"), W("execute_shape", "db", "dml"),
  \* CALL of a procedure whose body writes: the body's statement is refused as if issued directly
  W("call_write", "db", "dml"),
  \* ---- DDL on objects of d (TRUNCATE is DDL in MySQL: implicit commit, no row triggers)
  W("truncate", "db", "ddl"), W("truncate_shape", "db", "ddl"), W("execute_ddl", "db", "ddl"),
  W("create_table", "db", "ddl"), W("create_table_like", "db", "ddl"), W("create_table_select", "db", "ddl"),
  W("drop_table", "db", "ddl"), W("rename_table", "db", "ddl"),
  W("alter_add_column", "db", "ddl"), W("alter_drop_column", "db", "ddl"), W("alter_modify_column", "db", "ddl"),
  W("alter_rename_column", "db", "ddl"), W("alter_column_default", "db", "ddl"),
  W("create_index", "db", "ddl"), W("drop_index", "db", "ddl"), W("rename_index", "db", "ddl"),
  W("alter_add_pk", "db", "ddl"), W("alter_drop_pk", "db", "ddl"), W("alter_add_fk", "db", "ddl"),
  W("alter_drop_fk", "db", "ddl"), W("alter_add_check", "db", "ddl"), W("alter_drop_check", "db", "ddl"),
  W("alter_auto_increment", "db", "ddl"), W("alter_table_collation", "db", "ddl"),
  W("alter_table_comment", "db", "ddl"), W("alter_multi", "db", "ddl"),
  W("create_view", "db", "ddl"), W("drop_view", "db", "ddl"), W("create_trigger", "db", "ddl"),
  W("drop_trigger", "db", "ddl"), W("create_procedure", "db", "ddl"), W("drop_procedure", "db", "ddl"),
  W("create_event", "db", "ddl"), W("drop_event", "db", "ddl"), W("alter_event", "db", "ddl"),
  W("alter_database", "db", "ddl"), W("drop_database_self", "db", "ddl"),
  \* ---- the same on another, writable database
  W("dml_other_db", "other", "dml"), W("ddl_other_db", "other", "ddl"),
  \* ---- server-level objects
  W("create_database", "server", "ddl"), W("drop_database", "server", "ddl"),
  W("create_user", "server", "account"), W("drop_user", "server", "account"), W("alter_user", "server", "account"),
  W("create_role", "server", "account"), W("drop_role", "server", "account"),
  W("grant", "server", "account"), W("revoke", "server", "account"),
  W("grant_role", "server", "account"), W("revoke_role", "server", "account"),
  \* ---- reads
  R("select"), R("select_cte"), R("select_setop"), R("select_view"), R("select_info_schema"),
  R("select_table_function"), R("select_vars"), R("table_stmt"), R("values_stmt"),
  R("show_tables"), R("show_create_table"), R("show_create_view"), R("show_create_trigger"),
  R("show_create_procedure"), R("show_create_event"), R("show_create_database"), R("show_columns"), R("show_index"),
  R("show_triggers"), R("show_events"), R("show_routine_status"), R("show_table_status"),
  R("show_variables"), R("show_databases"), R("show_warnings"), R("show_collation"), R("show_charset"),
  R("show_engines"), R("show_status"), R("show_plugins"), R("show_processlist"), R("show_grants"),
  R("show_privileges"), R("describe"), R("explain"), R("use"), R("set_session"), R("set_user_var"),
  R("prepare_read"), R("execute_read"), R("deallocate"),
  \* ---- unjudged
  U("temp_table"), U("analyze_table"), U("call"), U("lock_tables"), U("flush"), U("txn_control"),
  U("select_into"), U("select_for_update"), U("named_locks"), U("kill"), U("set_global"),
  U("prepare_write"), U("explain_write"), U("replication"), U("signal")
}

Kinds == {e.kind : e \in KindTable}
Entry(k) == CHOOSE e \in KindTable : e.kind = k
ClassOf(k) == Entry(k).class
ScopeOf(k) == Entry(k).scope
FamilyOf(k) == Entry(k).family

\* ---- table features (what the planner's special paths test for on the target table)
\*   plain      primary key, nothing else          keyless    no primary key
\*   autoinc    AUTO_INCREMENT primary key         trigger    INSERT / UPDATE / DELETE triggers
\*   fk_parent  referenced by a foreign key        fk_child   holds a foreign key
TableFeatures == {"plain", "keyless", "autoinc", "trigger", "fk_parent", "fk_child"}
ShapeKinds == {"delete_unfiltered", "delete_limit", "update_unfiltered", "update_limit", "insert_shape", "replace_shape",
               "multi_table_shape", "load_data_shape", "execute_shape", "truncate_shape"}
TabsOf(k) ==
  CASE k = "truncate_shape" -> TableFeatures \ {"fk_parent"}     \* MySQL refuses TRUNCATE of a referenced table in every mode
    [] k \in ShapeKinds -> TableFeatures
    [] OTHER -> {"any"}

Modes == {"none", "engine_ro", "server_locked", "ro_txn", "ro_db", "ro_db_mem"}
RoDb(m) == m \in {"ro_db", "ro_db_mem"}
ReadOnlyMode(m) == m # "none"

\* does mode m forbid a write of scope sc ?
Forbids(m, sc) == IF RoDb(m) THEN sc = "db" ELSE ReadOnlyMode(m)

\* ---- the rule: what Exec(kind) under mode m may do -------------------------------------------
\* outcome in {"ok", "rejected", "error", "panic"}; changed = the digest moved
Expect(m, k) ==
  CASE ClassOf(k) = "writes" /\ Forbids(m, ScopeOf(k)) -> [out |-> "rejected", changed |-> "no"]
    [] ClassOf(k) = "writes"                           -> [out |-> "ok", changed |-> "yes"]
    [] ClassOf(k) = "reads"                            -> [out |-> "ok", changed |-> "no"]
    [] OTHER                                           -> [out |-> "any", changed |-> "any"]

\* ---- judging one observation of the real engine (used by Trace_ReadOnly) ----------------------
\* o = [out, changed, rw_out, rw_changed, same]: outcome class and digest change under mode m, the
\* same for an identically populated read-write engine, and whether the two results are equal.
\* A representative is only usable when the read-write engine shows what its class promises
\* (a write takes effect, a read succeeds without effect); otherwise it is "inconclusive"
\* (a bad representative, never a violation).
Usable(k, o) ==
  CASE ClassOf(k) = "writes" -> o.rw_out = "ok" /\ o.rw_changed
    [] ClassOf(k) = "reads"  -> o.rw_out = "ok" /\ ~o.rw_changed
    [] OTHER -> TRUE
Judge(m, k, o) ==
  LET x == Expect(m, k) IN
  CASE x.out = "any" -> "agree"
    [] o.out = "panic" \/ o.rw_out = "panic" -> "violation"
    [] ~Usable(k, o) -> "inconclusive"
    [] x.out = "rejected" -> IF o.out = "rejected" /\ ~o.changed THEN "agree" ELSE "violation"
    [] x.changed = "yes"  -> IF o.out = "ok" /\ o.changed THEN "agree" ELSE "violation"
    [] OTHER              -> IF o.out = "ok" /\ ~o.changed /\ o.same THEN "agree" ELSE "violation"

\* ---- the state machine -----------------------------------------------------------------------
VARIABLES mode, db, act, ret, tab
vars == <<mode, db, act, ret, tab>>

MaxDb == 1
Init == mode \in Modes /\ db = 0 /\ act = "init" /\ ret = "none" /\ tab = "any"

Exec(k, tb) ==
  LET x == Expect(mode, k) IN
  /\ act' = k
  /\ tab' = tb
  /\ mode' = mode
  /\ (CASE x.out = "rejected" -> ret' = "rejected" /\ db' = db
        [] x.out = "ok" /\ x.changed = "no" -> ret' = "ok" /\ db' = db
        [] x.out = "ok" -> ret' = "ok" /\ db' = db + 1
        [] OTHER -> ret' \in {"ok", "rejected", "error"} /\ db' \in {db, db + 1})

Next == act = "init" /\ \E k \in Kinds : \E tb \in TabsOf(k) : Exec(k, tb)      \* one statement per fresh fixture

Spec == Init /\ [][Next]_vars

\* ---- properties of the rule itself (model-checked) -------------------------------------------
TableFunctional == /\ \A e1, e2 \in KindTable : e1.kind = e2.kind => e1 = e2
                   /\ ShapeKinds \subseteq Kinds /\ \A k \in ShapeKinds : ClassOf(k) = "writes" /\ ScopeOf(k) = "db"
\* "block every write": no write of a forbidden scope ever changes the state
WritesBlocked == [][(ClassOf(act') = "writes" /\ Forbids(mode, ScopeOf(act'))) => (db' = db /\ ret' = "rejected")]_vars
\* "and nothing else": reads are never rejected and never change anything; writes outside the
\* forbidden scope go through
NothingElse == [][(ClassOf(act') = "reads" => (ret' = "ok" /\ db' = db))
                  /\ ((ClassOf(act') = "writes" /\ ~Forbids(mode, ScopeOf(act'))) => (ret' = "ok" /\ db' # db))]_vars
\* a read-only database restricts strictly less than the engine-wide modes
RoDbWeaker == \A k \in Kinds : \A m \in {"ro_db", "ro_db_mem"} : Expect(m, k).out = "rejected" => Expect("engine_ro", k).out = "rejected"

\* ---- case dump for binding A -----------------------------------------------------------------
Emit == PrintT("TR " \o ToJson([mode |-> mode, kind |-> act', tab |-> tab', class |-> ClassOf(act'), scope |-> ScopeOf(act'), family |-> FamilyOf(act'),
                                  expect |-> Expect(mode, act')]))
=============================================================================
