------------------------------- MODULE Redact -------------------------------
(* C45.  sql/sqlredact: the redacted trace form of a SQL text.

   Part 1  the atomic `Mapping` (mapping.go): two namespaces (identifiers "n", values "v"), one
           counter each, tokens minted in first-seen order, grow-only and injective.  The value
           operators (EmptyM / HasM / MintM / RedactOneM) are used by Part 2, by Part 3 and by
           Trace_Redact.
   Part 2  the RWMutex-level state machine of concurrent RedactIdent/RedactValue calls exactly as
           the code decomposes them: read-lock fast-path lookup, then write-lock re-check and mint.
           TLC checks Injective, CountersMatch, RepliesAgree and the action property Stable over all
           interleavings.  `MintNoRecheck` is the seeded variant without the re-check
           (Recheck = FALSE, Redact_norecheck.cfg): TLC must find it violates the same invariants.
   Part 3  the token-level verdict `Conforms(inTokens, outTokens, mappingBefore, mappingAfter)` of
           one redaction as the property states it (not as one rendering), with the list of
           disagreements `Verdict` that Trace_Redact prints.

   Strings are atomic in TLA+, therefore every lexeme / output token is an interned integer id (one
   table per trace, shared by input lexemes and output tokens) and the spec reasons about equality
   of ids and disjointness of id sets.  *)
EXTENDS Integers, Sequences, FiniteSets, TLC

\* ============================ Part 1: the atomic Mapping (values) ============================
NS == {"n", "v"}
EmptyNS == [map |-> <<>>, cnt |-> 0]                 \* <<>> = the function with empty domain
EmptyM  == [n |-> EmptyNS, v |-> EmptyNS]
HasM(mp, ns, x)   == x \in DOMAIN mp[ns].map
TokenM(mp, ns, x) == mp[ns].map[x]                   \* the counter value K of token nK / vK
\* Mint as coded: cnt++, map[x] = cnt.  (If x is already mapped this OVERWRITES it - which is what
\* the code would do without the re-check under the write lock.)
MintM(mp, ns, x) ==
    LET k == mp[ns].cnt + 1 IN
    [mp EXCEPT ![ns] = [map |-> [y \in (DOMAIN mp[ns].map) \cup {x} |-> IF y = x THEN k ELSE mp[ns].map[y]],
                        cnt |-> k]]
RedactOneM(mp, ns, x) == IF HasM(mp, ns, x) THEN mp ELSE MintM(mp, ns, x)

RangeF(f)      == {f[x] : x \in DOMAIN f}
InjectiveF(f)  == Cardinality(RangeF(f)) = Cardinality(DOMAIN f)      \* no two lexemes share a token
\* invariants of a Mapping value
InjectiveM(mp)    == \A ns \in NS : InjectiveF(mp[ns].map)
CountersMatchM(mp) == \A ns \in NS : RangeF(mp[ns].map) = 1 .. mp[ns].cnt     \* first-seen order, no gaps
CardMatchM(mp)    == \A ns \in NS : Cardinality(DOMAIN mp[ns].map) = mp[ns].cnt
\* grow-only: a minted token never changes
StableM(a, b) == \A ns \in NS : \A x \in DOMAIN a[ns].map : x \in DOMAIN b[ns].map /\ b[ns].map[x] = a[ns].map[x]

\* ============================ Part 2: the lock-level state machine ============================
CONSTANTS Clients,      \* e.g. {c1, c2, c3}
          Lexemes,      \* e.g. {a, b}  (the same small set in both namespaces)
          MaxCalls,     \* Redact calls (token lookups) per client
          Recheck       \* TRUE = as coded; FALSE = the seeded variant MintNoRecheck

None == "none"
VARIABLES m,            \* the shared Mapping
          readers, writer,          \* sync.RWMutex
          pc, req, calls,           \* per client
          replies                   \* set of [ns, x, k] returned so far
mvars == <<m, readers, writer, pc, req, calls, replies>>

MInit ==
    /\ m = EmptyM
    /\ readers = {} /\ writer = None
    /\ pc = [c \in Clients |-> "idle"]
    /\ req = [c \in Clients |-> [ns |-> "n", x |-> None]]
    /\ calls = [c \in Clients |-> 0]
    /\ replies = {}

\* a statement redaction is a sequence of such calls, one per identifier / literal token
Call(c, ns, x) ==
    /\ pc[c] = "idle" /\ calls[c] < MaxCalls
    /\ pc' = [pc EXCEPT ![c] = "rlock"]
    /\ req' = [req EXCEPT ![c] = [ns |-> ns, x |-> x]]
    /\ calls' = [calls EXCEPT ![c] = @ + 1]
    /\ UNCHANGED <<m, readers, writer, replies>>

RLock(c) ==
    /\ pc[c] = "rlock" /\ writer = None
    /\ readers' = readers \cup {c}
    /\ pc' = [pc EXCEPT ![c] = "fast"]
    /\ UNCHANGED <<m, writer, req, calls, replies>>

\* m.mu.RLock(); if t, ok := m.idents[orig]; ok { RUnlock; return t }; RUnlock   (no writer can
\* interleave while c holds the read lock, so lookup + RUnlock is one step)
Lookup(c) ==
    /\ pc[c] = "fast"
    /\ readers' = readers \ {c}
    /\ IF HasM(m, req[c].ns, req[c].x)
       THEN /\ replies' = replies \cup {[ns |-> req[c].ns, x |-> req[c].x, k |-> TokenM(m, req[c].ns, req[c].x)]}
            /\ pc' = [pc EXCEPT ![c] = "idle"]
       ELSE /\ replies' = replies
            /\ pc' = [pc EXCEPT ![c] = "wlock"]
    /\ UNCHANGED <<m, writer, req, calls>>

WLock(c) ==
    /\ pc[c] = "wlock" /\ writer = None /\ readers = {}
    /\ writer' = c
    /\ pc' = [pc EXCEPT ![c] = "slow"]
    /\ UNCHANGED <<m, readers, req, calls, replies>>

\* m.mu.Lock(); defer Unlock; re-check; mint
RecheckMint(c) ==
    /\ pc[c] = "slow" /\ writer = c
    /\ m' = RedactOneM(m, req[c].ns, req[c].x)
    /\ replies' = replies \cup {[ns |-> req[c].ns, x |-> req[c].x, k |-> TokenM(m', req[c].ns, req[c].x)]}
    /\ writer' = None
    /\ pc' = [pc EXCEPT ![c] = "idle"]
    /\ UNCHANGED <<readers, req, calls>>

\* THE SEEDED VARIANT (selftest/mutants/c45_norecheck): the slow path mints without looking again.
\* Two clients that both missed on the fast path then mint two tokens for one lexeme: the second
\* mint overwrites the first (Stable fails), the first reply disagrees with the map (RepliesAgree
\* fails) and the counter runs ahead of the map (CountersMatch fails).  Enabled only by
\* Recheck = FALSE (Redact_norecheck.cfg), never in the configuration that is claimed.
MintNoRecheck(c) ==
    /\ pc[c] = "slow" /\ writer = c
    /\ m' = MintM(m, req[c].ns, req[c].x)
    /\ replies' = replies \cup {[ns |-> req[c].ns, x |-> req[c].x, k |-> TokenM(m', req[c].ns, req[c].x)]}
    /\ writer' = None
    /\ pc' = [pc EXCEPT ![c] = "idle"]
    /\ UNCHANGED <<readers, req, calls>>

SlowPath(c) == IF Recheck THEN RecheckMint(c) ELSE MintNoRecheck(c)

MNext ==
    \E c \in Clients :
        \/ \E ns \in NS, x \in Lexemes : Call(c, ns, x)
        \/ RLock(c) \/ Lookup(c) \/ WLock(c)
        \/ SlowPath(c)

MSpec == MInit /\ [][MNext]_mvars
\* clients and lexemes are interchangeable (safety properties only, so symmetry reduction is sound)
Symm == Permutations(Clients) \cup Permutations(Lexemes)

TypeOK ==
    /\ \A ns \in NS : DOMAIN m[ns].map \subseteq Lexemes /\ m[ns].cnt \in 0 .. (Cardinality(Clients) * MaxCalls)
    /\ readers \subseteq Clients /\ writer \in Clients \cup {None}
    /\ \A c \in Clients : pc[c] \in {"idle", "rlock", "fast", "wlock", "slow"}
LockOK        == writer # None => readers = {}
Injective     == InjectiveM(m)
CountersMatch == CountersMatchM(m) /\ CardMatchM(m)
\* every reply ever returned is what the mapping says now: all calls of all clients are consistent
\* with ONE injective mapping (for a grow-only map this is the linearisability condition)
RepliesAgree  == \A r \in replies : HasM(m, r.ns, r.x) /\ TokenM(m, r.ns, r.x) = r.k
Stable        == [][StableM(m, m')]_mvars
\* a lexeme is in the map exactly when some call was answered for it (mint and reply are one step)
NoOrphans     == \A ns \in NS : DOMAIN m[ns].map = {r.x : r \in {q \in replies : q.ns = ns}}

\* ============================ Part 3: the token-level verdict ============================
(* Input token  [c, x, lo, alt, k, r, f, sub]:
     c    class: "kw" "op" "bind" "comment" | "ident" "strlit" "numlit" "hexlit" "bitlit"
     x    id of the token text;  lo id of its lower-case form;  alt id of the lexer's canonical spelling
          of the same token (`?` -> its positional name, `<>` -> `!=`; otherwise x)
     k    identity of the lexeme inside its class group (ident name; literal kind + value)
     r    the key under which the code's Mapping stores it (identifier name / literal value)
     f    ids of every spelling of the lexeme that must not appear in the output (name, value, source text)
   Output token [t, lo, h, s]: t id of the text, lo lower-case id, h ids of forms (length >= 2) that
     occur inside the text as substrings, s the text itself.
   A verdict mapping [n, v, forms, rawn, rawv, clean]: per namespace the function lexeme identity ->
     output token observed so far, plus every form and every raw key seen since the mapping was
     created; clean = no disagreement since then (bookkeeping of Trace_Redact). *)
Marker == "<unparseable>"
PlaceholderClass == {"ident", "strlit", "numlit", "hexlit", "bitlit"}
StructuralClass  == {"kw", "op", "bind"}
NSOf(c) == IF c = "ident" THEN "n" ELSE "v"
Other(ns) == IF ns = "n" THEN "v" ELSE "n"
ToSet(s) == {s[i] : i \in DOMAIN s}
NonComment(in) == SelectSeq(in, LAMBDA t : t.c # "comment")
FormsOf(in) == UNION {ToSet(in[i].f) : i \in DOMAIN in}
RawOf(in, ns) == {in[i].r : i \in {j \in DOMAIN in : in[j].c \in PlaceholderClass /\ NSOf(in[j].c) = ns}}
\* the source spellings of the keywords / operators / bind placeholders of the statement
StructIds(in) == UNION {{in[i].x, in[i].lo} : i \in {j \in DOMAIN in : in[j].c \in StructuralClass}}

EmptyVM == [n |-> <<>>, v |-> <<>>, forms |-> {}, rawn |-> {}, rawv |-> {}, clean |-> TRUE]

\* NoLeak over token sets: none of the given output tokens is (or contains) a spelling of an
\* identifier / literal / comment of the input
Leaks(tok, forms) == tok.t \in forms \/ Len(tok.h) > 0
NoLeak(toks, forms) == \A tok \in toks : ~Leaks(tok, forms)

\* the mapping after = the mapping before extended, in token order, by every first-seen lexeme
\* (a leaking output token is never learnt as a placeholder)
RECURSIVE ExtendFrom(_, _, _, _, _)
ExtendFrom(vm, in, out, forms, i) ==
    IF i > Len(in) THEN vm
    ELSE LET t == in[i]
             ns == NSOf(t.c) IN
         IF t.c \in PlaceholderClass /\ t.k \notin DOMAIN vm[ns] /\ ~Leaks(out[i], forms)
         THEN ExtendFrom([vm EXCEPT ![ns] = [y \in (DOMAIN vm[ns]) \cup {t.k} |-> IF y = t.k THEN out[i].t ELSE vm[ns][y]]],
                         in, out, forms, i + 1)
         ELSE ExtendFrom(vm, in, out, forms, i + 1)

\* in = the statement's tokens; aligned = output has one token per non-comment input token
Aligned(in, out) == Len(out) = Len(NonComment(in))
After(in, out, vmB) ==
    LET forms == vmB.forms \cup FormsOf(in)
        seen  == [vmB EXCEPT !.forms = forms, !.rawn = @ \cup RawOf(in, "n"), !.rawv = @ \cup RawOf(in, "v")]
    IN IF Aligned(in, out) THEN ExtendFrom(seen, NonComment(in), out, forms, 1) ELSE seen

D(kind, pos, a, b) == [kind |-> kind, pos |-> pos, a |-> a, b |-> b]

\* disagreements at one aligned position
AtPos(inNC, out, vmB, vmA, i) ==
    LET t == inNC[i]
        o == out[i]
        ns == NSOf(t.c) IN
    IF t.c \in StructuralClass
    THEN \* keyword / operator / bind placeholder: the same token (case-insensitively, or its canonical spelling)
         IF o.lo = t.lo \/ o.t = t.alt THEN {}
         ELSE {D(IF \E j \in DOMAIN inNC : inNC[j].c = "ident" /\ inNC[j].r = t.x /\ out[j].t = o.t
                 THEN "structure/kw-as-ident" ELSE "structure/" \o t.c, i, t.x, o.t)}
              \cup (IF Leaks(o, vmA.forms) THEN {D("leak/at-" \o t.c, i, t.x, o.t)} ELSE {})
    ELSE \* identifier / literal: a placeholder
         (IF Leaks(o, vmA.forms) THEN {D("leak/" \o t.c, i, t.x, o.t)} ELSE {})
         \cup (IF o.t \in StructIds(inNC) THEN {D("alphabet/" \o t.c, i, t.x, o.t)} ELSE {})
         \cup (IF ~Leaks(o, vmA.forms) /\ t.k \in DOMAIN vmA[ns] /\ vmA[ns][t.k] # o.t
               THEN {D("consistency/" \o t.c, i, vmA[ns][t.k], o.t)} ELSE {})        \* equal lexemes -> equal tokens

\* different lexemes -> different tokens, and the two namespaces draw from disjoint alphabets
MapVerdict(vmB, vmA) ==
    UNION {
      LET new == (DOMAIN vmA[ns]) \ (DOMAIN vmB[ns]) IN
      {D("injective/" \o ns, 0, k1, k2) : <<k1, k2>> \in {p \in new \X (DOMAIN vmA[ns]) : p[1] # p[2] /\ vmA[ns][p[1]] = vmA[ns][p[2]]}}
      \cup {D("namespace/overlap-" \o ns, 0, k1, vmA[ns][k1]) : k1 \in {y \in new : vmA[ns][y] \in RangeF(vmA[Other(ns)])}}
      : ns \in NS }

Verdict(in, out, vmB, vmA) ==
    LET inNC == NonComment(in) IN
    IF ~Aligned(in, out)
    THEN {D("structure/length", 0, Len(inNC), Len(out))}
         \cup {D("leak/surplus", j, 0, out[j].t) : j \in {q \in DOMAIN out : Leaks(out[q], vmA.forms)}}
    ELSE UNION {AtPos(inNC, out, vmB, vmA, i) : i \in DOMAIN out} \cup MapVerdict(vmB, vmA)

\* THE PROPERTY, for a parseable statement
Conforms(inTokens, outTokens, mappingBefore, mappingAfter) ==
    /\ mappingAfter = After(inTokens, outTokens, mappingBefore)
    /\ Verdict(inTokens, outTokens, mappingBefore, mappingAfter) = {}
\* spelled out: the readable statement of the property.  Trace_Redact cross-checks on every accepted
\* statement of a so-far clean trace that Verdict = {} implies it ("SX" line otherwise).
ConformsSpelledOut(in, out, vmB, vmA) ==
    LET inNC == NonComment(in) IN
    /\ Len(out) = Len(inNC)
    /\ \A i \in DOMAIN out :
         IF inNC[i].c \in StructuralClass
         THEN out[i].lo = inNC[i].lo \/ out[i].t = inNC[i].alt
         ELSE /\ out[i].t = vmA[NSOf(inNC[i].c)][inNC[i].k]
              /\ out[i].t \notin StructIds(inNC)
    /\ NoLeak({out[i] : i \in {j \in DOMAIN out : inNC[j].c \in PlaceholderClass}}, vmA.forms)
    /\ InjectiveF(vmA.n) /\ InjectiveF(vmA.v) /\ RangeF(vmA.n) \cap RangeF(vmA.v) = {}
    /\ \A ns \in NS : \A y \in DOMAIN vmB[ns] : y \in DOMAIN vmA[ns] /\ vmA[ns][y] = vmB[ns][y]
\* THE PROPERTY, for unparseable input: the marker and nothing else
ConformsUnparseable(outTokens) == Len(outTokens) = 1 /\ outTokens[1].s = Marker
VerdictUnparseable(in, out, vmA) ==
    IF ConformsUnparseable(out) THEN {}
    ELSE {D("marker/missing", 0, 0, Len(out))}
         \cup {D("leak/surplus", j, 0, out[j].t) : j \in {q \in DOMAIN out : Leaks(out[q], vmA.forms)}}

\* ---- the code's own Mapping, observed after the call (snapshot of Idents()/Values() + counters),
\*      checked with the Part 1 invariants.  A snapshot is [n, v : sequence of [r, t, s]], nc, vc.
RealNS(pairs, cnt) == [map |-> [r \in {pairs[i].r : i \in DOMAIN pairs} |-> (CHOOSE p \in ToSet(pairs) : p.r = r).t], cnt |-> cnt]
RealM(snap) == [n |-> RealNS(snap.n, snap.nc), v |-> RealNS(snap.v, snap.vc)]
RealVerdict(rmB, rmA, allowedN, allowedV) ==
    (IF StableM(rmB, rmA) THEN {} ELSE {D("real/stable", 0, 0, 0)})
    \cup (IF InjectiveM(rmA) THEN {} ELSE {D("real/injective", 0, 0, 0)})
    \cup (IF CardMatchM(rmA) THEN {} ELSE {D("real/counters", 0, rmA.n.cnt - Cardinality(DOMAIN rmA.n.map), rmA.v.cnt - Cardinality(DOMAIN rmA.v.map))})
    \cup (IF (DOMAIN rmA.n.map) \subseteq allowedN /\ (DOMAIN rmA.v.map) \subseteq allowedV THEN {}
          ELSE {D("real/foreign-key", 0, 0, 0)})

\* ---- "rendering as documented" (evidence only, never a verdict): `nK` / 'vK' / :vK / X'vK' / B'vK'
\*      with K from the atomic Mapping of Part 1 driven by the statement's tokens in order.
Render(t, k) ==
    CASE t.c = "ident"  -> "`n" \o ToString(k) \o "`"
      [] t.c = "strlit" -> "'v" \o ToString(k) \o "'"
      [] t.c = "numlit" -> ":v" \o ToString(k)
      [] t.c = "hexlit" -> (IF t.sub = "num" THEN ":v" \o ToString(k) ELSE "X'v" \o ToString(k) \o "'")
      [] t.c = "bitlit" -> "B'v" \o ToString(k) \o "'"
      [] OTHER -> "?"
RECURSIVE DocFrom(_, _, _, _, _)
\* returns <<mapping after, set of positions rendered differently>>
DocFrom(am, inNC, out, forms, i) ==
    IF i > Len(inNC) THEN <<am, {}>>
    ELSE LET t == inNC[i] IN
         IF t.c \in PlaceholderClass /\ ~Leaks(out[i], forms)
         THEN LET am2 == RedactOneM(am, NSOf(t.c), t.r)
                  rest == DocFrom(am2, inNC, out, forms, i + 1)
              IN <<rest[1], rest[2] \cup (IF out[i].s = Render(t, TokenM(am2, NSOf(t.c), t.r)) THEN {} ELSE {i})>>
         ELSE DocFrom(am, inNC, out, forms, i + 1)
=============================================================================
