------------------------------- MODULE Ranges -------------------------------
(* C46 (and the range half of C03).  sql/range_cut.go, range_column_expr.go, range_mysql.go,
   range_tree.go: the range operations used to plan index lookups.

   KEY DOMAIN.  One key column ranges over D = {NULL, 0, .., NV-1}, NULL its own lowest point.
   The implementation orders keys DENSELY (for it there are values between 0 and 1, below 0 and
   above the largest value), so the points on which set equality is judged are D plus one
   "half point" in every gap that no cut can name:

       cut     BelowNull  AboveNull  Below(0)  Above(0)  Below(1)  Above(1) ..  Above(NV-1)  AboveAll
       rank        0          1         2         3         4         5      ..    2NV+1       2NV+2
       point        NULL       low        0        h0        1        h1     ..          h(NV-1)
       index         0          1         2         3        4         5     ..           2NV+1

   Point p lies strictly between the cuts of rank p and p+1; between any two different cuts there
   is a point, so an interval of cuts is non-empty exactly when it contains a point, and
   "overlap over the continuous order" coincides with "the point sets intersect" (lemma
   DenseAgree below, checked by TLC).  Half points can never be cut keys.

   A range column expression (rce) is a pair of cuts <<lo, hi>>; it denotes the points p with
   lo <= Below-cut(p) and Above-cut(p) <= hi  (empty when lo >= hi).  A range is a tuple of K
   rces and denotes the product; a list of ranges denotes the union.  A key tuple is written as
   the base-8 number of its point indexes (Code).

   THE OPERATIONS ARE SPECIFIED BY THEIR POINT SETS (nothing else is demanded):
     IsEmpty(a)                      <=> PointsOf(a) = {}
     TryIntersect / Intersect(a,b)   denotes PointsOf(a) \cap PointsOf(b); ok <=> non-empty
     Overlaps(a,b)                   <=> PointsOf(a) \cap PointsOf(b) # {}  (region = the intersection)
     TryUnion / TryMerge(a,b)        MAY fail; when it reports success it denotes the union
     Subtract(a,b)                   denotes PointsOf(a) \ PointsOf(b), pieces sorted and disjoint
     IsSubsetOf(a,b)                 <=> PointsOf(a) \subseteq PointsOf(b)      (a, b non-empty)
     RemoveOverlap(a,b)              any pairwise disjoint list denoting the union
     SimplifyRangeColumn(list), RemoveOverlappingRanges(list), SortRanges(list)
                                     any SORTED (SortRanges: sorted permutation), pairwise DISJOINT
                                     (not SortRanges) list denoting Points(list)
     RangeCollection.Intersect(A,B)  sorted, disjoint, denotes Points(A) \cap Points(B)
     IntersectRanges(a,b)            denotes the intersection
     range tree                      a set of non-empty, pairwise disjoint, not mergeable ranges (the
                                     discipline of RemoveOverlappingRanges); FindConnections(q) returns
                                     stored ranges only and at least every stored range that overlaps q;
                                     GetRangeCollection denotes the union, sorted, disjoint
   An operation that returns an error, panics or does not return on these inputs fails the property.
   GoodResult states the acceptance predicate; the replayer (harness/cmd/c46) evaluates it on the
   REAL result with the real cut comparison, against the point sets printed here. *)
EXTENDS Integers, FiniteSets, Sequences, TLC, Json

CONSTANTS NV,        \* number of non-NULL key values (<= 3, tuples are coded base 8)
          K,         \* key columns of a range
          MaxLen,    \* longest enumerated list of ranges
          Class,     \* "canon": lo < hi, plus the empty expression (AboveAll, AboveAll) -- what the
                     \*  constructors and every operation produce;  "all": every pair of cuts,
                     \*  i.e. also the degenerate ones (lo >= hi elsewhere, e.g. Closed(2, 0))
          MaxTree,   \* most ranges stored in the tree (tree mode)
          MinRem     \* tree mode: a range is removed only from a tree of at least this many (1 = always;
                     \*  larger values keep simulated trees big enough to have structure)

ASSUME NV \in 1..3 /\ K \in 1..3 /\ MaxLen \in Nat /\ MaxTree \in Nat /\ MinRem \in Nat /\ Class \in {"all", "canon"}

\* ---- cuts and their total order (the rank IS the order) ---------------------------------------
BelowNull == 0
AboveNull == 1
Below(v) == 2 * v + 2
Above(v) == 2 * v + 3
AboveAll == 2 * NV + 2
Cuts == BelowNull..AboveAll
CutCmp(a, b) == IF a < b THEN -1 ELSE IF a = b THEN 0 ELSE 1
CutMax(a, b) == IF a < b THEN b ELSE a
CutMin(a, b) == IF a < b THEN a ELSE b

\* ---- points -----------------------------------------------------------------------------------
NP == 2 * NV + 2
Pts == 0..(NP - 1)
NullPt == 0
LowPt == 1
ValPt(v) == 2 * v + 2
HalfPt(v) == 2 * v + 3
CutBelowPt(p) == p              \* BelowNull for NULL, Below(v) for v; for a half point: the cut under it
CutAbovePt(p) == p + 1
Pos2(p) == p - 2                \* twice the position of a non-NULL point on the number line (low = -1/2)

InRce(p, e) == e[1] <= CutBelowPt(p) /\ CutAbovePt(p) <= e[2]
RcePts(e) == {p \in Pts : InRce(p, e)}

\* ---- builders: the cut pair the constructor is documented to build, and what it must MEAN ------
\* l, u \in -1..NV-1 where -1 stands for a nil argument (comparison with NULL is never true).
CtorNames == {"closed", "open", "lt", "le", "gt", "ge", "all", "empty", "null", "notnull"}
EmptyRce == <<AboveAll, AboveAll>>
Ctor(name, l, u) ==
    CASE name = "closed"  -> IF l < 0 \/ u < 0 THEN EmptyRce ELSE <<Below(l), Above(u)>>
      [] name = "open"    -> IF l < 0 \/ u < 0 THEN EmptyRce ELSE <<Above(l), Below(u)>>
      [] name = "lt"      -> IF u < 0 THEN EmptyRce ELSE <<AboveNull, Below(u)>>
      [] name = "le"      -> IF u < 0 THEN EmptyRce ELSE <<AboveNull, Above(u)>>
      [] name = "gt"      -> IF l < 0 THEN EmptyRce ELSE <<Above(l), AboveAll>>
      [] name = "ge"      -> IF l < 0 THEN EmptyRce ELSE <<Below(l), AboveAll>>
      [] name = "all"     -> <<BelowNull, AboveAll>>
      [] name = "empty"   -> EmptyRce
      [] name = "null"    -> <<BelowNull, AboveNull>>
      [] name = "notnull" -> <<AboveNull, AboveAll>>
Means(name, l, u, p) ==
    CASE name = "closed"  -> l >= 0 /\ u >= 0 /\ p # NullPt /\ 2 * l <= Pos2(p) /\ Pos2(p) <= 2 * u
      [] name = "open"    -> l >= 0 /\ u >= 0 /\ p # NullPt /\ 2 * l < Pos2(p) /\ Pos2(p) < 2 * u
      [] name = "lt"      -> u >= 0 /\ p # NullPt /\ Pos2(p) < 2 * u
      [] name = "le"      -> u >= 0 /\ p # NullPt /\ Pos2(p) <= 2 * u
      [] name = "gt"      -> l >= 0 /\ p # NullPt /\ Pos2(p) > 2 * l
      [] name = "ge"      -> l >= 0 /\ p # NullPt /\ Pos2(p) >= 2 * l
      [] name = "all"     -> TRUE
      [] name = "empty"   -> FALSE
      [] name = "null"    -> p = NullPt
      [] name = "notnull" -> p # NullPt
Args == -1..(NV - 1)
UsesL(name) == name \in {"closed", "open", "gt", "ge"}
UsesU(name) == name \in {"closed", "open", "lt", "le"}
BuildCalls == {c \in [name : CtorNames, l : Args, u : Args] :
                   (UsesL(c.name) \/ c.l = -1) /\ (UsesU(c.name) \/ c.u = -1)}
\* model lemma: the documented cut pair denotes the documented predicate
ASSUME BuildersDenote ==
    \A c \in BuildCalls : RcePts(Ctor(c.name, c.l, c.u)) = {p \in Pts : Means(c.name, c.l, c.u, p)}

\* ---- ranges, key tuples, point sets ---------------------------------------------------------------
ProperRce == {e \in Cuts \X Cuts : e[1] < e[2]}
RceSet == IF Class = "all" THEN Cuts \X Cuts ELSE ProperRce \cup {EmptyRce}
Degenerate(e) == e[1] >= e[2] /\ e # EmptyRce      \* denotes nothing, but is not THE empty expression

Pow8(i) == IF i = 0 THEN 1 ELSE IF i = 1 THEN 8 ELSE 64
Coord(t, i, k) == (t \div Pow8(k - i)) % 8
TuplesOf(k) == {t \in 0..(8 * Pow8(k - 1) - 1) : \A i \in 1..k : Coord(t, i, k) < NP}
Tuples == TuplesOf(K)
Member(t, r) == \A i \in 1..K : InRce(Coord(t, i, K), r[i])
PointsByMember(r) == {t \in Tuples : Member(t, r)}              \* the definition
\* the same set built as a product (what TLC evaluates; lemma FastAgree: equal to the definition)
PointsOf(r) ==
    CASE K = 1 -> RcePts(r[1])
      [] K = 2 -> {8 * a + b : a \in RcePts(r[1]), b \in RcePts(r[2])}
      [] K = 3 -> {64 * a + 8 * b + c : a \in RcePts(r[1]), b \in RcePts(r[2]), c \in RcePts(r[3])}
Points(list) == UNION {PointsOf(list[i]) : i \in 1..Len(list)}
PointsOfSet(S) == UNION {PointsOf(r) : r \in S}

\* ---- the operations, by their point sets ------------------------------------------------------------
IsEmptySpec(a) == PointsOf(a) = {}
IntersectSpec(a, b) == PointsOf(a) \cap PointsOf(b)
OverlapsSpec(a, b) == IntersectSpec(a, b) # {}
UnionSpec(a, b) == PointsOf(a) \cup PointsOf(b)          \* TryUnion / TryMerge when they succeed, RemoveOverlap
SubtractSpec(a, b) == PointsOf(a) \ PointsOf(b)
SubsetSpec(a, b) == PointsOf(a) \subseteq PointsOf(b)
RemoveOverlappingSpec(list) == Points(list)              \* also SimplifyRangeColumn, SortRanges
CollIntersectSpec(A, B) == Points(A) \cap Points(B)

\* acceptance of a result list (evaluated by the replayer on the real result)
RangeLE(a, b) ==      \* lexicographic by (lower, upper) per column: MySQLRange.Compare <= 0
    LET F[i \in 1..(Len(a) + 1)] ==
          IF i > Len(a) THEN TRUE
          ELSE IF a[i] = b[i] THEN F[i + 1]
          ELSE a[i][1] < b[i][1] \/ (a[i][1] = b[i][1] /\ a[i][2] < b[i][2])
    IN F[1]
Sorted(res) == \A i \in 1..(Len(res) - 1) : RangeLE(res[i], res[i + 1])
Disjoint(res) == \A i, j \in 1..Len(res) : i < j => PointsOf(res[i]) \cap PointsOf(res[j]) = {}
GoodResult(res, pts) == Points(res) = pts /\ Sorted(res) /\ Disjoint(res)

\* cut-level overlap / connection (what the implementation computes on the dense order)
CutOverlap(a, b) == \A i \in 1..Len(a) : CutMax(a[i][1], b[i][1]) < CutMin(a[i][2], b[i][2])
NonEmptyCuts(a) == \A i \in 1..Len(a) : a[i][1] < a[i][2]
Touch(a, b) == /\ NonEmptyCuts(a) /\ NonEmptyCuts(b)
               /\ \A i \in 1..Len(a) : CutMax(a[i][1], b[i][1]) <= CutMin(a[i][2], b[i][2])
CutIntersection(a, b) == [i \in 1..Len(a) |-> <<CutMax(a[i][1], b[i][1]), CutMin(a[i][2], b[i][2])>>]

\* ======================================================================================================
VARIABLES lst,     \* enumeration mode: the list of ranges built so far
          cur,     \* enumeration mode: the range being built, column by column
          tree,    \* tree mode: the set of stored ranges
          pend,    \* tree mode: "ins" while its range is being chosen, "sweep" after a change, else ""
          act,     \* output only
          step
vars == <<lst, cur, tree, pend, act, step>>

\* ---- enumeration mode: every list of <= MaxLen ranges, one column expression per step -----------------
InitEnum == lst = <<>> /\ cur = <<>> /\ tree = {} /\ pend = "" /\ act = [op |-> "init"] /\ step = 0

AddRce(e) ==
    /\ Len(lst) < MaxLen
    /\ IF Len(cur) + 1 = K
       THEN lst' = Append(lst, Append(cur, e)) /\ cur' = <<>> /\ act' = [op |-> "case"]
       ELSE lst' = lst /\ cur' = Append(cur, e) /\ act' = [op |-> "part"]
    /\ step' = step + 1
    /\ UNCHANGED <<tree, pend>>

\* the constructor calls (checked once, from the initial state)
Build(c) ==
    /\ lst = <<>> /\ cur = <<>> /\ act.op = "init"
    /\ act' = [op |-> "build", nv |-> NV, ctor |-> c.name, l |-> c.l, u |-> c.u,
               un |-> {p \in Pts : Means(c.name, c.l, c.u, p)}]
    /\ step' = step + 1
    /\ UNCHANGED <<lst, cur, tree, pend>>

NextEnum == (\E e \in RceSet : AddRce(e)) \/ (\E c \in BuildCalls : Build(c))

\* witness mode (K = 2, NV = 3): the minimal inputs of the open findings of known_findings.jsonl,
\* replayed on every run so that a finding that disappears is noticed
Witnesses ==
    {   \* RemoveOverlappingRanges rejects its own result ("overlapping ranges"): 5 ranges
        <<  <<<<2, 6>>, <<2, 4>>>>, <<<<1, 5>>, <<4, 8>>>>, <<<<4, 8>>, <<4, 7>>>>, <<<<2, 3>>, <<0, 4>>>>, <<<<4, 6>>, <<3, 7>>>>  >>,
        \* IntersectRanges returns its first argument
        <<  <<<<0, 8>>, <<0, 8>>>>, <<<<2, 3>>, <<4, 5>>>>  >>,
        \* a degenerate column expression (Closed(1, 0)): RemoveOverlappingRanges does not terminate
        <<  <<<<0, 5>>, <<0, 1>>>>, <<<<4, 3>>, <<0, 2>>>>  >>  }
NextWitness ==
    /\ lst = <<>>
    /\ \E L \in Witnesses : lst' = L
    /\ act' = [op |-> "case"] /\ step' = step + 1
    /\ UNCHANGED <<cur, tree, pend>>

CaseRec(L) ==
    LET n == Len(L)
        P == [i \in 1..n |-> PointsOf(L[i])]
        U(lo, hi) == UNION {P[i] : i \in lo..hi}
    IN [op |-> "case", k |-> K, nv |-> NV, rs |-> L, pts |-> P, un |-> U(1, n),
        emp |-> [i \in 1..n |-> P[i] = {}],
        nt |-> \E i, j \in 1..n : i < j /\ Touch(L[i], L[j]),
        deg |-> \E i \in 1..n, c \in 1..K : Degenerate(L[i][c]),
        bin |-> IF n = 2
                THEN <<[in |-> P[1] \cap P[2], ov |-> P[1] \cap P[2] # {}, df |-> P[1] \ P[2],
                        sub |-> P[1] \subseteq P[2], sup |-> P[2] \subseteq P[1]]>>
                ELSE <<>>,
        ci |-> [s \in 1..(n - 1) |-> U(1, s) \cap U(s + 1, n)]]

EmitEnum ==
    CASE act'.op = "case"  -> PrintT("C46 " \o ToJson(CaseRec(lst')))
      [] act'.op = "build" -> PrintT("C46 " \o ToJson(act'))
      [] OTHER -> TRUE

\* model lemma: on non-empty ranges the dense-order (cut) computation and the point sets agree
DenseAgree ==
    Len(lst) >= 2 =>
        LET a == lst[Len(lst) - 1]
            b == lst[Len(lst)]
        IN (PointsOf(a) # {} /\ PointsOf(b) # {}) =>
             /\ CutOverlap(a, b) <=> OverlapsSpec(a, b)
             /\ PointsOf(CutIntersection(a, b)) = IntersectSpec(a, b)
FastAgree == \A i \in 1..Len(lst) : PointsOf(lst[i]) = PointsByMember(lst[i])
TypeEnum == Len(lst) <= MaxLen /\ Len(cur) < K /\ \A i \in 1..Len(lst) : Len(lst[i]) = K

\* ---- tree mode: behaviours of the interval tree used by RemoveOverlappingRanges --------------------------
\* Discipline of RemoveOverlappingRanges: a range is inserted only when nothing stored overlaps it;
\* stored ranges are non-empty.  The range of an insert is chosen one column per step (small fan-out
\* for -simulate; `pend` = "ins" meanwhile).  After every change of the tree one deterministic Sweep
\* step asks EVERY query range: FindConnections(q) must return stored ranges only and at least every
\* stored range that overlaps q; GetRangeCollection must denote the union, sorted and disjoint.
InitTree == lst = <<>> /\ cur = <<>> /\ tree = {} /\ pend = "" /\ act = [op |-> "init"] /\ step = 0

\* (disjointness is tested on the cuts, which is the same by lemma DenseAgree; invariant TreeDisjoint
\*  re-checks it on the point sets)
\* RemoveOverlappingRanges also never stores two ranges that TryMerge can merge: two disjoint boxes whose
\* union is a box, i.e. equal in all columns but one and touching there.
TouchAt(a, b, i) == CutMax(a[i][1], b[i][1]) <= CutMin(a[i][2], b[i][2])
SameBut(a, b, i) == \A j \in 1..K : (j # i) => (a[j] = b[j])
UnionIsBox(a, b) == \E i \in 1..K : SameBut(a, b, i) /\ TouchAt(a, b, i)
InsOK(r) == r \notin tree /\ \A s \in tree : ~CutOverlap(s, r) /\ ~UnionIsBox(s, r)
Suffixes(n) == IF n = 0 THEN {<<>>} ELSE [1..n -> ProperRce]
Completable(part) == \E sfx \in Suffixes(K - Len(part)) : InsOK(part \o sfx)

TInsCol(e) ==
    /\ IF cur = <<>> THEN pend = "" ELSE pend = "ins"
    /\ Cardinality(tree) < MaxTree
    /\ Completable(Append(cur, e))
    /\ IF Len(cur) + 1 < K
       THEN cur' = Append(cur, e) /\ pend' = "ins" /\ tree' = tree /\ act' = [op |-> "part"]
       ELSE /\ cur' = <<>> /\ pend' = "sweep"
            /\ tree' = tree \cup {Append(cur, e)}
            /\ act' = [op |-> "tree", kind |-> "ins", r |-> Append(cur, e)]
TRem(r) ==
    /\ cur = <<>> /\ pend = ""
    /\ r \in tree
    /\ Cardinality(tree) >= MinRem \/ ~\E e \in ProperRce : Completable(<<e>>)      \* (or nothing fits any more)
    /\ tree' = tree \ {r} /\ cur' = cur /\ pend' = "sweep"
    /\ act' = [op |-> "tree", kind |-> "rem", r |-> r]
TSweep ==
    /\ pend = "sweep"
    /\ pend' = "" /\ tree' = tree /\ cur' = cur
    /\ act' = [op |-> "tree", kind |-> "sweep", r |-> <<>>]
NextTree ==
    /\ \/ \E e \in ProperRce : TInsCol(e)
       \/ \E r \in tree : TRem(r)
       \/ TSweep
    /\ step' = step + 1
    /\ UNCHANGED lst

ProperRanges == [1..K -> ProperRce]
SweepRec(T) ==      \* every query that must find something, with what it must find
    LET TP == [s \in T |-> PointsOf(s)]
        Hit(q) == LET qp == PointsOf(q) IN {s \in T : TP[s] \cap qp # {}}
    IN {[q |-> q, must |-> Hit(q)] : q \in {x \in ProperRanges : \E s \in T : CutOverlap(s, x)}}
EmitTree ==
    act'.op = "tree" =>
    PrintT("C46 " \o ToJson(
        [op |-> "tree", k |-> K, nv |-> NV, step |-> step', kind |-> act'.kind, r |-> act'.r,
         pre |-> tree, post |-> tree', un |-> PointsOfSet(tree'),
         qs |-> IF act'.kind = "sweep" THEN SweepRec(tree') ELSE {},
         nt |-> IF act'.kind = "sweep" THEN Cardinality(tree) >= 2 ELSE \E s \in tree \ {act'.r} : Touch(s, act'.r)]))
TreeDisjoint == \A s, t \in tree : s # t => PointsOf(s) \cap PointsOf(t) = {}
TypeTree == Cardinality(tree) <= MaxTree /\ Len(cur) < K
ViewTree == <<tree, cur, pend>>
ViewEnum == <<lst, cur>>
=============================================================================
