------------------------------ MODULE StrFuncs ------------------------------
(* C34.  Reference DEFINITIONS of MySQL's string functions over sequences of Unicode code points
   (multi-byte safe by construction: a character is one element of the sequence; the byte view is
   derived with Utf8).  Written from the MySQL 8.0 reference manual, section "String Functions and
   Operators"; collation = the engine's default utf8mb4_0900_bin (code-point order, NO PAD).

   Raw arguments (homogeneous, so that TLC can enumerate them as sets):
       a string argument is a sequence of code points, SQL NULL is the sequence NULLS = <<-1>>;
       an integer argument is an integer, SQL NULL is NULLI = 99.
   Results are tagged values with pairwise DIFFERENT payload field names (TLC refuses to compare
   records that hold different kinds of values under one field name):
       VN  NULL      VI(n) integer      VS(cps) character string      VX(bytes) binary string
       VB(bytes) a non-negative integer too large for TLC, as base-256 digits     VE  an error.

   Exp(f, a) is the TUPLE of accepted results of function f on the raw argument tuple a: one value
   where the manual fixes the result, several where it leaves the case open ("murky", listed in
   Murky below and never judged more strictly than the manual).  Dev(f, a) names the recorded
   deviations of the engine (known findings): a classification of a disagreement, never accepted. *)
EXTENDS Integers, Sequences, FiniteSets, TLC

NULLS == <<-1>>
NULLI == 99
VN == [t |-> "n"]
VE == [t |-> "e"]
VI(n) == [t |-> "i", i |-> n]
VS(s) == [t |-> "s", s |-> s]
VX(b) == [t |-> "x", x |-> b]
VB(b) == [t |-> "b256", b |-> b]

Min2(a, b) == IF a < b THEN a ELSE b
Max2(a, b) == IF a > b THEN a ELSE b

\* ------------------------------------------------------------------ UTF-8 view
Utf8Len(cp) == IF cp < 128 THEN 1 ELSE IF cp < 2048 THEN 2 ELSE IF cp < 65536 THEN 3 ELSE 4
Utf8(cp) ==
  IF cp < 128 THEN <<cp>>
  ELSE IF cp < 2048 THEN <<192 + (cp \div 64), 128 + (cp % 64)>>
  ELSE IF cp < 65536 THEN <<224 + (cp \div 4096), 128 + ((cp \div 64) % 64), 128 + (cp % 64)>>
  ELSE <<240 + (cp \div 262144), 128 + ((cp \div 4096) % 64), 128 + ((cp \div 64) % 64), 128 + (cp % 64)>>
RECURSIVE Bytes(_)
Bytes(s) == IF s = <<>> THEN <<>> ELSE Utf8(Head(s)) \o Bytes(Tail(s))
RECURSIVE ByteLen(_)
ByteLen(s) == IF s = <<>> THEN 0 ELSE Utf8Len(Head(s)) + ByteLen(Tail(s))

\* ------------------------------------------------------------------ sequence helpers
RECURSIVE Rev(_)
Rev(s) == IF s = <<>> THEN <<>> ELSE Rev(Tail(s)) \o <<Head(s)>>
RECURSIVE Rep(_, _)
Rep(s, n) == IF n <= 0 THEN <<>> ELSE s \o Rep(s, n - 1)
Take(s, n) == SubSeq(s, 1, Min2(Max2(n, 0), Len(s)))
Drop(s, n) == SubSeq(s, Min2(Max2(n, 0), Len(s)) + 1, Len(s))
IsPrefix(p, s) == Len(p) <= Len(s) /\ SubSeq(s, 1, Len(p)) = p
IsSuffix(p, s) == Len(p) <= Len(s) /\ SubSeq(s, Len(s) - Len(p) + 1, Len(s)) = p
OccursAt(sub, s, p) == p >= 1 /\ p + Len(sub) - 1 <= Len(s) /\ SubSeq(s, p, p + Len(sub) - 1) = sub
RECURSIVE SeqCmp(_, _)
SeqCmp(a, b) == IF a = <<>> THEN (IF b = <<>> THEN 0 ELSE -1)
                ELSE IF b = <<>> THEN 1
                ELSE IF Head(a) < Head(b) THEN -1
                ELSE IF Head(a) > Head(b) THEN 1
                ELSE SeqCmp(Tail(a), Tail(b))

\* simple case mapping: ASCII letters and the Latin-1 letters of the test alphabets (U+00C0..U+00DE
\* <-> U+00E0..U+00FE except the multiplication / division signs)
UpCp(c) == IF c >= 97 /\ c <= 122 THEN c - 32
           ELSE IF c >= 224 /\ c <= 254 /\ c # 247 THEN c - 32 ELSE c
LoCp(c) == IF c >= 65 /\ c <= 90 THEN c + 32
           ELSE IF c >= 192 /\ c <= 222 /\ c # 215 THEN c + 32 ELSE c
Upper(s) == [i \in DOMAIN s |-> UpCp(s[i])]
Lower(s) == [i \in DOMAIN s |-> LoCp(s[i])]

\* ------------------------------------------------------------------ the functions (non-NULL arguments)
Concat(a, b) == a \o b
CharLength(s) == Len(s)
Left(s, n) == Take(s, n)
Right(s, n) == Drop(s, Len(s) - Min2(Max2(n, 0), Len(s)))
\* SUBSTRING(s, pos, len): 1-based; negative pos counts from the end; pos = 0 or len < 1 -> ''
SubStr(s, pos, len) ==
  LET n == Len(s)
      st == IF pos > 0 THEN pos ELSE IF pos < 0 THEN n + pos + 1 ELSE 0
  IN IF st < 1 \/ st > n \/ len < 1 THEN <<>> ELSE SubSeq(s, st, Min2(n, st + len - 1))
SubStr2(s, pos) == SubStr(s, pos, Len(s) + 1)

\* first occurrence of sub in s at a position >= from (1-based), 0 if none; sub non-empty
RECURSIVE FindFrom(_, _, _)
FindFrom(sub, s, from) ==
  IF from + Len(sub) - 1 > Len(s) THEN 0
  ELSE IF OccursAt(sub, s, from) THEN from ELSE FindFrom(sub, s, from + 1)
\* LOCATE(sub, s, pos): 0 for pos < 1; the empty string occurs at every position 1..Len(s)
\* (whether it also "occurs" at Len(s) + 1 is open: LocateOpen)
Locate(sub, s, pos) ==
  IF pos < 1 \/ pos > Len(s) + 1 THEN 0
  ELSE IF sub = <<>> THEN pos
  ELSE FindFrom(sub, s, pos)
LocateOpen(sub, s, pos) == sub = <<>> /\ pos = Len(s) + 1 /\ pos > 1

\* INSERT(s, pos, len, new): original string if pos is not within the length of the string; replaces
\* the rest of the string from pos if len is not within the length of the rest
Insert(s, pos, len, new) ==
  IF pos < 1 \/ pos > Len(s) THEN s
  ELSE IF len < 0 \/ pos + len - 1 >= Len(s) THEN Take(s, pos - 1) \o new
  ELSE Take(s, pos - 1) \o new \o Drop(s, pos - 1 + len)

\* LPAD / RPAD(s, n, pad): shortened to n characters if longer; otherwise padded to exactly n.
\* Open (manual silent): n < 0, and an empty pad string when padding is needed.
PadOpen(s, n, pad) == n < 0 \/ (n > Len(s) /\ pad = <<>>)
Lpad(s, n, pad) == IF n <= Len(s) THEN Take(s, n) ELSE Take(Rep(pad, n), n - Len(s)) \o s
Rpad(s, n, pad) == IF n <= Len(s) THEN Take(s, n) ELSE s \o Take(Rep(pad, n), n - Len(s))

Repeat(s, n) == IF n < 1 THEN <<>> ELSE Rep(s, n)

\* REPLACE(s, from, to): every occurrence, scanning left to right; empty from -> s
RECURSIVE Replace(_, _, _)
Replace(s, from, to) ==
  IF from = <<>> \/ s = <<>> THEN s
  ELSE IF IsPrefix(from, s) THEN to \o Replace(Drop(s, Len(from)), from, to)
  ELSE <<Head(s)>> \o Replace(Tail(s), from, to)

RECURSIVE TrimL(_, _), TrimR(_, _)
TrimL(s, x) == IF x # <<>> /\ IsPrefix(x, s) THEN TrimL(Drop(s, Len(x)), x) ELSE s
TrimR(s, x) == IF x # <<>> /\ IsSuffix(x, s) THEN TrimR(Take(s, Len(s) - Len(x)), x) ELSE s
TrimB(s, x) == TrimR(TrimL(s, x), x)
SP == <<32>>

Space(n) == Rep(SP, n)
Strcmp(a, b) == SeqCmp(a, b)

\* FIELD(x, l1..): index of the first list member equal to x; 0 if none or x is NULL
Field(x, l) ==
  IF x = NULLS THEN 0
  ELSE LET hits == {i \in DOMAIN l : l[i] # NULLS /\ l[i] = x} IN
       IF hits = {} THEN 0 ELSE CHOOSE i \in hits : \A j \in hits : i <= j
\* ELT(n, l1..): l[n]; NULL if n < 1 or n > number of members
\* FIND_IN_SET(x, l): l = the members of the comma-separated list; 0 if the list is the empty string
RECURSIVE Join(_, _)
Join(l, sep) == IF l = <<>> THEN <<>> ELSE IF Len(l) = 1 THEN l[1] ELSE l[1] \o sep \o Join(Tail(l), sep)
COMMA == <<44>>
FindInSet(x, l) ==
  IF Join(l, COMMA) = <<>> THEN 0
  ELSE LET hits == {i \in DOMAIN l : l[i] = x} IN
       IF hits = {} THEN 0 ELSE CHOOSE i \in hits : \A j \in hits : i <= j

\* SUBSTRING_INDEX(s, d, n), d non-empty and not overlapping itself: the part of s before the n-th
\* occurrence of d counting from the left (n > 0) / after the |n|-th occurrence counting from the right
RECURSIVE Occs(_, _, _)
Occs(s, d, from) ==       \* start positions of the non-overlapping occurrences, left to right
  LET p == FindFrom(d, s, from) IN IF p = 0 THEN <<>> ELSE <<p>> \o Occs(s, d, p + Len(d))
SubstringIndex(s, d, n) ==
  LET o == Occs(s, d, 1) IN
  IF n = 0 THEN <<>>
  ELSE IF n > 0 THEN (IF Len(o) < n THEN s ELSE Take(s, o[n] - 1))
  ELSE (IF Len(o) < -n THEN s ELSE Drop(s, o[Len(o) + n + 1] + Len(d) - 1))

Ascii(s) == IF s = <<>> THEN 0 ELSE Utf8(s[1])[1]
OrdBytes(s) == IF s = <<>> THEN <<0>> ELSE Utf8(s[1])
\* CHAR(n, ..): the bytes of every non-NULL integer, most significant first, at least one byte each
RECURSIVE IntBytes(_)
IntBytes(n) == IF n < 256 THEN <<n>> ELSE IntBytes(n \div 256) \o <<(n % 256)>>
RECURSIVE CharBytes(_)
CharBytes(l) == IF l = <<>> THEN <<>>
                ELSE (IF Head(l) = NULLI THEN <<>> ELSE IntBytes(Head(l))) \o CharBytes(Tail(l))

\* value of a base-256 digit string if it fits 31 bits
FitsInt(b) == Len(b) <= 3 \/ (Len(b) = 4 /\ b[1] < 128)
RECURSIVE B256(_)
B256(b) == IF b = <<>> THEN 0 ELSE B256(SubSeq(b, 1, Len(b) - 1)) * 256 + b[Len(b)]
NumOf(b) == IF FitsInt(b) THEN VI(B256(b)) ELSE VB(b)

\* ------------------------------------------------------------------ byte-counting variants (deviations)
\* What a byte-counting implementation of LPAD / RPAD / INSERT returns (the recorded engine defect):
\* the same algorithms over the UTF-8 bytes.  Only used to CLASSIFY a disagreement.
LpadB(s, n, pad) ==
  LET b == Bytes(s) p == Bytes(pad) IN
  IF n <= 0 THEN <<>> ELSE IF n <= Len(b) THEN Take(b, n) ELSE IF p = <<>> THEN <<>>
  ELSE Take(Rep(p, n), n - Len(b)) \o b
RpadB(s, n, pad) ==
  LET b == Bytes(s) p == Bytes(pad) IN
  IF n <= 0 THEN <<>> ELSE IF n <= Len(b) THEN Take(b, n) ELSE IF p = <<>> THEN <<>>
  ELSE b \o Take(Rep(p, n), n - Len(b))
InsertB(s, pos, len, new) == Insert(Bytes(s), pos, len, Bytes(new))

\* ------------------------------------------------------------------ dispatch
HasMB(s) == s # NULLS /\ \E i \in DOMAIN s : s[i] > 127

\* kinds of the arguments of f: a string over {s: string, i: integer}; "l" = every further argument is a string
StrAt(a, k) == a[k]
AnyNull(a, kinds) == \E k \in DOMAIN kinds : (kinds[k] = "s" /\ a[k] = NULLS) \/ (kinds[k] = "i" /\ a[k] = NULLI)

One(v) == <<v>>

\* accepted results of f(a); kinds gives the argument kinds (see MC_StrFuncs!Kinds)
Exp(f, a, kinds) ==
  CASE f = "field" -> One(VI(Field(a[1], Tail(a))))
    [] f = "elt" -> (IF a[1] = NULLI \/ a[1] < 1 \/ a[1] > Len(a) - 1 THEN One(VN)
                     ELSE IF a[a[1] + 1] = NULLS THEN One(VN) ELSE One(VS(a[a[1] + 1])))
    [] f = "char" -> One(VX(CharBytes(a)))
    [] AnyNull(a, kinds) -> One(VN)
    [] f \in {"char_length", "character_length"} -> One(VI(Len(a[1])))
    [] f \in {"length", "octet_length"} -> One(VI(ByteLen(a[1])))
    [] f = "bit_length" -> One(VI(8 * ByteLen(a[1])))
    [] f \in {"upper", "ucase"} -> One(VS(Upper(a[1])))
    [] f \in {"lower", "lcase"} -> One(VS(Lower(a[1])))
    [] f = "reverse" -> One(VS(Rev(a[1])))
    [] f = "ltrim" -> One(VS(TrimL(a[1], SP)))
    [] f = "rtrim" -> One(VS(TrimR(a[1], SP)))
    [] f = "trim" -> One(VS(TrimB(a[1], SP)))
    [] f = "ascii" -> One(VI(Ascii(a[1])))
    [] f = "ord" -> One(NumOf(OrdBytes(a[1])))
    [] f = "space" -> One(VS(Space(a[1])))
    [] f = "concat" -> One(VS(Concat(a[1], a[2])))
    [] f = "concat3" -> One(VS(a[1] \o a[2] \o a[3]))
    [] f = "left" -> One(VS(Left(a[1], a[2])))
    [] f = "right" -> One(VS(Right(a[1], a[2])))
    [] f \in {"substring2", "substr2"} -> One(VS(SubStr2(a[1], a[2])))
    [] f \in {"substring3", "mid"} -> One(VS(SubStr(a[1], a[2], a[3])))
    [] f = "locate2" -> One(VI(Locate(a[1], a[2], 1)))
    [] f = "position" -> One(VI(Locate(a[1], a[2], 1)))
    [] f = "instr" -> One(VI(Locate(a[2], a[1], 1)))
    [] f = "locate3" -> (IF LocateOpen(a[1], a[2], a[3]) THEN <<VI(a[3]), VI(0)>>
                         ELSE One(VI(Locate(a[1], a[2], a[3]))))
    [] f = "insert" -> One(VS(Insert(a[1], a[2], a[3], a[4])))
    [] f = "lpad" -> (IF PadOpen(a[1], a[2], a[3]) THEN <<VN, VS(<<>>)>> ELSE One(VS(Lpad(a[1], a[2], a[3]))))
    [] f = "rpad" -> (IF PadOpen(a[1], a[2], a[3]) THEN <<VN, VS(<<>>)>> ELSE One(VS(Rpad(a[1], a[2], a[3]))))
    [] f = "repeat" -> One(VS(Repeat(a[1], a[2])))
    [] f = "replace" -> One(VS(Replace(a[1], a[2], a[3])))
    [] f = "trim_both" -> One(VS(TrimB(a[2], a[1])))
    [] f = "trim_leading" -> One(VS(TrimL(a[2], a[1])))
    [] f = "trim_trailing" -> One(VS(TrimR(a[2], a[1])))
    [] f = "strcmp" -> One(VI(Strcmp(a[1], a[2])))
    [] f = "find_in_set" -> One(VI(FindInSet(a[1], Tail(a))))
    [] f = "substring_index" -> One(VS(SubstringIndex(a[1], a[2], a[3])))
    [] OTHER -> Assert(FALSE, <<"unknown function", f>>)

\* LOCATE as the engine computes it (recorded defects): positions counted in BYTES of the UTF-8 text,
\* a panic for an empty haystack with pos > 1, a NULL position read as 1
LocB(sub, s, pos) ==
  LET b == Bytes(s) q == Bytes(sub) IN
  IF pos <= 0 \/ (Len(b) > 0 /\ pos > Len(b)) THEN VI(0)
  ELSE IF q = <<>> /\ b = <<>> THEN VI(IF pos = 1 THEN 1 ELSE 0)
  ELSE IF b = <<>> /\ pos > 1 THEN VE
  ELSE IF q = <<>> THEN VI(pos)
  ELSE \* the text is cut at byte pos; every byte of a character cut in the middle becomes U+FFFD (3 bytes)
       LET rest == Drop(b, pos - 1)
           cont == {i \in DOMAIN rest : \A j \in 1..i : rest[j] >= 128 /\ rest[j] <= 191}
           k == Cardinality(cont)
           mapped == Rep(<<239, 191, 189>>, k) \o Drop(rest, k)
           p == FindFrom(q, mapped, 1)
       IN VI(IF p = 0 THEN 0 ELSE p - 1 + pos)

\* recorded deviations of the engine: <<[n |-> name, v |-> value]>>
Dev(f, a, kinds) ==
  IF f = "locate3" /\ a[3] = NULLI /\ a[1] # NULLS /\ a[2] # NULLS
  THEN <<[n |-> "null-position-read-as-1", v |-> LocB(a[1], a[2], 1)]>>
  ELSE IF f \notin {"field", "elt", "char"} /\ AnyNull(a, kinds) THEN <<>>
  ELSE CASE f = "lpad" /\ (HasMB(a[1]) \/ HasMB(a[3])) -> <<[n |-> "bytecount", v |-> VX(LpadB(a[1], a[2], a[3]))]>>
         [] f = "rpad" /\ (HasMB(a[1]) \/ HasMB(a[3])) -> <<[n |-> "bytecount", v |-> VX(RpadB(a[1], a[2], a[3]))]>>
         [] f = "insert" /\ (HasMB(a[1]) \/ HasMB(a[4])) -> <<[n |-> "bytecount", v |-> VX(InsertB(a[1], a[2], a[3], a[4]))]>>
         [] f = "repeat" /\ a[2] < 0 -> <<[n |-> "negative-count-error", v |-> VE]>>
         [] f = "find_in_set" /\ a[1] = <<>> /\ Join(Tail(a), COMMA) = <<>> -> <<[n |-> "empty-list-found", v |-> VI(1)]>>
         [] f \in {"locate2", "position"} /\ HasMB(a[2]) -> <<[n |-> "byteposition", v |-> LocB(a[1], a[2], 1)]>>
         [] f = "locate3" /\ a[2] = <<>> /\ a[3] > 1 -> <<[n |-> "empty-haystack-panic", v |-> LocB(a[1], a[2], a[3])]>>
         [] f = "locate3" /\ HasMB(a[2]) -> <<[n |-> "byteposition", v |-> LocB(a[1], a[2], a[3])]>>
         [] OTHER -> <<>>

\* the regions the manual leaves open (accepted sets with more than one member)
Murky(f, a, kinds) ==
  IF AnyNull(a, kinds) THEN FALSE
  ELSE CASE f = "locate3" -> LocateOpen(a[1], a[2], a[3])
         [] f \in {"lpad", "rpad"} -> PadOpen(a[1], a[2], a[3])
         [] OTHER -> FALSE

\* ------------------------------------------------------------------ laws of the definitions (checked by TLC on the model)
LawsS(x, y) ==        \* x, y: non-NULL strings
  /\ Len(Concat(x, y)) = Len(x) + Len(y)
  /\ ByteLen(Concat(x, y)) = ByteLen(x) + ByteLen(y)
  /\ ByteLen(x) = Len(Bytes(x))
  /\ Rev(Rev(x)) = x
  /\ \A n \in -1..(Len(x) + 1) : Left(x, n) \o SubStr2(x, Max2(n, 0) + 1) = x
  /\ \A n \in 1..Len(x) : Right(x, n) = SubStr2(x, -n)
  /\ LET p == Locate(y, x, 1) IN IF p > 0 THEN SubStr(x, p, Len(y)) = y
                                   ELSE \A q \in 1..Len(x) : ~OccursAt(y, x, q)
  /\ Replace(x, y, y) = x
  /\ TrimB(x, SP) = TrimL(TrimR(x, SP), SP)
  /\ \A n \in 0..3 : Len(Repeat(x, n)) = n * Len(x)
  /\ \A n \in 0..4 : y # <<>> => (Len(Lpad(x, n, y)) = n /\ Len(Rpad(x, n, y)) = n)
  /\ \A n \in Len(x)..4 : y # <<>> => (IsSuffix(x, Lpad(x, n, y)) /\ IsPrefix(x, Rpad(x, n, y)))
  /\ Strcmp(x, y) = -Strcmp(y, x)
  /\ \A p \in 1..Len(x), l \in 0..2 : Insert(x, p, l, y) = Take(x, p - 1) \o y \o SubStr2(x, p + l)
=============================================================================
