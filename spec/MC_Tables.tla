------------------------------ MODULE MC_Tables ------------------------------
(* Bounded exhaustive models of SQLTables: every statement of a small grammar from every reachable
   table state.  Presets (constant Preset):
     "keys"    t(c1 INT PRIMARY KEY, c2 INT NULL UNIQUE, c3 INT NULL)          -- C13, C14, C16
     "keyless" s(c1 INT NULL, c2 INT NULL)                                      -- C13
     "both"    t and s together (thorough tier)
     "cons"    t(c1 INT PRIMARY KEY, c2 INT NOT NULL DEFAULT 1, c3 INT NULL, c4 INT AS (c2 + COALESCE(c3, 0)) STORED,
                 CHECK (c3 >= c2), CHECK (c4 <= 3))   -- C19: a generated column over two base columns and a CHECK over it
     "auto"    t(c1 INT PRIMARY KEY AUTO_INCREMENT, c2 INT NULL UNIQUE)         -- C20
     "prefix"  t(c1 INT PRIMARY KEY, c2 VARCHAR NULL, UNIQUE KEY u1 (c2(2)))    -- C14: prefix unique key, values
               shorter than / equal to / longer than the prefix that share prefixes ('a' 'ab' 'abc' 'abd' 'b')
     "prefixpk" s(c1 VARCHAR NOT NULL, c2 INT NULL, PRIMARY KEY (c1(2)))        -- C14, model only (the engine
               refuses prefix lengths in a PRIMARY KEY: "prefix index on string column unsupported")
   Key values range over K, rows per table <= MaxRows, integers <= MaxVal, ids <= MaxId.
   Rows are kept sorted (canonical), `act` (last statement and reply) and `step` are hidden by the
   VIEW.  The `Emit` action constraint prints every explored transition (binding A: the simulated
   behaviours are replayed on the real engine).                                                    *)
EXTENDS SQLTables, Json

CONSTANTS Preset, K, MaxRows, MaxVal, MaxId,
          Modes2   \* INSERT modes that also get two-row statements (the quick configurations take fewer)

VARIABLES st, act, step
vars == <<st, act, step>>
View == st

KV == {I(x) : x \in K}
NV == {NULL} \cup KV
cc1 == ECol(1, "none")
cc2 == ECol(2, "none")
cc3 == ECol(3, "none")
Plus1(e) == EOp2("plus", e, ELit(I(1)))
Eq(e, v) == EOp2("eq", e, ELit(v))
IsNull(e) == EOp1("isnull", e)
Cells(vs) == [i \in DOMAIN vs |-> Cell(ELit(vs[i]))]
Modes == {"plain", "ignore", "replace", "odku"}

\* ------------------------------------------------------------------ schemas
TKeys == [cols |-> <<IntCol(TRUE), IntCol(FALSE), IntCol(FALSE)>>, checks |-> <<>>, pk |-> <<1>>,
          uniq |-> << [name |-> "u1", parts |-> << [col |-> 2, plen |-> 0] >>] >>, rows |-> <<>>]
TKeyless == [cols |-> <<IntCol(FALSE), IntCol(FALSE)>>, checks |-> <<>>, pk |-> <<>>, uniq |-> <<>>, rows |-> <<>>]
TCons == [cols |-> <<IntCol(TRUE),
                     MkCol("i", "none", TRUE, TRUE, I(1), FALSE, FALSE, ELit(NULL)),
                     IntCol(FALSE),
                     MkCol("i", "none", FALSE, FALSE, NULL, FALSE, TRUE,
                           EOp2("plus", cc2, [k |-> "fn", f |-> "coalesce", a |-> <<cc3, ELit(I(0))>>]))>>,
          checks |-> <<EOp2("ge", cc3, cc2), EOp2("le", ECol(4, "none"), ELit(I(3)))>>, pk |-> <<1>>, uniq |-> <<>>, rows |-> <<>>]
TAuto == [cols |-> <<MkCol("i", "none", TRUE, FALSE, NULL, TRUE, FALSE, ELit(NULL)), IntCol(FALSE)>>,
          checks |-> <<>>, pk |-> <<1>>,
          uniq |-> << [name |-> "u1", parts |-> << [col |-> 2, plen |-> 0] >>] >>, rows |-> <<>>]

StrColM(notnull) == MkCol("s", "bin", notnull, FALSE, NULL, FALSE, FALSE, ELit(NULL))
TPrefix == [cols |-> <<IntCol(TRUE), StrColM(FALSE)>>, checks |-> <<>>, pk |-> <<1>>,
            uniq |-> << [name |-> "u1", parts |-> << [col |-> 2, plen |-> 2] >>] >>, rows |-> <<>>]
TPrefixPK == [cols |-> <<StrColM(TRUE), IntCol(FALSE)>>, checks |-> <<>>, pk |-> <<1>>, pkplen |-> <<2>>, uniq |-> <<>>, rows |-> <<>>]

Tabs0 == CASE Preset = "keys" -> [t |-> TKeys]
           [] Preset = "keyless" -> [s |-> TKeyless]
           [] Preset = "both" -> [t |-> TKeys, s |-> TKeyless]
           [] Preset = "cons" -> [t |-> TCons]
           [] Preset = "auto" -> [t |-> TAuto]
           [] Preset = "prefix" -> [t |-> TPrefix]
           [] Preset = "prefixpk" -> [s |-> TPrefixPK]

\* ------------------------------------------------------------------ statement grammars
OdkuSets3 == { <<SetItem(3, ECol(6, "none"))>>, <<SetItem(2, ECol(5, "none"))>>, <<SetItem(1, Plus1(cc1))>> }
InsFor(t, cols, rowset, odkus) ==
  {SInsert(t, m, cols, <<r>>, IF m = "odku" THEN od ELSE <<>>) : m \in Modes, r \in rowset, od \in odkus}
Ins2For(t, cols, rowset, odkus) ==
  {SInsert(t, m, cols, <<r, q>>, IF m = "odku" THEN od ELSE <<>>) : m \in Modes2, r \in rowset, q \in rowset, od \in odkus}

KeysStmts ==
  LET R1 == {Cells(<<k, u, v>>) : k \in KV, u \in NV, v \in {NULL, I(0)}}
      R2 == {Cells(<<k, u, NULL>>) : k \in KV, u \in NV}
      ords == {<<>>, <<Ord(1, TRUE)>>, <<Ord(1, FALSE)>>}
  IN InsFor("t", <<1, 2, 3>>, R1, OdkuSets3)
     \cup Ins2For("t", <<1, 2, 3>>, R2, {<<SetItem(3, ECol(6, "none"))>>, <<SetItem(2, ECol(5, "none"))>>})
     \cup {SUpdate("t", ig, <<SetItem(1, Plus1(cc1))>>, ETrue, o, -1) : ig \in BOOLEAN, o \in ords}
     \cup {SUpdate("t", ig, <<SetItem(2, ELit(u))>>, w, <<>>, -1) : ig \in BOOLEAN, u \in NV, w \in {ETrue} \cup {Eq(cc1, k) : k \in KV}}
     \cup {SUpdate("t", FALSE, <<SetItem(1, ELit(k))>>, Eq(cc1, q), <<>>, -1) : k \in KV, q \in KV}
     \cup {SUpdate("t", FALSE, <<SetItem(3, ELit(I(1)))>>, w, <<>>, -1) : w \in {ETrue, IsNull(cc2), IsNull(cc3)}}
     \cup {SUpdate("t", FALSE, <<SetItem(3, ELit(I(1)))>>, ETrue, <<Ord(1, d)>>, 1) : d \in BOOLEAN}
     \cup {SUpdate("t", FALSE, <<SetItem(2, cc1), SetItem(3, cc2)>>, ETrue, <<>>, -1)}
     \cup {SDelete("t", w, <<>>, -1) : w \in {ETrue, IsNull(cc2)} \cup {Eq(cc1, k) : k \in KV} \cup {Eq(cc2, k) : k \in KV}}
     \cup {SDelete("t", ETrue, <<Ord(1, d)>>, 1) : d \in BOOLEAN}
     \cup {STruncate("t")}

KeylessStmts ==
  LET R1 == {Cells(<<a, b>>) : a \in NV, b \in NV}
      full == <<Ord(1, FALSE), Ord(2, FALSE)>>
  IN {SInsert("s", m, <<1, 2>>, <<r>>, <<>>) : m \in {"plain", "ignore", "replace"}, r \in R1}
     \cup {SInsert("s", "plain", <<1, 2>>, <<r, r>>, <<>>) : r \in R1}
     \cup {SInsert("s", "plain", <<1>>, <<Cells(<<a>>)>>, <<>>) : a \in NV}
     \cup {SUpdate("s", ig, <<SetItem(2, ELit(b))>>, w, <<>>, -1) : ig \in BOOLEAN, b \in NV, w \in {ETrue, IsNull(cc1)} \cup {Eq(cc1, k) : k \in KV}}
     \cup {SUpdate("s", FALSE, <<SetItem(1, Plus1(cc1))>>, ETrue, <<>>, -1)}
     \cup {SUpdate("s", FALSE, <<SetItem(2, ELit(I(1)))>>, ETrue, full, 1)}
     \cup {SDelete("s", w, <<>>, -1) : w \in {ETrue, IsNull(cc1), IsNull(cc2)} \cup {Eq(cc1, k) : k \in KV}}
     \cup {SDelete("s", ETrue, full, 1)}
     \cup {STruncate("s")}

ConsStmts ==
  LET V3 == {NULL} \cup KV
      cell(v) == Cell(ELit(v))
      R1 == {<<cell(k)>> : k \in KV}
      R2 == {<<cell(k), x>> : k \in KV, x \in {cell(v) : v \in V3} \cup {DefaultCell}}
      R3 == {<<cell(k), cell(a), cell(b)>> : k \in KV, a \in V3, b \in V3}
      od == {<<SetItem(3, ECol(7, "none"))>>, <<SetItem(2, ECol(6, "none"))>>}
  IN InsFor("t", <<1>>, R1, od) \cup InsFor("t", <<1, 2>>, R2, od) \cup InsFor("t", <<1, 2, 3>>, R3, od)
     \cup {SInsert("t", m, <<1, 2, 3>>, <<r, q>>, <<>>) : m \in Modes2 \cap {"plain", "ignore"},
                r \in {x \in R3 : x[1].e.v = I(0) /\ x[3].e.v = NULL}, q \in {x \in R3 : x[1].e.v = I(1)}}
     \cup {SUpdate("t", ig, <<SetItem(2, ELit(v))>>, w, <<>>, -1) : ig \in BOOLEAN, v \in V3, w \in {ETrue} \cup {Eq(cc1, k) : k \in KV}}
     \cup {SUpdate("t", ig, <<SetItem(3, ELit(v))>>, ETrue, <<>>, -1) : ig \in BOOLEAN, v \in V3}
     \cup {SUpdate("t", FALSE, <<SetItem(2, Plus1(cc2))>>, ETrue, <<>>, -1)}
     \cup {SDelete("t", w, <<>>, -1) : w \in {ETrue} \cup {Eq(cc1, k) : k \in KV}}

AutoStmts ==
  LET cell(v) == Cell(ELit(v))
      A1 == {cell(NULL), cell(I(0))} \cup {cell(I(x)) : x \in {2, 4}}
      U == {cell(v) : v \in NV}
      A2 == {cell(NULL), cell(I(2))}
  IN {SInsert("t", m, <<2>>, << <<u>> >>, <<>>) : m \in {"plain", "ignore"}, u \in U}
     \cup {SInsert("t", m, <<1, 2>>, << <<a, u>> >>, <<>>) : m \in {"plain", "ignore", "replace"}, a \in A1, u \in U}
     \cup {SInsert("t", m, <<1, 2>>, << <<a, u>>, <<b, w>> >>, <<>>) : m \in {"plain", "ignore"}, a \in A2, b \in A2, u \in U, w \in {cell(NULL), cell(I(0))}}
     \cup {SDelete("t", w, <<>>, -1) : w \in {ETrue}}
     \cup {SDelete("t", ETrue, <<Ord(1, TRUE)>>, 1)}
     \cup {STruncate("t")}
     \cup {SAlterAuto("t", n) : n \in 1..5}      \* below, equal to, one above and far above the stored maximum (explicit ids 2 and 4)
     \cup {[BaseStmt EXCEPT !.k = "lastid"]}

\* strings around a prefix length of 2: shorter ('a', 'b'), equal ('ab'), longer with the same prefix ('abc', 'abd')
SV == {S(<<97>>), S(<<97, 98>>), S(<<97, 98, 99>>), S(<<97, 98, 100>>), S(<<98>>)}
ccs2 == ECol(2, "bin")
ccs1 == ECol(1, "bin")
PrefixStmts ==
  LET U == {NULL} \cup SV
      R1 == {Cells(<<k, u>>) : k \in KV, u \in U}
      od == {<<SetItem(2, ECol(4, "bin"))>>, <<SetItem(1, Plus1(cc1))>>}
  IN InsFor("t", <<1, 2>>, R1, od)
     \cup Ins2For("t", <<1, 2>>, {Cells(<<k, u>>) : k \in KV, u \in SV}, {<<SetItem(2, ECol(4, "bin"))>>})
     \cup {SUpdate("t", ig, <<SetItem(2, ELit(u))>>, w, <<>>, -1) : ig \in BOOLEAN, u \in U, w \in {ETrue} \cup {Eq(cc1, k) : k \in KV}}
     \cup {SUpdate("t", FALSE, <<SetItem(1, Plus1(cc1))>>, ETrue, o, -1) : o \in {<<>>, <<Ord(1, TRUE)>>}}
     \cup {SDelete("t", w, <<>>, -1) : w \in {ETrue} \cup {Eq(cc1, k) : k \in KV} \cup {Eq(ccs2, u) : u \in SV}}
PrefixPKStmts ==
  LET R1 == {Cells(<<u, v>>) : u \in SV, v \in {NULL, I(0)}}
      od == {<<SetItem(2, ECol(4, "none"))>>, <<SetItem(1, ECol(3, "bin"))>>}
  IN InsFor("s", <<1, 2>>, R1, od)
     \cup Ins2For("s", <<1, 2>>, {Cells(<<u, NULL>>) : u \in SV}, {<<SetItem(2, ECol(4, "none"))>>})
     \cup {SUpdate("s", ig, <<SetItem(1, ELit(u))>>, w, <<>>, -1) : ig \in {FALSE}, u \in SV, w \in {ETrue} \cup {Eq(ccs1, q) : q \in SV}}
     \cup {SUpdate("s", FALSE, <<SetItem(2, Plus1(cc2))>>, Eq(ccs1, q), <<>>, -1) : q \in SV}
     \cup {SDelete("s", w, <<>>, -1) : w \in {ETrue} \cup {Eq(ccs1, q) : q \in SV}}

Stmts == CASE Preset = "keys" -> KeysStmts
           [] Preset = "keyless" -> KeylessStmts
           [] Preset = "both" -> KeysStmts \cup KeylessStmts
           [] Preset = "cons" -> ConsStmts
           [] Preset = "auto" -> AutoStmts
           [] Preset = "prefix" -> PrefixStmts
           [] Preset = "prefixpk" -> PrefixPKStmts

\* ------------------------------------------------------------------ the state machine
AllAsc(T) == [j \in DOMAIN T.cols |-> Ord(j, FALSE)]
CanonRows(T, rows) == SortSeq(rows, LAMBDA a, b : RowLt(AllAsc(T), CollsOf(T), a, b))
Canon(s) == [s EXCEPT !.tabs = [t \in DOMAIN s.tabs |-> [s.tabs[t] EXCEPT !.rows = CanonRows(s.tabs[t], s.tabs[t].rows)]]]

Init ==
  /\ st = [tabs |-> Tabs0, autoinc |-> [t \in DOMAIN Tabs0 |-> 0], lastid |-> 0]
  /\ act = [stmt |-> BaseStmt, reply |-> Reply("", "", 0, 0, 0, 0), nout |-> 0]
  /\ step = 0

Next ==
  \E stmt \in Stmts :
     LET outs == Outcomes(st, stmt, {}) IN
     \E o \in outs :
        /\ st' = Canon(Apply(st, o))
        /\ act' = [stmt |-> stmt, reply |-> o.reply, nout |-> Cardinality(outs)]
        /\ step' = step + 1

Spec == Init /\ [][Next]_vars

IntsOK(rows) == \A i \in DOMAIN rows : \A j \in DOMAIN rows[i] : rows[i][j].t = "i" => (rows[i][j].v <= MaxVal /\ rows[i][j].v >= -1)
Bounded == \A t \in DOMAIN st.tabs :
             /\ Len(st.tabs[t].rows) <= MaxRows
             /\ IntsOK(st.tabs[t].rows)
             /\ st.autoinc[t] <= MaxId

\* ------------------------------------------------------------------ properties
InvPKUnique == PKUnique(st)
InvUniqueIdx == UniqueIdx(st)
InvNotNull == NotNullHolds(st)
InvChecks == ChecksHold(st)
InvGenerated == GeneratedConsistent(st)
InvAutoCovers == AutoIncCovers(st)

AutoIncMonotoneAct ==
  /\ \A t \in DOMAIN st.tabs :
        \/ st'.autoinc[t] >= st.autoinc[t]
        \/ (act'.stmt.t = t /\ act'.stmt.k \in {"truncate", "alterauto"})
  /\ (act'.stmt.k = "insert" /\ act'.reply.kind = "ok" /\ act'.reply.id > 0) =>
        /\ act'.reply.id > st.autoinc[act'.stmt.t]
        /\ st'.lastid = act'.reply.id
  /\ (act'.stmt.k = "insert" /\ act'.reply.kind = "ok" /\ act'.reply.id = 0) => st'.lastid = st.lastid
  /\ (act'.stmt.k = "insert" /\ act'.reply.kind = "err") => st'.lastid \in {st.lastid, -1}
AutoIncMonotone == [][AutoIncMonotoneAct]_vars

FailedStmtNoEffectAct == act'.reply.kind = "err" => (st'.tabs = st.tabs /\ st'.autoinc = st.autoinc)
FailedStmtNoEffect == [][FailedStmtNoEffectAct]_vars

\* ------------------------------------------------------------------ binding A: transition dump
RowsOf(s) == [t \in DOMAIN s.tabs |-> s.tabs[t].rows]
Emit ==
  PrintT("TR " \o ToJson([stmt |-> act'.stmt, reply |-> act'.reply, nout |-> act'.nout,
                           pre |-> RowsOf(st), preauto |-> st.autoinc, prelast |-> st.lastid,
                           post |-> RowsOf(st'), postauto |-> st'.autoinc, postlast |-> st'.lastid]))
ASSUME PrintT("SC " \o ToJson(Tabs0))
StepBound == step <= 60
=============================================================================
