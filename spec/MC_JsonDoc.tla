---------------------------- MODULE MC_JsonDoc ----------------------------
(* C32: a JSON document column under a history of mutations.  State: doc; one action per mutating
   function (JSON_SET / JSON_INSERT / JSON_REPLACE / JSON_REMOVE / JSON_ARRAY_APPEND /
   JSON_ARRAY_INSERT / JSON_MERGE_PATCH) with every path of length <= 2 over the configured keys and
   indexes and every configured value.  The property's laws are action properties of this machine
   (checked by TLC on every transition); canonical form is a state invariant.  Emit prints every
   transition with the observers' replies for replay on the engine (binding A). *)
EXTENDS JsonDoc, Json

CONSTANTS KeyNames,     \* set of keys (sequences of code points)
          Scalars,      \* set of scalar documents that may occur
          Idxs,         \* set of array indexes used in paths
          Ops,          \* subset of {"set","insert","replace","remove","append","ainsert","patch"}
          MaxDepth, MaxWidth

VARIABLES doc, act, step
vars == <<doc, act, step>>

K(s) == s            \* keys are written as tuples of code points: <<97>> = "a"
A == <<97>>
B == <<98>>
AA == <<97, 97>>
X == JStr(<<120>>)

KeysTiny == {A}
KeysSmall == {A, AA}
KeysFull == {A, B, AA}
ScalarsTiny == {JInt(1)}
ScalarsSmall == {JInt(1), JNull}
ScalarsFull == {JInt(1), X, JBool(TRUE), JNull}

Vals == Scalars \cup {JArr(<<>>), JObj(<<>>)}
Steps == {KeyStep(k) : k \in KeyNames} \cup {IdxStep(i) : i \in Idxs}
Paths == {<<>>} \cup {<<s>> : s \in Steps} \cup {<<s, t>> : s \in Steps, t \in Steps}
\* patches for JSON_MERGE_PATCH: one-member objects (null deletes) and a non-object
Patches == {JObj(<< <<k, v>> >>) : k \in KeyNames, v \in Vals} \cup {JInt(1)}

Bounded(d) == Depth(d) <= MaxDepth /\ Width(d) <= MaxWidth

Apply(op, d, p, v) ==
    CASE op = "set" -> Set(d, p, v)
      [] op = "insert" -> Insert(d, p, v)
      [] op = "replace" -> Replace(d, p, v)
      [] op = "remove" -> Remove(d, p)
      [] op = "append" -> ArrayAppend(d, p, v)
      [] op = "ainsert" -> ArrayInsert(d, p, v)
      [] op = "patch" -> MergePatch(d, v)

\* which (op, path) pairs are generated: crisp inputs only
Enabled(op, d, p) ==
    CASE op = "remove" -> RemoveCrisp(d, p)
      \* JSON_ARRAY_INSERT: only a cell (or the end) of an existing array reached by plain steps; other
      \* paths are an error or ignored depending on details the manual does not spell out
      [] op = "ainsert" -> p # <<>> /\ p[Len(p)].k = "i" /\ PathKind(d, p) \in {"natural", "create"}
      [] op = "patch" -> p = <<>>
      [] OTHER -> TRUE

Init == doc = JObj(<<>>) /\ act = [op |-> "init", p |-> <<>>, v |-> JNull] /\ step = 0
Next ==
    \E op \in Ops, p \in Paths :
      /\ Enabled(op, doc, p)
      /\ \E v \in (IF op = "remove" THEN {JNull} ELSE IF op = "patch" THEN Patches ELSE Vals) :
           /\ doc' = Apply(op, doc, p, v)
           /\ Bounded(doc')
           /\ act' = [op |-> op, p |-> p, v |-> v]
           /\ step' = step + 1
Spec == Init /\ [][Next]_vars
View == doc

\* ---- the property's laws ----------------------------------------------------------------------------
Parent(d, p) == Extract(d, SubSeq(p, 1, Len(p) - 1))
AsArrayLen(d) == IF IsArr(d) THEN Len(d.v) ELSE 1
\* the path exists, or names the one new member / cell that JSON_SET creates
Lands(d, p) ==
    \/ ContainsPath(d, p)
    \/ /\ p # <<>> /\ ~IsMissing(Parent(d, p))
       /\ LET s == p[Len(p)] IN IF s.k = "k" THEN IsObj(Parent(d, p)) ELSE s.v = AsArrayLen(Parent(d, p))

\* Reading back through the same path is only meaningful when no step autowraps, or when an existing
\* value is overwritten by a non-array (writing an array under an autowrapping [0] changes what [0]
\* selects: JSON_EXTRACT(JSON_SET('1', '$[0]', '[]'), '$[0]') is NULL in MySQL too).
NoWrap(d, p) == PathKind(d, p) \in {"natural", "create", "dangling"}
Stable(d, p, v) == NoWrap(d, p) \/ (ContainsPath(d, p) /\ ~IsArr(v))

Law(a, pre, post) ==
    LET p == a.p
        v == a.v
    IN /\ (a.op = "set" => /\ (Lands(pre, p) /\ Stable(pre, p, v) => DocEq(Extract(post, p), v))   \* SetThenExtract
                           /\ (~Lands(pre, p) /\ ~(p # <<>> /\ ~IsMissing(Parent(pre, p)) /\ p[Len(p)].k = "i") => DocEq(post, pre)))
       /\ (a.op = "remove" => /\ (~ContainsPath(pre, p) => DocEq(post, pre))                   \* RemoveThenNotContains
                              /\ (ContainsPath(pre, p) /\ p[Len(p)].k = "k" => ~ContainsPath(post, p))
                              /\ (ContainsPath(pre, p) /\ p[Len(p)].k = "i" =>
                                     Length(Parent(post, p)) = Length(Parent(pre, p)) - 1))
       /\ (a.op = "append" => /\ (~ContainsPath(pre, p) => DocEq(post, pre))                   \* AppendAddsOne
                              /\ (ContainsPath(pre, p) /\ NoWrap(pre, p) =>
                                    LET t == Extract(post, p) IN
                                    /\ IsArr(t) /\ Len(t.v) = AsArrayLen(Extract(pre, p)) + 1
                                    /\ DocEq(t.v[Len(t.v)], v)))
       /\ (a.op = "insert" => /\ (ContainsPath(pre, p) => DocEq(post, pre))                    \* InsertKeepsExisting
                              /\ (~ContainsPath(pre, p) /\ Lands(pre, p) /\ NoWrap(pre, p) => DocEq(Extract(post, p), v)))
       /\ (a.op = "replace" => /\ (~ContainsPath(pre, p) => DocEq(post, pre))                  \* ReplaceOnlyExisting
                               /\ (ContainsPath(pre, p) /\ Stable(pre, p, v) => DocEq(Extract(post, p), v)))
       /\ (a.op = "ainsert" => (ContainsPath(pre, p) /\ IsArr(Parent(pre, p)) /\ NoWrap(pre, p) =>
                                  DocEq(Extract(post, p), v) /\ Length(Parent(post, p)) = Length(Parent(pre, p)) + 1))
Laws == [][Law(act', doc, doc')]_vars

\* canonical form is a fixpoint; documents stay inside the bounds
CanonicalFixpoint == WellFormed(doc) /\ DocEq(Canonical(doc), doc) /\ Bounded(doc)

\* ---- transition dump (binding A) ------------------------------------------------------------------------
Obs(d, p) == [extract |-> Extract(d, p), contains |-> ContainsPath(d, p), len |-> Length(d),
              type |-> Type(d), keys |-> Keys(d)]
Emit == PrintT("TR " \o ToJson([pre |-> doc, op |-> act'.op, p |-> act'.p, v |-> act'.v, post |-> doc',
                                 kind |-> IF act'.op = "patch" THEN PatchKind(doc, act'.v) ELSE PathKind(doc, act'.p), obs |-> Obs(doc', act'.p), step |-> step']))
=============================================================================
