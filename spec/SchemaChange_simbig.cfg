CONSTANTS
  ColNames = {"a", "b", "c", "d", "e"}
  IdxNames = {"i1", "i2", "i3"}
  MaxCols = 5
  MaxRows = 6
  MaxSteps = 24
  Level = "full"
  MCTpls = {1}
INIT Init
NEXT NextRandom
INVARIANTS TypeOK ColumnNamesUnique KeyColsExist ValuesTyped Integrity PKNotNull
ACTION_CONSTRAINT Emit
CHECK_DEADLOCK FALSE
