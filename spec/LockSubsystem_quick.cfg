\* exhaustive, <= 2 calls per session, ReleaseAll read as one RelOne per freed lock.  Lock only with a finite
\* timeout: its behaviours include those of the untimed Lock (go on after every sleep) and of timeout 0.
CONSTANTS
  Sess = {1, 2, 3}
  Names = {"a", "b"}
  Budget <- B2
  Timeouts = {"fin"}
  Monitor = FALSE
  Record = TRUE
INIT Init
NEXT Next
VIEW View
INVARIANTS TypeOK AtMostOneOwner HoldersIsOwner CountPositiveWhenOwned OwnedImpliesRegistered CreatedOK Linearizable GhostIsReal
PROPERTIES RefinesSplit FailNoEffect
CHECK_DEADLOCK FALSE
