CONSTANT MaxN = 4
INIT Init
NEXT Next
INVARIANT Laws
ACTION_CONSTRAINT Emit
CHECK_DEADLOCK FALSE
