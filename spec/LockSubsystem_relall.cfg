\* exact linearizability monitor with ReleaseAll read as ONE atomic operation.  Session 1 may make
\* 3 calls, session 2 two.  TLC's shortest counterexample to MonitorOK is the witness of the known
\* finding "ReleaseAll is not atomic" that C38.py replays on the real code every run.
CONSTANTS
  Sess = {1, 2}
  Names = {"a", "b"}
  Budget <- B32
  Timeouts = {}
  Monitor = TRUE
  Record = TRUE
INIT Init
NEXT Next
VIEW View
INVARIANTS TypeOK MonitorOK
CHECK_DEADLOCK FALSE
