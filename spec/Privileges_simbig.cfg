\* thorough tier: 3 users, 2 roles (roles are granted to users only), all 12 privileges
\* random histories (-simulate), invariants checked along them, every step printed by Emit
CONSTANTS
  Users = {"u1", "u2", "u3"}
  Roles = {"r1", "r2"}
  Dbs = {"d1", "d2"}
  Tbls = {"t1", "t2"}
  Privs = {"SELECT", "INSERT", "UPDATE", "DELETE", "CREATE", "DROP", "ALTER", "INDEX", "EXECUTE", "CREATE USER", "GRANT OPTION", "SUPER"}
  DynPrivs = {"REPLICATION_SLAVE_ADMIN", "CLONE_ADMIN"}
  MaxSet = 2
  WithAll = TRUE
  MaxStep = 100
  InitAll = TRUE
INIT Init
NEXT NextSim
VIEW View
INVARIANTS TypeOK NoOrphans HierarchyMonotone DynGrantOptionIsGlobal
PROPERTIES ReloadIdentity DropForgets
ACTION_CONSTRAINT Emit
CHECK_DEADLOCK FALSE
