CONSTANTS
  Sessions = {1, 2, 3}
  ModelVars = {"big_tables", "div_precision_increment", "completion_type", "max_connections", "pseudo_slave_mode", "lc_messages", "lower_case_table_names", "join_complexity_limit"}
  UserVars = {"u1", "u2"}
  MaxSteps = 16
INIT Init
NEXT NextRandom
VIEW View
INVARIANTS TypeOK
ACTION_CONSTRAINT Emit
CHECK_DEADLOCK FALSE
