----------------------------- MODULE MC_Recreate -----------------------------
(* A small universe of observations for Recreate: two texts x two projections (differing in one row of one
   information_schema table, and in the ORDER of rows only) x two probe reply sequences. *)
EXTENDS Recreate
P1 == [COLUMNS |-> << <<"a", "int", "NO">>, <<"b", "varchar(4)", "YES">> >>, STATISTICS |-> << <<"PRIMARY", "1", "a">> >>]
P2 == [COLUMNS |-> << <<"b", "varchar(4)", "YES">>, <<"a", "int", "NO">> >>, STATISTICS |-> << <<"PRIMARY", "1", "a">> >>]   \* P1 in another row order
P3 == [COLUMNS |-> << <<"a", "int", "NO">>, <<"b", "varchar(8)", "YES">> >>, STATISTICS |-> << <<"PRIMARY", "1", "a">> >>]
P4 == [COLUMNS |-> << <<"a", "int", "NO">>, <<"b", "varchar(4)", "YES">> >>]                                                  \* a table of rows missing
MCUniverse == {[text |-> t, proj |-> p, probe |-> q] : t \in {"CREATE TABLE t (a int)", "CREATE TABLE t (a int, b int)"},
                                                        p \in {P1, P2, P3, P4}, q \in {<<"ok", "dup">>, <<"ok", "ok">>, <<"ok">>}}
=============================================================================
