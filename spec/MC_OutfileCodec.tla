--------------------------- MODULE MC_OutfileCodec ---------------------------
(* C50, model side.  Bounded enumeration over OutfileCodec: for every option set the generators
   may use, and every table of <= 2 columns x <= 2 rows over a hostile alphabet, TLC checks
   Decode(Encode(rows)) = rows (invariant RoundTripOK) and the sanity facts below.  The option set
   is chosen in Init, the table in Next (TLC computes initial states on one thread).

   Emit (simulate mode, SInit/SNext) prints random members of the same enumeration as cases for
   the real engine (binding A): the engine exports and reloads exactly these rows. *)
EXTENDS OutfileCodec, Json

CONSTANTS Long,    \* TRUE: strings of length <= 2 in one-row tables; FALSE: only in one-column tables
          Core,    \* TRUE: two-row two-column tables draw their cells from the option set's own special
                   \* characters only (quick tier); FALSE: from the whole alphabet
          Escs     \* escape characters used (code points), e.g. {92} or {92, 33}

Comma == 44   Semi == 59   Tab == 9   DQ == 34   SQ == 39   BS == 92   NL == 10   CR == 13
Bang == 33    LetA == 97

FTs == {<<Comma>>, <<Tab>>, <<Comma, Semi>>}
LTs == {<<NL>>, <<CR, NL>>}
Encs == {<<>>, <<DQ>>, <<SQ>>}
STs == {<<>>, <<62, 62>>}              \* LINES STARTING BY '' | '>>'

Options == {o \in [ft : FTs, lt : LTs, enc : Encs, opt : BOOLEAN, esc : {<<e>> : e \in Escs}, st : STs] : GoodOptions(o)}

\* the option sets are printed once per run: the random generator of binding B draws from exactly this set
ASSUME PrintT("OPTS " \o ToJson(Options))

\* every delimiter, both quotes, both escape characters, newline, CR, NUL, a plain letter, 'N'
Alphabet == {Comma, Semi, Tab, DQ, SQ, BS, NL, CR, 0, LetA, cN, Bang}

Str0 == {<<>>}
Str1 == {<<c>> : c \in Alphabet}
Str2 == {<<c, d>> : c \in Alphabet, d \in Alphabet}
IntCells == {NullCell, Str(<<48>>), Str(<<45, 53>>), Str(<<49, 50>>)}     \* NULL 0 -5 12
SCells(maxlen) == {NullCell} \cup {Str(v) : v \in Str0 \cup Str1 \cup (IF maxlen >= 2 THEN Str2 ELSE {})}
Cells(ty, maxlen) == IF ty = "i" THEN IntCells ELSE SCells(maxlen)

TypeVecs == {<<"s">>, <<"s", "s">>, <<"s", "i">>, <<"i", "s">>}

RowsOf(types, maxlen) ==
    IF Len(types) = 1 THEN {<<c>> : c \in Cells(types[1], maxlen)}
    ELSE {<<c, d>> : c \in Cells(types[1], maxlen), d \in Cells(types[2], maxlen)}

\* the cells that matter most for one option set: NULL, '', each special character alone, NUL
CoreCells(ty, oo) ==
    IF ty = "i" THEN IntCells
    ELSE {NullCell, Str(<<>>), Str(<<0>>)}
         \cup {Str(<<c>>) : c \in {oo.ft[1], oo.lt[1], oo.esc[1]} \cup Chars(oo.enc)}
CoreRows(types, oo) == {<<c, d>> : c \in CoreCells(types[1], oo), d \in CoreCells(types[2], oo)}

\* tables: one row with long strings, two rows with strings of length <= 1
TablesOf(types, oo) ==
    {<<r>> : r \in RowsOf(types, IF Long \/ Len(types) = 1 THEN 2 ELSE 1)}
    \cup (IF Core /\ Len(types) = 2
          THEN {<<r, q>> : r \in CoreRows(types, oo), q \in CoreRows(types, oo)}
          ELSE {<<r, q>> : r \in RowsOf(types, 1), q \in RowsOf(types, 1)})
    \cup {<<>>}

VARIABLES o, types, rows, phase
vars == <<o, types, rows, phase>>

Init == o \in Options /\ types = <<"s">> /\ rows = <<>> /\ phase = 0
Next == /\ phase = 0
        /\ phase' = 1
        /\ o' = o
        /\ types' \in TypeVecs
        /\ rows' \in TablesOf(types', o)

\* ---- properties of the model ------------------------------------------------------------------
RoundTripOK == phase = 1 => RoundTrip(rows, types, o)
\* the encoder writes one line terminator per row, unescaped only at row ends; NULL and '' differ in the text
NullVsEmpty == phase = 1 =>
    \A i \in DOMAIN rows : \A k \in DOMAIN rows[i] :
        EncCell(NullCell, types[k], o) # EncCell(Str(<<>>), types[k], o)
\* OPTIONALLY ENCLOSED encloses string columns only
OptEnclosesStrings == phase = 1 /\ o.opt =>
    \A k \in DOMAIN types : Enclosed(types[k], o) <=> types[k] = "s"
ModelOK == RoundTripOK /\ NullVsEmpty /\ OptEnclosesStrings

\* ---- sampling for binding A (`-simulate`): all random choices are drawn in the step ---------------
RandStr(d) == LET n == RandomElement(0..2) IN [j \in 1..n |-> RandomElement(Alphabet)]
RandCell(ty, d) ==
    IF ty = "i" THEN RandomElement(IntCells)
    ELSE IF RandomElement(1..6) = 1 THEN NullCell ELSE Str(RandStr(d))
RandRow(tys, d) == [k \in 1..Len(tys) |-> RandCell(tys[k], k)]
SInit == o = (CHOOSE x \in Options : TRUE) /\ types = <<"s">> /\ rows = <<>> /\ phase = 0
SNext == /\ phase = 0
         /\ phase' = 1
         /\ o' = RandomElement(Options)
         /\ types' = RandomElement(TypeVecs)
         /\ LET n == RandomElement(1..2) IN rows' = [i \in 1..n |-> RandRow(types', i)]

Emit == PrintT("CASE " \o ToJson([o |-> o', types |-> types', rows |-> rows',
                                  file |-> Encode(rows', types', o')]))
=============================================================================
