INIT Init
NEXT Next
CONSTANTS
  Graph = "self"
  KP = {0, 1}
  KC = {0, 1}
  ActSet = "six"
  PerKey = TRUE
  Toggle = TRUE
VIEW View0
INVARIANTS InvRefIntegrity InvKeys
PROPERTIES FailedNoEffect
CHECK_DEADLOCK FALSE
