CONSTANTS
  Sessions = {1}
  ModelVars = {}
  UserVars = {}
  MaxSteps = 0
INIT TInit
NEXT TNext
CONSTRAINT HW
POSTCONDITION Accepted
CHECK_DEADLOCK FALSE
