CONSTANTS
  Big = FALSE
INIT Init
NEXT Next
INVARIANT ModelOK
ACTION_CONSTRAINT Emit
CHECK_DEADLOCK FALSE
