CONSTANT Sigma = {97, 98}
CONSTANT MaxSub = 4
CONSTANT Deep = TRUE
INIT SInit
NEXT SNext
INVARIANT Sane
ACTION_CONSTRAINT Emit
CHECK_DEADLOCK FALSE
