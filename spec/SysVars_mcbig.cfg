CONSTANTS
  Sessions = {1, 2, 3}
  ModelVars = {"big_tables", "max_connections", "completion_type"}
  UserVars = {"u1"}
  MaxSteps = 5
INIT Init
NEXT Next
INVARIANTS TypeOK
PROPERTIES SessionIsolation GlobalNotSession GlobalSeenByNew RejectedHasNoEffect
CHECK_DEADLOCK FALSE
