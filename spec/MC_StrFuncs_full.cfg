CONSTANT MaxLen = 3
CONSTANT PadLen = 2
CONSTANT ListLen = 3
INIT Init
NEXT Next
INVARIANTS CaseOK Laws
ACTION_CONSTRAINT Emit
CHECK_DEADLOCK FALSE
