CONSTANTS
  Users = {"u1", "u2", "u3", "u1@%"}
  Roles = {"r1", "r2"}
  Dbs = {"d1", "d2"}
  Tbls = {"t1", "t2"}
  Privs = {"SELECT", "INSERT", "UPDATE", "DELETE", "CREATE", "DROP", "ALTER", "INDEX", "EXECUTE", "CREATE USER", "GRANT OPTION", "SUPER"}
  DynPrivs = {"REPLICATION_SLAVE_ADMIN", "CLONE_ADMIN"}
  MaxSet = 2
  WithAll = TRUE
  MaxStep = 100
  InitAll = TRUE
INIT TInit
NEXT TNext
CONSTRAINT Judge HW
POSTCONDITION Accepted
CHECK_DEADLOCK FALSE
