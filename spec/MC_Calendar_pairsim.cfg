CONSTANT Years = {}
CONSTANT Ops = {"pair"}
INIT PInit
NEXT PNext
INVARIANT CaseOK
ACTION_CONSTRAINT Emit
CHECK_DEADLOCK FALSE
