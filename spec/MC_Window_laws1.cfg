CONSTANT MaxRows = 1
INIT Init
NEXT Next
INVARIANT Laws
CHECK_DEADLOCK FALSE
